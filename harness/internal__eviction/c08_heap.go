package eviction

// C08(a) — one step of the LFU / LRU heaps from an arbitrary well-formed heap.

import (
	"container/heap"
	"strconv"

	vr "github.com/echovault/sugardb/internal/verifrt"
)

// lfuWellFormed: heap order w.r.t. Less, index fields, keys <-> entries agreement, no duplicates.
func lfuWellFormed(c *CacheLFU) bool {
	ok := len(c.keys) == len(c.entries)
	for i, e := range c.entries {
		ok = ok && e != nil && e.index == i && c.keys[e.key]
		if i > 0 {
			ok = ok && !c.Less(i, (i-1)/2)
		}
		for j := i + 1; j < len(c.entries); j++ {
			ok = ok && c.entries[j] != nil && c.entries[j].key != e.key
		}
	}
	return ok
}

func symLFU(n int) *CacheLFU {
	c := NewCacheLFU()
	for i := 0; i < n; i++ {
		cnt := vr.Int("cnt" + strconv.Itoa(i))
		vr.Assume(cnt >= 1 && cnt <= 1000)
		at := vr.Int64("at" + strconv.Itoa(i))
		vr.Assume(at >= 0 && at <= 4_000_000_000_000)
		k := vr.Tok("e" + strconv.Itoa(i))
		c.entries = append(c.entries, &EntryLFU{key: k, count: cnt, addedTime: at, index: i})
		c.keys[k] = true
	}
	vr.Assume(lfuWellFormed(c))
	return c
}

func Verif_C08_LFUStep() {
	n := vr.Choose("n", 4)
	c := symLFU(n)
	k := vr.Tok("k")
	var idx = -1
	for i, e := range c.entries {
		if e.key == k {
			idx = i
		}
	}
	switch vr.Choose("op", 3) {
	case 0: // Update
		before := 0
		if idx >= 0 {
			before = c.entries[idx].count
		}
		c.Update(k)
		vr.Assert(lfuWellFormed(c), "C08.lfu.update_keeps_heap")
		cnt, err := c.GetCount(k)
		vr.Assert(err == nil && cnt == before+1, "C08.lfu.update_counts_access")
		if idx < 0 {
			vr.Assert(c.Len() == n+1, "C08.lfu.update_adds_once")
		} else {
			vr.Assert(c.Len() == n, "C08.lfu.update_no_duplicate")
		}
	case 1: // Delete
		c.Delete(k)
		vr.Assert(lfuWellFormed(c), "C08.lfu.delete_keeps_heap")
		_, err := c.GetCount(k)
		vr.Assert(err != nil && !c.keys[k], "C08.lfu.delete_forgets_key")
		if idx >= 0 {
			vr.Assert(c.Len() == n-1, "C08.lfu.delete_removes_one")
		} else {
			vr.Assert(c.Len() == n, "C08.lfu.delete_absent_is_noop")
		}
	case 2: // Pop: the least frequently used entry
		if n == 0 {
			break
		}
		min := c.entries[0].count
		for _, e := range c.entries {
			if e.count < min {
				min = e.count
			}
		}
		var counts = map[string]int{}
		for _, e := range c.entries {
			counts[e.key] = e.count
		}
		victim := heap.Pop(c).(string)
		vr.Assert(counts[victim] == min, "C08.lfu.pop_least_frequent")
		vr.Assert(lfuWellFormed(c) && c.Len() == n-1 && !c.keys[victim], "C08.lfu.pop_keeps_heap")
	}
	vr.Reach("end")
}

func lruWellFormed(c *CacheLRU) bool {
	ok := len(c.keys) == len(c.entries)
	for i, e := range c.entries {
		ok = ok && e != nil && e.index == i && c.keys[e.key]
		if i > 0 {
			ok = ok && !c.Less(i, (i-1)/2)
		}
		for j := i + 1; j < len(c.entries); j++ {
			ok = ok && c.entries[j] != nil && c.entries[j].key != e.key
		}
	}
	return ok
}

func symLRU(n int) *CacheLRU {
	c := NewCacheLRU()
	for i := 0; i < n; i++ {
		at := vr.Int64("at" + strconv.Itoa(i))
		vr.Assume(at >= 0 && at <= 1_000_000_000_000)
		k := vr.Tok("e" + strconv.Itoa(i))
		c.entries = append(c.entries, &EntryLRU{key: k, unixTime: at, index: i})
		c.keys[k] = true
	}
	vr.Assume(lruWellFormed(c))
	return c
}

func Verif_C08_LRUStep() {
	n := vr.Choose("n", 4)
	c := symLRU(n)
	k := vr.Tok("k")
	var idx = -1
	for i, e := range c.entries {
		if e.key == k {
			idx = i
		}
	}
	switch vr.Choose("op", 3) {
	case 0:
		c.Update(k)
		vr.Assert(lruWellFormed(c), "C08.lru.update_keeps_heap")
		if idx < 0 {
			vr.Assert(c.Len() == n+1, "C08.lru.update_adds_once")
		} else {
			vr.Assert(c.Len() == n, "C08.lru.update_no_duplicate")
		}
		// the touched key is now the most recently used one
		t, err := c.GetTime(k)
		vr.Assert(err == nil, "C08.lru.update_records_key")
		for _, e := range c.entries {
			vr.Assert(e.unixTime <= t, "C08.lru.update_is_most_recent")
		}
	case 1:
		c.Delete(k)
		vr.Assert(lruWellFormed(c), "C08.lru.delete_keeps_heap")
		_, err := c.GetTime(k)
		vr.Assert(err != nil && !c.keys[k], "C08.lru.delete_forgets_key")
	case 2:
		if n == 0 {
			break
		}
		oldest := c.entries[0].unixTime
		for _, e := range c.entries {
			if e.unixTime < oldest {
				oldest = e.unixTime
			}
		}
		times := map[string]int64{}
		for _, e := range c.entries {
			times[e.key] = e.unixTime
		}
		newest := c.entries[0].unixTime
		for _, e := range c.entries {
			if e.unixTime > newest {
				newest = e.unixTime
			}
		}
		victim := heap.Pop(c).(string)
		// the heap pops an extreme element of the recency order ...
		vr.Assert(times[victim] == oldest || times[victim] == newest, "C08.lru.pop_extreme")
		// ... and the property wants the least recently used one
		vr.Assert(times[victim] == oldest, "C08.lru.pop_least_recent")
		vr.Assert(lruWellFormed(c) && c.Len() == n-1 && !c.keys[victim], "C08.lru.pop_keeps_heap")
	}
	vr.Reach("end")
}
