package sugardb

// C19 — the reported memory figure is a function of the current dataset. Stated differentially:
// after any mutation, memUsed equals the memUsed of a fresh server loaded with the same dataset
// through the repository's own setValues/setExpiry (two runs of the real accounting code).

import (
	"strconv"
	"strings"
	"time"

	"github.com/echovault/sugardb/internal/constants"
	"github.com/echovault/sugardb/internal/modules/set"
	ss "github.com/echovault/sugardb/internal/modules/sorted_set"
	vr "github.com/echovault/sugardb/internal/verifrt"
)

// c19Fresh is f(D): the figure of a fresh server holding the dataset of s.
func c19Fresh(s *SugarDB) int64 {
	b := verifServer()
	for db, m := range s.store {
		for k, e := range m {
			verifPreset(b, db, k, c19Copy(e.Value))
			if e.ExpireAt != (time.Time{}) {
				verifPresetExpiry(b, db, k, e.ExpireAt)
			}
		}
	}
	return b.memUsed
}

// c19Copy builds the value again from its content alone, the way a client that loads the dataset into
// a fresh server would: nothing of how the original came about (spare capacity of a slice that grew and
// shrank, a map that once was larger, an object shared with another key) carries over.
func c19Copy(v interface{}) interface{} {
	switch x := v.(type) {
	case []string:
		out := make([]string, len(x))
		copy(out, x)
		return out
	case map[string]interface{}:
		out := make(map[string]interface{}, len(x))
		for f, fv := range x {
			out[f] = fv
		}
		return out
	case *set.Set:
		return set.NewSet(x.GetAll())
	case *ss.SortedSet:
		return ss.NewSortedSet(x.GetAll())
	}
	return v
}

const (
	dStr = iota
	dInt
	dList
	dHash
	dSet
	dZSet
	dKinds
)

// c19Value is an arbitrary value of the chosen kind (element contents and lengths symbolic).
func c19Value(name string, kind int) interface{} {
	switch kind {
	case dStr:
		return vr.Tok(name + "_s")
	case dInt:
		return vr.Int(name + "_i")
	case dList:
		return symList(name+"_l", 2)
	case dHash:
		m := map[string]interface{}{}
		if vr.Choose(name+"_hn", 2) == 1 {
			m[vr.Tok(name+"_hf")] = vr.Tok(name + "_hv")
		}
		return m
	case dSet:
		if vr.Choose(name+"_sn", 2) == 1 {
			return set.NewSet([]string{vr.Tok(name + "_sm")})
		}
		return set.NewSet([]string{})
	case dZSet:
		if vr.Choose(name+"_zn", 2) == 1 {
			return ss.NewSortedSet([]ss.MemberParam{{Value: ss.Value(vr.Tok(name + "_zm")), Score: 1}})
		}
		return ss.NewSortedSet([]ss.MemberParam{})
	}
	return nil
}

// Verif_C19_Keyspace: the keyspace mutators themselves (setValues over an existing or missing
// key, deleteKey, Flush) keep memUsed == f(dataset).
func Verif_C19_Keyspace() {
	s := verifServer()
	k := vr.Tok("k")
	if vr.Choose("pre", 2) == 1 {
		verifPreset(s, 0, k, c19Value("old", vr.Choose("oldkind", dKinds)))
	}
	vr.Assert(s.memUsed == c19Fresh(s), "C19.load_is_consistent")
	switch vr.Choose("op", 4) {
	case 0:
		verifPreset(s, 0, k, c19Value("new", vr.Choose("newkind", dKinds)))
		vr.Assert(s.memUsed == c19Fresh(s), "C19.setvalues")
	case 1:
		if _, ok := s.store[0][k]; ok {
			vr.Assert(s.deleteKey(verifCtx(0), k) == nil, "C19.deletekey.noerror")
		}
		vr.Assert(s.memUsed == c19Fresh(s), "C19.deletekey")
		vr.Assert(len(s.store[0]) != 0 || s.memUsed == 0, "C19.empty_is_zero")
	case 2:
		if s.store[0] != nil {
			s.Flush(0)
		}
		vr.Assert(s.memUsed == 0, "C19.flushdb_is_zero")
	case 3:
		s.Flush(-1)
		vr.Assert(s.memUsed == 0, "C19.flushall_is_zero")
	}
	vr.Reach("end")
}

// Verif_C19_Commands: one mutating command on an arbitrary stored value of the matching type.
func Verif_C19_Commands() {
	s := verifServer()
	k := vr.Tok("k")
	cmd := vr.Choose("cmd", 19)
	kinds := []int{dStr, dStr, dStr, dInt, dStr, dList, dList, dList, dHash, dHash, dSet, dSet, dZSet, dZSet, dStr, dStr, dList, dStr, dStr}
	if vr.Choose("pre", 2) == 1 {
		verifPreset(s, 0, k, c19Value("old", kinds[cmd]))
	}
	a, b := vr.Tok("a"), vr.Tok("b")
	var err error
	var panicked bool
	switch cmd {
	case 0:
		_, err, panicked = verifRun(s, "SET", k, a)
	case 1:
		_, err, panicked = verifRun(s, "APPEND", k, a)
	case 2:
		_, err, panicked = verifRun(s, "DEL", k)
	case 3:
		_, err, panicked = verifRun(s, "INCR", k)
	case 4:
		_, err, panicked = verifRun(s, "GETDEL", k)
	case 5:
		_, err, panicked = verifRun(s, "LPUSH", k, a)
	case 6:
		_, err, panicked = verifRun(s, "RPOP", k)
	case 7:
		_, err, panicked = verifRun(s, "LSET", k, "0", a)
	case 8:
		_, err, panicked = verifRun(s, "HSET", k, a, b)
	case 9:
		_, err, panicked = verifRun(s, "HDEL", k, a)
	case 10:
		_, err, panicked = verifRun(s, "SADD", k, a)
	case 11:
		_, err, panicked = verifRun(s, "SREM", k, a)
	case 12:
		_, err, panicked = verifRun(s, "ZADD", k, "1", a)
	case 13:
		_, err, panicked = verifRun(s, "ZREM", k, a)
	case 14:
		k2 := vr.Tok("k2")
		vr.Assume(k2 != k)
		if vr.Choose("pre2", 2) == 1 {
			verifPreset(s, 0, k2, vr.Tok("old2"))
		}
		_, err, panicked = verifRun(s, "RENAME", k, k2)
	case 15:
		_, err, panicked = verifRun(s, "FLUSHDB")
	case 16:
		_, err, panicked = verifRun(s, "LTRIM", k, "0", "0")
	case 17: // the same key named twice
		_, err, panicked = verifRun(s, "DEL", k, k)
	case 18: // a missing key next to an existing one
		_, err, panicked = verifRun(s, "DEL", vr.Tok("missing"), k)
	}
	vr.Assert(!panicked, "C19.cmd.nopanic."+strconv.Itoa(cmd))
	_ = err
	if panicked {
		return
	}
	vr.Assert(s.memUsed == c19Fresh(s), "C19.cmd."+strconv.Itoa(cmd))
	vr.Reach("end")
}

// Verif_C19_Expiry: removal of an expired key on read keeps the figure consistent.
func Verif_C19_Expiry() {
	s, _, nowMs := c04Server()
	k := vr.Tok("k")
	verifPreset(s, 0, k, vr.Tok("v"))
	dl, dlMs := symInstant("dl")
	verifPresetExpiry(s, 0, k, dl)
	vr.Assume(dlMs < nowMs)
	_, _, panicked := verifRun(s, "GET", k)
	vr.Assert(!panicked, "C19.expiry.nopanic")
	s.getValues(verifCtx(0), []string{k})
	vr.Assert(s.memUsed == c19Fresh(s), "C19.expiry_removal")
	vr.Reach("end")
}

// Verif_C19_DeleteThenEvict: under an evicting policy a key that was deleted leaves nothing behind
// in the eviction caches, so a later eviction pass accounts only for keys that are stored: after
// the pass the reported figure is still the size of what is left (here: nothing).
func Verif_C19_DeleteThenEvict() {
	policies := []string{constants.AllKeysLFU, constants.AllKeysLRU, constants.VolatileLFU, constants.VolatileLRU}
	policy := policies[vr.Choose("policy", len(policies))]
	s := c08Server(policy)
	s.config.MaxMemory = 1 << 50
	volatile := policy == constants.VolatileLFU || policy == constants.VolatileLRU
	a, b := vr.Tok("a"), vr.Tok("b")
	vr.Assume(a != b)
	set := func(k string) {
		if volatile {
			c05Run(s, "SET", k, "v", "EX", "1000")
		} else {
			c05Run(s, "SET", k, "v")
		}
		vr.Quiesce()
	}
	order := vr.Choose("order", 3)
	if order == 1 {
		set(b)
	}
	set(a)
	if order == 2 {
		set(b)
	}
	// the key may lose its deadline before it is deleted (PERSIST, or a plain SET over it)
	switch vr.Choose("before_delete", 3) {
	case 1:
		c05Run(s, "PERSIST", a)
		vr.Quiesce()
	case 2:
		c05Run(s, "SET", a, "w")
		vr.Quiesce()
	}
	switch vr.Choose("delete", 2) {
	case 0:
		c05Run(s, "DEL", a)
	case 1:
		c05Run(s, "GETDEL", a)
	}
	vr.Quiesce()
	vr.Assert(s.memUsed == c19Fresh(s), "C19.evicting.delete_accounted")
	// now everything has to go
	s.config.MaxMemory = 1
	_ = s.adjustMemoryUsage(verifCtx(0))
	vr.Assert(s.memUsed == c19Fresh(s), "C19.evicting.eviction_accounts_only_for_stored_keys")
	vr.Assert(s.memUsed >= 0, "C19.evicting.figure_never_negative")
	vr.Reach("end")
}

// Verif_C19_WriteOverExpired: a write over an entry whose deadline has passed but which is still
// stored (nothing has read or swept it yet) replaces it: the figure is that of the new dataset,
// and goes back to zero when the key is deleted.
func Verif_C19_WriteOverExpired() { verifWriteOverExpired("C19") }

// Verif_C08_WriteOverExpired: the same scenario under C08 - the usage figure that admission and
// eviction decisions are taken on is the size of what is stored, also after expired entries were overwritten.
func Verif_C08_WriteOverExpired() { verifWriteOverExpired("C08") }

func verifWriteOverExpired(tag string) {
	s, _, nowMs := c04Server()
	k := vr.Tok("k")
	verifPreset(s, 0, k, c19Value("old", vr.Choose("old_kind", 3)))
	dl, dlMs := symInstant("dl")
	verifPresetExpiry(s, 0, k, dl)
	expired := vr.Choose("expired", 2) == 1
	if expired {
		vr.Assume(dlMs < nowMs)
	} else {
		vr.Assume(dlMs > nowMs)
	}
	switch vr.Choose("write", 3) {
	case 0:
		_ = s.setValues(verifCtx(0), map[string]interface{}{k: vr.Tok("w")})
	case 1:
		c05Run(s, "SET", k, vr.Tok("w"))
	case 2:
		c05Run(s, "MSET", k, vr.Tok("w"), vr.Tok("k2"), "x")
	}
	vr.Quiesce()
	vr.Assert(s.memUsed == c19Fresh(s), tag+".write_over_expired.figure_is_that_of_the_new_dataset")
	s.Flush(-1)
	vr.Assert(s.memUsed == 0, tag+".write_over_expired.empty_is_zero")
	vr.Reach("end")
}

// ---- a write that is refused for lack of memory leaves the figure alone ----
//
// noeviction with a symbolic limit that the current usage may or may not have passed (the limit is
// switched on after the dataset was loaded, as when usage crossed it with one large value). One write
// (a keyspace call or a command) to an existing key of any kind or to a fresh key, alone or in a batch
// of two: whether it is admitted or refused, the figure afterwards is that of the dataset afterwards,
// and an empty dataset reports zero.
func verifRefusedWriteFigure(tag string) {
	s := verifServer()
	k, k2 := vr.Tok("k"), vr.Tok("k2")
	vr.Assume(k != k2)
	if vr.Choose("k_exists", 2) == 1 {
		verifPreset(s, 0, k, c19Value("old", vr.Choose("old_kind", 3)))
	}
	verifPreset(s, 0, k2, c19Value("other", 0))
	limit := vr.Int("limit")
	vr.Assume(limit >= 1 && limit <= 1<<20)
	s.config.MaxMemory = uint64(limit)
	s.config.EvictionPolicy = constants.NoEviction
	var refused bool
	switch vr.Choose("write", 4) {
	case 0:
		refused = s.setValues(verifCtx(0), map[string]interface{}{k: vr.Tok("w")}) != nil
	case 1:
		refused = s.setValues(verifCtx(0), map[string]interface{}{k: vr.Tok("w"), k2: vr.Tok("w2")}) != nil
	case 2:
		refused = strings.HasPrefix(c05Run(s, "SET", k, vr.Tok("w")), "ERR")
	case 3:
		refused = strings.HasPrefix(c05Run(s, "APPEND", k, vr.Tok("w")), "ERR")
	}
	vr.Quiesce()
	if refused {
		vr.Assert(s.memUsed == c19Fresh(s), tag+".refused_write.figure_is_still_that_of_the_dataset")
	} else {
		vr.Assert(s.memUsed == c19Fresh(s), tag+".admitted_write.figure_is_that_of_the_new_dataset")
	}
	s.config.MaxMemory = 0
	s.Flush(-1)
	vr.Assert(s.memUsed == 0, tag+".refused_write.empty_is_zero")
	vr.Reach("end")
}

func Verif_C19_RefusedWriteLeavesFigureAlone() { verifRefusedWriteFigure("C19") }
func Verif_C08_RefusedWriteLeavesFigureAlone() { verifRefusedWriteFigure("C08") }
