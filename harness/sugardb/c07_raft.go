package sugardb

// C07 — replication. Real servers constructed in cluster mode by the real constructor: the
// repository's RaftInit, FSM, raftApplyCommand and handleCommand routing run as they are. Under
// the symbolic executor hashicorp/raft is an ideal replicated log (see the engine's raft model);
// natively the same harness runs a real local raft cluster over loopback.

import (
	"context"
	"encoding/json"
	"fmt"
	"io"
	"strings"
	"time"

	hraft "github.com/hashicorp/raft"

	"github.com/echovault/sugardb/internal"
	"github.com/echovault/sugardb/internal/config"
	"github.com/echovault/sugardb/internal/constants"
	"github.com/echovault/sugardb/internal/raft"
	vr "github.com/echovault/sugardb/internal/verifrt"
)

func c07Cluster(n int, forward bool) []*SugarDB {
	nodes := make([]*SugarDB, n)
	leaderJoin := ""
	for i := 0; i < n; i++ {
		rp, _ := internal.GetFreePort()
		dp, _ := internal.GetFreePort()
		addr := fmt.Sprintf("127.0.%d.%d", 40+i, 10+(rp%200))
		conf := config.Config{
			ServerID:          fmt.Sprintf("SERVER-%d", i),
			BindAddr:          addr,
			RaftBindAddr:      addr,
			RaftBindPort:      uint16(rp),
			DiscoveryPort:     uint16(dp),
			DataDir:           "",
			BootstrapCluster:  i == 0,
			JoinAddr:          leaderJoin,
			ForwardCommand:    forward,
			EvictionPolicy:    constants.NoEviction,
			SnapShotThreshold: 1000,
			SnapshotInterval:  5 * time.Minute,
			EvictionSample:    20,
			EvictionInterval:  100 * time.Millisecond,
		}
		s, err := NewSugarDB(WithContext(context.Background()), WithConfig(conf))
		if err != nil {
			panic("verif: cluster node: " + err.Error())
		}
		nodes[i] = s
		if i == 0 {
			leaderJoin = fmt.Sprintf("%s/%s:%d", conf.ServerID, addr, dp)
			for !s.raft.IsRaftLeader() {
				time.Sleep(10 * time.Millisecond)
			}
		} else {
			for !s.raft.HasJoinedCluster() {
				time.Sleep(10 * time.Millisecond)
			}
		}
	}
	return nodes
}

func c07Shutdown(nodes []*SugarDB) {
	if vr.Symbolic() {
		return
	}
	for i := len(nodes) - 1; i >= 0; i-- {
		nodes[i].ShutDown()
	}
}

// c07View renders keys k and k2 in the given databases of one node.
func c07View(s *SugarDB, dbs []int, keys ...string) string {
	s.storeLock.RLock()
	defer s.storeLock.RUnlock()
	out := ""
	for _, db := range dbs {
		for _, k := range keys {
			out += itoa(db) + "/" + k + "=" + c09Digest(s, db, k) + ";"
		}
	}
	return out
}

// c07Settle: natively replication to the followers is asynchronous; wait until they show the
// leader's view or two seconds have passed. The model replicates inside Apply.
func c07Settle(nodes []*SugarDB, dbs []int, keys ...string) {
	if vr.Symbolic() {
		return
	}
	for t := 0; t < 200; t++ {
		same := true
		for _, n := range nodes[1:] {
			if c07View(n, dbs, keys...) != c07View(nodes[0], dbs, keys...) {
				same = false
			}
		}
		if same {
			return
		}
		time.Sleep(10 * time.Millisecond)
	}
}

var c07Writes = [][]string{
	{"SET", "K", "V"}, {"MSET", "K", "V", "K2", "w"}, {"DEL", "K"}, {"LPUSH", "K", "V"}, {"RPUSH", "K", "V"},
	{"HSET", "K", "f", "V"}, {"SADD", "K", "V"}, {"ZADD", "K", "1", "V"}, {"INCR", "K"}, {"APPEND", "K", "V"},
	{"GETDEL", "K"}, {"FLUSHDB"}, {"RENAME", "K", "K2"}, {"PEXPIREAT", "K", "4000000000000"}, {"LPOP", "K"},
	{"HDEL", "K", "f"}, {"SREM", "K", "a"}, {"ZREM", "K", "a"}, {"SETRANGE", "K", "1", "V"}, {"PERSIST", "K"},
	{"EXPIRE", "K", "100"}, {"GETEX", "K", "PERSIST"}, {"SPOP", "K"}, {"LTRIM", "K", "0", "0"},
	{"SET", "K", "V", "EX", "100"}, {"PEXPIRE", "K", "5000"}, {"GETEX", "K", "EX", "50"}, {"SET", "K", "V", "PXAT", "4000000000000"},
}

var c07Presets = [][]string{
	nil, {"SET", "K", "old"}, {"RPUSH", "K", "a", "b"}, {"HSET", "K", "f", "1"}, {"SADD", "K", "a"}, {"ZADD", "K", "1", "a"}, {"SET", "K", "5"},
}

func c07Subst(t []string, k, k2, v string) []string {
	out := make([]string, len(t))
	for i, a := range t {
		switch a {
		case "K":
			out[i] = k
		case "K2":
			out[i] = k2
		case "V":
			out[i] = v
		default:
			out[i] = a
		}
	}
	return out
}

func c07Run(s *SugarDB, argv []string) string {
	r, err := s.handleCommand(context.Background(), internal.EncodeCommand(argv), nil, false, true)
	if err != nil {
		return "ERR " + err.Error()
	}
	return string(r)
}

// c07Leader: a preset and a write issued on the leader in a selected database; the leader then
// shows exactly what a standalone server shows after the same commands in that database, and every
// follower shows the same dataset in every database.
func c07Leader(lo, hi int) {
	if hi > len(c07Writes) {
		hi = len(c07Writes)
	}
	wi := vr.Choose("write", len(c07Writes))
	vr.Assume(wi >= lo && wi < hi)
	w := c07Writes[wi]
	pre := c07Presets[vr.Choose("preset", len(c07Presets))]
	dbChoice := []int{0, 1, 7}
	db := dbChoice[vr.Choose("db", 3)]
	k, k2, v := "key", "other", "val"
	nodes := c07Cluster(2+vr.Tier(), false) // thorough: a second replica
	defer c07Shutdown(nodes)
	ref := verifServer()
	// every machine has its own clock, and a replica applies an entry later than the leader
	base := vr.Int64("now_ms")
	skew := vr.Int64("replica_clock_ahead_ms")
	vr.Assume(base >= 1_700_000_000_000 && base <= 3_000_000_000_000 && skew >= 0 && skew <= 60_000)
	t0, t1 := time.UnixMilli(base), time.UnixMilli(base+skew)
	nodes[0].clock, ref.clock = verifClock{now: &t0}, verifClock{now: &t0}
	for _, n := range nodes[1:] {
		n.clock = verifClock{now: &t1}
	}
	_ = nodes[0].SelectDB(db)
	_ = ref.SelectDB(db)
	dbs := []int{0, 1, 7}
	var r, rr string
	if pre != nil {
		r, rr = c07Run(nodes[0], c07Subst(pre, k, k2, v)), c07Run(ref, c07Subst(pre, k, k2, v))
		vr.Assert(r == rr, "C07.leader.preset_reply_as_standalone")
	}
	r, rr = c07Run(nodes[0], c07Subst(w, k, k2, v)), c07Run(ref, c07Subst(w, k, k2, v))
	vr.Assert(r == rr, "C07.leader.reply_as_standalone")
	vr.Assert(c07View(nodes[0], dbs, k, k2) == c07View(ref, dbs, k, k2), "C07.leader.acknowledged_write_visible_in_selected_database")
	c07Settle(nodes, dbs, k, k2)
	for _, n := range nodes[1:] {
		vr.Assert(c07View(n, dbs, k, k2) == c07View(nodes[0], dbs, k, k2), "C07.replica.same_dataset_in_every_database")
	}
	vr.Reach("end")
}

func Verif_C07_Leader_A() { c07Leader(0, 5) }
func Verif_C07_Leader_B() { c07Leader(5, 10) }
func Verif_C07_Leader_C() { c07Leader(10, 15) }
func Verif_C07_Leader_D() { c07Leader(15, 20) }
func Verif_C07_Leader_E() { c07Leader(20, 24) }
func Verif_C07_Leader_F() { c07Leader(24, 99) }

// c07Follower: a client write arriving at a node that is not the leader is never applied there:
// without forwarding it is rejected, with forwarding it is handed over (the gossip hand-over
// itself is outside the model) - in both cases the follower's own dataset is untouched.
func Verif_C07_FollowerNeverAppliesLocally() {
	w := c07Writes[vr.Choose("write", len(c07Writes))]
	pre := c07Presets[vr.Choose("preset", len(c07Presets))]
	forward := vr.Choose("forward", 2) == 1
	k, k2, v := "key", "other", "val"
	nodes := c07Cluster(2, forward)
	defer c07Shutdown(nodes)
	dbs := []int{0, 1}
	if pre != nil {
		c07Run(nodes[0], c07Subst(pre, k, k2, v))
		c07Settle(nodes, dbs, k, k2)
	}
	before := c07View(nodes[1], dbs, k, k2)
	r := c07Run(nodes[1], c07Subst(w, k, k2, v))
	if !forward {
		vr.Assert(strings.HasPrefix(r, "ERR "), "C07.follower.rejects_client_write")
		vr.Assert(c07View(nodes[1], dbs, k, k2) == before && c07View(nodes[0], dbs, k, k2) == before, "C07.follower.rejected_write_changes_nothing")
	} else {
		// handed over: whatever shows up on the follower came back through replication, so the
		// leader shows it too (natively that takes a moment; the check looks right away and again
		// once things have settled)
		now := c07View(nodes[1], dbs, k, k2)
		vr.Assert(now == before || now == c07View(nodes[0], dbs, k, k2), "C07.follower.forwarded_write_not_applied_locally")
	}
	vr.Reach("end")
}

// c07Routing: a command whose handler changes the dataset for some input must be a replicated
// (Sync) write command, otherwise handleCommand runs it on whichever node received it.
func c07Routing(module string, kind int) {
	gConcreteScores = true
	s := verifServer()
	if module == constants.StringModule {
		gByteStrings = 2
	}
	cmds := c13Commands(s, module)
	c := cmds[vr.Choose("cmd", len(cmds))]
	k := vr.Tok("k")
	var pv gVal
	if vr.Choose("pre", 2) == 1 {
		pv = gSym("p", kind, 1)
		gStoreIn(s, 0, k, pv)
		if vr.Choose("volatile", 2) == 1 {
			verifPresetExpiry(s, 0, k, time.UnixMilli(4000000000000))
		}
	}
	x := vr.Tok("x")
	if module == constants.StringModule {
		x = gBytes("xb", 2)
	}
	var argv []string
	switch vr.Choose("shape", 5) {
	case 0:
		argv = []string{c.Command, k}
	case 1:
		argv = []string{c.Command, k, x}
	case 2:
		argv = []string{c.Command, k, "1", x}
	case 3:
		argv = []string{c.Command, k, x, x}
	case 4:
		argv = []string{c.Command, k, "PERSIST"}
	}
	e0, had := s.store[0][k]
	n0 := len(s.store[0])
	_, err, panicked := verifRun(s, argv...)
	if panicked || err != nil {
		vr.Reach("end")
		return
	}
	e1, has := s.store[0][k]
	changed := had != has || n0 != len(s.store[0])
	if had && has {
		changed = changed || e0.ExpireAt != e1.ExpireAt || !gHoldsIn(s, 0, k, pv)
	}
	if changed {
		vr.Assert(c.Sync, "C07.routing.mutating_command_is_replicated")
		vr.Assert(internal.IsWriteCommand(c, internal.SubCommand{}), "C07.routing.mutating_command_is_a_write_command")
	}
	vr.Reach("end")
}

func Verif_C07_Routing_Generic() { c07Routing(constants.GenericModule, gStr) }
func Verif_C07_Routing_String()  { c07Routing(constants.StringModule, gStr) }
func Verif_C07_Routing_List()    { c07Routing(constants.ListModule, gList) }
func Verif_C07_Routing_Hash()    { c07Routing(constants.HashModule, gHash) }
func Verif_C07_Routing_Set()     { c07Routing(constants.SetModule, gSet) }
func Verif_C07_Routing_ZSet_A() {
	gCmdPart, gCmdParts = 0, 2
	c07Routing(constants.SortedSetModule, gZSet)
}
func Verif_C07_Routing_ZSet_B() {
	gCmdPart, gCmdParts = 1, 2
	c07Routing(constants.SortedSetModule, gZSet)
}

// Verif_C07_ForwardedWrite: with forwarding on, a write that arrives at a follower is handed to
// the leader and ends up - on every node - where a standalone server would have put it: in the
// database the client had selected.
func Verif_C07_ForwardedWrite() {
	wi := vr.Choose("write", 8)
	w := c07Writes[wi]
	dbChoice := []int{0, 1, 7}
	db := dbChoice[vr.Choose("db", 3)]
	k, k2, v := "key", "other", "val"
	nodes := c07Cluster(2, true)
	defer c07Shutdown(nodes)
	ref := verifServer()
	_ = nodes[1].SelectDB(db)
	_ = ref.SelectDB(db)
	dbs := []int{0, 1, 7}
	r := c07Run(nodes[1], c07Subst(w, k, k2, v))
	c07Run(ref, c07Subst(w, k, k2, v))
	vr.Assert(r == "+OK\r\n", "C07.forward.follower_acknowledges")
	want := c07View(ref, dbs, k, k2)
	if !vr.Symbolic() {
		for t := 0; t < 600 && c07View(nodes[0], dbs, k, k2) != want; t++ {
			time.Sleep(10 * time.Millisecond)
		}
	}
	c07Settle(nodes, dbs, k, k2)
	vr.Assert(c07View(nodes[0], dbs, k, k2) == want, "C07.forward.write_lands_in_the_selected_database_on_the_leader")
	vr.Assert(c07View(nodes[1], dbs, k, k2) == c07View(nodes[0], dbs, k, k2), "C07.forward.replica_same_dataset")
	vr.Reach("end")
}

// Verif_C07_LeaderStateCopyAfterWrite: in cluster mode the state copy (what a raft snapshot of the
// state machine and SAVE take) still completes after the leader has acknowledged writes: an
// acknowledged write leaves no "mutation in progress" mark behind on any node.
func Verif_C07_LeaderStateCopyAfterWrite() {
	nodes := c07Cluster(2, false)
	defer c07Shutdown(nodes)
	dbs := []int{0}
	c07Run(nodes[0], []string{"SET", "key", "val"})
	if vr.Choose("second_write", 2) == 1 {
		c07Run(nodes[0], []string{"INCR", "key"}) // a replicated write that fails
	}
	c07Settle(nodes, dbs, "key", "other")
	who := vr.Choose("node", 2)
	crashed := ""
	func() {
		defer func() {
			if x := recover(); x != nil {
				crashed = fmt.Sprint(x)
			}
		}()
		vr.Go(func() { _ = nodes[who].getState() })
		vr.Join()
	}()
	vr.Assert(!strings.Contains(crashed, "deadlock"), "C07.state_copy_after_write.nodeadlock")
	vr.Reach("end")
}

// Verif_C07_ClusterSnapshotCompletes: SAVE on a cluster node takes a raft snapshot of the state machine
// (FSM.Snapshot, Persist, Release). With data in one or two databases and after acknowledged writes it
// completes: it neither waits forever for a mutation that has long finished, nor crashes the process.
func Verif_C07_ClusterSnapshotCompletes() {
	nodes := c07Cluster(2, false)
	defer c07Shutdown(nodes)
	dbs := []int{0, 1}
	if vr.Choose("db1", 2) == 1 {
		_ = nodes[0].SelectDB(1)
	}
	switch vr.Choose("data", 3) {
	case 1:
		c07Run(nodes[0], []string{"SET", "key", "val"})
	case 2:
		c07Run(nodes[0], []string{"SET", "key", "val"})
		c07Run(nodes[0], []string{"RPUSH", "other", "a"})
	}
	c07Settle(nodes, dbs, "key", "other")
	who := vr.Choose("node", 2)
	crashed := ""
	var err error
	func() {
		defer func() {
			if x := recover(); x != nil {
				crashed = fmt.Sprint(x)
			}
		}()
		vr.Go(func() { err = nodes[who].raft.TakeSnapshot() })
		vr.Join()
	}()
	vr.Assert(!strings.Contains(crashed, "deadlock"), "C07.cluster_snapshot.nodeadlock")
	if !strings.Contains(crashed, "deadlock") {
		vr.Assert(crashed == "", "C07.cluster_snapshot.nopanic")
		_ = err // (an attempt that finds nothing new may report so: the wording is not part of the claim)
	}
	vr.Reach("end")
}

// Verif_C07_MultiKeyWriteUnderMemoryLimit: a multi-key write applied by every node under a memory
// limit (noeviction) has the same effect on every node, whatever order each node's map iteration
// takes: all of it or none of it, never a node-dependent subset.
func Verif_C07_MultiKeyWriteUnderMemoryLimit() {
	vr.MapOrderND(true)
	nodes := c07Cluster(2, false)
	defer c07Shutdown(nodes)
	max := vr.Int64("max")
	used := vr.Int64("used")
	vr.Assume(max >= 1 && max <= 4096 && used >= 0 && used <= 4096)
	for _, n := range nodes {
		n.config.MaxMemory = uint64(max)
		n.memUsed = used
	}
	dbs := []int{0}
	r := c07Run(nodes[0], []string{"MSET", "k1", "v1", "k2", "v2"})
	c07Settle(nodes, dbs, "k1", "k2")
	lv := c07View(nodes[0], dbs, "k1", "k2")
	vr.Assert(c07View(nodes[1], dbs, "k1", "k2") == lv, "C07.multikey_under_limit.same_dataset_on_every_node")
	none := "0/k1=<absent>;0/k2=<absent>;"
	all := "0/k1=s:v1;0/k2=s:v2;"
	if strings.HasPrefix(r, "ERR ") {
		vr.Assert(lv == none, "C07.multikey_under_limit.error_reply_means_nothing_written")
	} else {
		vr.Assert(lv == all, "C07.multikey_under_limit.ok_reply_means_all_written")
	}
	vr.Reach("end")
}

// ---- the state machine's snapshot and restore (what raft uses to bring a restarted, lagging or new
// node up to date): a snapshot is the state at the log position it is taken at, and restoring it and
// replaying the later entries reproduces the leader's dataset in every database ----

type c07Sink struct{ buf []byte }

func (k *c07Sink) Write(p []byte) (int, error) { k.buf = append(k.buf, p...); return len(p), nil }
func (k *c07Sink) Close() error                { return nil }
func (k *c07Sink) ID() string                  { return "2-7-1700000000000" }
func (k *c07Sink) Cancel() error               { return nil }

// c07Source is the io.ReadCloser raft hands to FSM.Restore.
type c07Source struct {
	buf []byte
	pos int
}

func (r *c07Source) Read(p []byte) (int, error) {
	if r.pos >= len(r.buf) {
		return 0, io.EOF
	}
	n := copy(p, r.buf[r.pos:])
	r.pos += n
	return n, nil
}
func (r *c07Source) Close() error         { return nil }
func (r *c07Source) VerifContent() []byte { return r.buf[r.pos:] }

// c07FSM: the repository's raft state machine over a server's own keyspace functions.
func c07FSM(s *SugarDB) hraft.FSM {
	return raft.NewFSM(raft.FSMOpts{
		Config:                s.config,
		GetCommand:            s.getCommand,
		SetValues:             s.setValues,
		SetExpiry:             s.setExpiry,
		Flush:                 s.Flush,
		StartSnapshot:         s.startSnapshot,
		FinishSnapshot:        s.finishSnapshot,
		SetLatestSnapshotTime: s.setLatestSnapshot,
		GetHandlerFuncParams:  s.getHandlerFuncParams,
		DeleteKey: func(ctx context.Context, key string) error {
			s.storeLock.Lock()
			defer s.storeLock.Unlock()
			return s.deleteKey(ctx, key)
		},
		GetState: func() map[int]map[string]internal.KeyData {
			state := make(map[int]map[string]internal.KeyData)
			for database, store := range s.getState() {
				state[database] = make(map[string]internal.KeyData)
				for k, v := range store {
					if data, ok := v.(internal.KeyData); ok {
						state[database][k] = data
					}
				}
			}
			return state
		},
	})
}

func c07Entry(index uint64, db int, cmd ...string) *hraft.Log {
	b, err := json.Marshal(internal.ApplyRequest{Type: "command", ServerID: "SERVER-0", ConnectionID: "c", Protocol: 2, Database: db, CMD: cmd})
	if err != nil {
		panic("verif: marshal")
	}
	return &hraft.Log{Index: index, Term: 1, Type: hraft.LogCommand, Data: b}
}

func Verif_C07_SnapshotRestoreConverges() {
	leader, node := verifServer(), verifServer()
	lf, nf := c07FSM(leader), c07FSM(node)
	dbs := []int{0, 1}
	keys := []string{"a", "b", "l", "gone", "late"}
	// value families: strings only, or also a list and a counter (which the JSON snapshot re-types:
	// the known finding of C03/C09 - in cluster mode the restore then ends the process)
	typed := vr.Choose("typed_values", 2) == 1
	// the log: entries 1..4 are before the snapshot, 5.. after it
	before := []*hraft.Log{
		c07Entry(1, 0, "SET", "a", "start"),
		c07Entry(2, 1, "SET", "b", "other-db"),
		c07Entry(3, 0, "SET", "gone", "v"),
		c07Entry(4, 0, "DEL", "gone"),
	}
	if typed {
		before[1] = c07Entry(2, 1, "RPUSH", "l", "x")
	}
	var after []*hraft.Log
	switch vr.Choose("later_writes", 3) {
	case 1:
		after = []*hraft.Log{c07Entry(5, 0, "APPEND", "a", "+x")}
	case 2:
		after = []*hraft.Log{c07Entry(5, 0, "APPEND", "a", "+x"), c07Entry(6, 1, "APPEND", "b", "+y"), c07Entry(7, 1, "SET", "late", "v")}
		if typed {
			after[2] = c07Entry(7, 0, "INCR", "late")
		}
	}
	for _, e := range before {
		lf.Apply(e)
	}
	// the node that will be restored may be a new one or one that lags behind: it has applied a prefix
	lag := vr.Choose("node_has_applied", 4) // 0 (new node) .. 3 entries
	for _, e := range before[:lag] {
		nf.Apply(e)
	}
	snap, err := lf.Snapshot()
	vr.Assert(err == nil, "C07.snapshot_restore.snapshot_succeeds")
	if err != nil {
		return
	}
	// raft persists the snapshot on another goroutine: entries may be applied in between
	persistLater := vr.Choose("persist_after_later_writes", 2) == 1
	sink := &c07Sink{}
	if !persistLater {
		vr.Assert(snap.Persist(sink) == nil, "C07.snapshot_restore.persist_succeeds")
	}
	for _, e := range after {
		lf.Apply(e)
	}
	if persistLater {
		vr.Assert(snap.Persist(sink) == nil, "C07.snapshot_restore.persist_succeeds")
	}
	snap.Release()
	// the node installs the snapshot and replays what follows it
	var rerr error
	exited := false
	func() {
		defer func() {
			if x := recover(); x != nil {
				if !strings.Contains(fmt.Sprint(x), "process exit") {
					panic(x)
				}
				exited = true
			}
		}()
		rerr = nf.Restore(&c07Source{buf: sink.buf})
	}()
	vr.Assert(!exited, "C07.snapshot_restore.noexit")
	if exited {
		vr.Reach("end")
		return
	}
	vr.Assert(rerr == nil, "C07.snapshot_restore.restore_succeeds")
	for _, e := range after {
		nf.Apply(e)
	}
	vr.Assert(c07View(node, dbs, keys...) == c07View(leader, dbs, keys...), "C07.snapshot_restore.restored_node_converges_to_the_leader")
	vr.Reach("end")
}
