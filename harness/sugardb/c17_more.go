package sugardb

// C17 (second slice) — the order-dependent and multi-key sorted-set commands against a reference
// map member -> score ordered by (score, member): ZADD with two pairs and with INCR, ZCOUNT,
// ZLEXCOUNT, ZRANK / ZREVRANK, ZPOPMIN / ZPOPMAX, ZMPOP, ZREMRANGEBYSCORE / BYRANK / BYLEX,
// ZRANGE / ZRANGESTORE (BYSCORE and BYLEX, REV, LIMIT, WITHSCORES), ZUNION / ZINTER and their STORE
// forms with WEIGHTS and AGGREGATE, ZRANDMEMBER.
//
// Harnesses that depend on the order among equal scores use the concrete member names "c", "a", "b"
// (inserted in that order, so that neither insertion order nor map order is the sorted order) with
// arbitrary scores; the others use arbitrary opaque member names.

import (
	"math"
	"strconv"
	"strings"

	ss "github.com/echovault/sugardb/internal/modules/sorted_set"
	vr "github.com/echovault/sugardb/internal/verifrt"
)

var c17Names = []string{"c", "a", "b"}

// c17PresetNamed: like c17Preset but the members are the concrete names c, a, b (0..max of them).
// c17Cap2: the harness keeps sorted sets at 0..2 members in the thorough tier too (its other inputs
// already multiply to what fits the thorough budget).
var c17Cap2 bool

// c17Three: the harness uses 0..3 members in the quick tier as well.
var c17Three bool

func c17PresetNamed(s *SugarDB, k, name string, kinds int, sameScore bool) c17Pre {
	p := c17Pre{kind: vr.Choose(name+"_kind", kinds)}
	switch p.kind {
	case kZSet:
		max := c17Max()
		if c17Cap2 {
			max = 2
		}
		if c17Three {
			max = 3
		}
		n := vr.Choose(name+"_n", max+1)
		var params []ss.MemberParam
		for i := 0; i < n; i++ {
			m := c17M{name: c17Names[i], score: vr.Float(name + "_s" + strconv.Itoa(i))}
			vr.Assume(m.score == m.score)
			if sameScore && i > 0 {
				vr.Assume(m.score == p.members[0].score)
			}
			p.members = append(p.members, m)
			params = append(params, ss.MemberParam{Value: ss.Value(m.name), Score: ss.Score(m.score)})
		}
		verifPreset(s, 0, k, ss.NewSortedSet(params))
	case kOther:
		p.str = vr.Tok(name + "_str")
		verifPreset(s, 0, k, p.str)
	}
	return p
}

// c17PresetMenu: absent key or a sorted set of 0..max members with arbitrary distinct names and scores
// drawn from the given concrete menus (one menu per member position).
func c17PresetMenu(s *SugarDB, k, name string, max int, menus [][]float64) c17Pre {
	p := c17Pre{kind: vr.Choose(name+"_kind", 2)}
	if p.kind != kZSet {
		return p
	}
	n := vr.Choose(name+"_n", max+1)
	var params []ss.MemberParam
	for i := 0; i < n; i++ {
		m := c17M{name: vr.Tok(name + "_m" + strconv.Itoa(i)), score: menus[i][vr.Choose(name+"_s"+strconv.Itoa(i), len(menus[i]))]}
		for _, x := range p.members {
			vr.Assume(x.name != m.name)
		}
		p.members = append(p.members, m)
		params = append(params, ss.MemberParam{Value: ss.Value(m.name), Score: ss.Score(m.score)})
	}
	verifPreset(s, 0, k, ss.NewSortedSet(params))
	return p
}

// c17Less: the order of the reference model — by score, then by member (byte-wise).
func c17Less(a, b c17M) bool {
	if a.score < b.score {
		return true
	}
	if a.score > b.score {
		return false
	}
	return a.name < b.name
}

// c17Sorted returns the members in ascending model order (insertion sort; names must be concrete).
func c17Sorted(ms []c17M) []c17M {
	out := append([]c17M{}, ms...)
	for i := 1; i < len(out); i++ {
		for j := i; j > 0 && c17Less(out[j], out[j-1]); j-- {
			out[j], out[j-1] = out[j-1], out[j]
		}
	}
	return out
}

func c17Rev(ms []c17M) []c17M {
	out := make([]c17M, 0, len(ms))
	for i := len(ms) - 1; i >= 0; i-- {
		out = append(out, ms[i])
	}
	return out
}

// c17Bound is a score bound argument: one of the integers -2, 0, 3 (the stored scores are arbitrary
// doubles, so every order relation between a score and a bound is covered), -inf or +inf.
func c17Bound(name string) (string, float64) {
	switch vr.Choose(name+"_kind", 5) {
	case 1:
		return "-inf", math.Inf(-1)
	case 2:
		return "+inf", math.Inf(1)
	case 3:
		return "-2", -2
	case 4:
		return "3", 3
	}
	return "0", 0
}

type c17Item struct {
	name  string
	score float64
	has   bool
}

// c17Items reads an array reply as a list of members, optionally with scores. Accepted shapes: one
// nested array per member ([member] or [member, score]) or a flat array (members, or alternating
// member, score when withScores).
func c17Items(r vr.Resp, withScores bool) ([]c17Item, bool) {
	var out []c17Item
	nested := false
	for _, e := range r.Elems {
		if e.Kind == '*' {
			nested = true
		}
	}
	if nested {
		for _, e := range r.Elems {
			if e.Kind != '*' || len(e.Elems) < 1 || len(e.Elems) > 2 || !e.Elems[0].OK || e.Elems[0].Null {
				return nil, false
			}
			it := c17Item{name: e.Elems[0].Str}
			if len(e.Elems) == 2 {
				f, err := strconv.ParseFloat(e.Elems[1].Str, 64)
				if err != nil {
					return nil, false
				}
				it.score, it.has = f, true
			}
			out = append(out, it)
		}
		return out, true
	}
	if !withScores {
		for _, e := range r.Elems {
			if !e.OK || e.Null {
				return nil, false
			}
			out = append(out, c17Item{name: e.Str})
		}
		return out, true
	}
	if len(r.Elems)%2 != 0 {
		return nil, false
	}
	for i := 0; i < len(r.Elems); i += 2 {
		f, err := strconv.ParseFloat(r.Elems[i+1].Str, 64)
		if err != nil {
			return nil, false
		}
		out = append(out, c17Item{name: r.Elems[i].Str, score: f, has: true})
	}
	return out, true
}

// c17Match: got equals want (pairwise distinct names), in order or as a set; scores compared when asked.
func c17Match(got []c17Item, want []c17M, withScores, ordered bool) bool {
	if len(got) != len(want) {
		return false
	}
	if ordered {
		for i := range got {
			if got[i].name != want[i].name {
				return false
			}
			if withScores && !(got[i].has && got[i].score == want[i].score) {
				return false
			}
		}
		return true
	}
	used := make([]bool, len(want))
	for _, g := range got {
		found := false
		for j, w := range want {
			if !used[j] && g.name == w.name {
				if withScores && !(g.has && g.score == w.score) {
					return false
				}
				used[j] = true
				found = true
				break
			}
		}
		if !found {
			return false
		}
	}
	return true
}

func c17Without(ms []c17M, gone []c17M) []c17M {
	var out []c17M
	for _, m := range ms {
		drop := false
		for _, g := range gone {
			if g.name == m.name {
				drop = true
			}
		}
		if !drop {
			out = append(out, m)
		}
	}
	return out
}

// c17Exec runs argv and asserts that the server did not panic; ok=false means the harness must stop.
func c17Exec(s *SugarDB, ob string, argv ...string) ([]byte, error, bool) {
	reply, err, panicked := verifRun(s, argv...)
	vr.Assert(!panicked, ob+".nopanic")
	return reply, err, !panicked
}

// ---- ZADD with two pairs ----

func Verif_C17_ZAddTwoPairs() {
	s := verifServer()
	k := vr.Tok("k")
	p := c17Preset(s, k, "z", 3)
	policy := vr.Choose("policy", 3) // none NX XX
	ch := vr.Choose("ch", 2) == 1
	n1 := []int{-1, 2}[vr.Choose("score1", 2)]
	n2 := []int{2, 5}[vr.Choose("score2", 2)]
	m1, m2 := vr.Tok("m1"), vr.Tok("m2")
	argv := []string{"ZADD", k}
	if policy == 1 {
		argv = append(argv, "NX")
	}
	if policy == 2 {
		argv = append(argv, "XX")
	}
	if ch {
		argv = append(argv, "CH")
	}
	argv = append(argv, strconv.Itoa(n1), m1, strconv.Itoa(n2), m2)
	reply, err, ok := c17Exec(s, "C17.zadd2", argv...)
	if !ok {
		return
	}
	if p.kind == kOther {
		vr.Assert(err != nil, "C17.zadd2.wrongtype")
		c17Holds(s, k, p, "C17.zadd2.wrongtype_unchanged")
		vr.Reach("end")
		return
	}
	cur := append([]c17M{}, p.members...)
	added, changed := 0, 0
	for _, in := range []c17M{{m1, float64(n1)}, {m2, float64(n2)}} {
		idx := -1
		for i, x := range cur {
			if x.name == in.name {
				idx = i
			}
		}
		switch {
		case idx < 0 && policy != 2:
			cur = append(cur, in)
			added++
		case idx < 0:
		case policy == 1:
		default:
			if cur[idx].score != in.score {
				changed++
			}
			cur[idx].score = in.score
		}
	}
	vr.Assert(err == nil, "C17.zadd2.noerror")
	if err == nil && (ch || policy != 0) && m1 != m2 {
		// the same member named twice in one ZADD: the state is asserted, the count is outside the claim
		// without CH and without NX/XX the repository counts changed members too (known finding of
		// C17.zadd.reply, pinned by the repository's tests): not asserted again here
		want := added
		if ch {
			want = added + changed
		}
		vr.Assert(isIntReply(reply, want), "C17.zadd2.reply")
	}
	post := c17Pre{kind: kZSet, members: cur}
	if len(cur) == 0 && p.kind == kAbsent {
		post.kind = kAbsent
	}
	c17Holds(s, k, post, "C17.zadd2.post")
	vr.Reach("end")
}

// ---- ZADD ... INCR ----

func Verif_C17_ZAddIncr() {
	s := verifServer()
	k := vr.Tok("k")
	p := c17Preset(s, k, "z", 3)
	policy := vr.Choose("policy", 3) // none NX XX
	n := []int{-3, 0, 2}[vr.Choose("incr", 3)]
	m := vr.Tok("m")
	argv := []string{"ZADD", k}
	if policy == 1 {
		argv = append(argv, "NX")
	}
	if policy == 2 {
		argv = append(argv, "XX")
	}
	argv = append(argv, "INCR", strconv.Itoa(n), m)
	reply, err, ok := c17Exec(s, "C17.zaddincr", argv...)
	if !ok {
		return
	}
	if p.kind == kOther {
		vr.Assert(err != nil, "C17.zaddincr.wrongtype")
		c17Holds(s, k, p, "C17.zaddincr.wrongtype_unchanged")
		vr.Reach("end")
		return
	}
	old, had := p.find(m)
	if had && (old.score > 1.7e308 || old.score < -1.7e308) {
		vr.Reach("end") // incrementing an infinite score: rejected or kept, never NaN (not asserted here)
		return
	}
	post := c17Pre{kind: kZSet, members: c17Without(p.members, []c17M{{name: m}})}
	var want float64
	applied := false
	switch {
	case !had && policy != 2:
		want, applied = float64(n), true
	case had && policy != 1:
		want, applied = old.score+float64(n), true
	}
	if applied {
		post.members = append(post.members, c17M{m, want})
	} else if had {
		post.members = append(post.members, old)
	}
	if len(post.members) == 0 && p.kind == kAbsent {
		post.kind = kAbsent
	}
	vr.Assert(err == nil, "C17.zaddincr.noerror")
	if err == nil {
		r := vr.Decode(reply)
		if applied {
			f, perr := strconv.ParseFloat(r.Str, 64)
			vr.Assert(r.OK && !r.Null && perr == nil && f == want, "C17.zaddincr.reply_is_new_score")
		} else {
			vr.Assert(r.OK && r.Null, "C17.zaddincr.reply_nil_when_not_applied")
		}
	}
	c17Holds(s, k, post, "C17.zaddincr.post")
	vr.Reach("end")
}

// ---- ZCOUNT ----

func Verif_C17_ZCount() {
	s := verifServer()
	k := vr.Tok("k")
	p := c17Preset(s, k, "z", 3)
	lo, lov := c17Bound("min")
	hi, hiv := c17Bound("max")
	reply, err, ok := c17Exec(s, "C17.zcount", "ZCOUNT", k, lo, hi)
	if !ok {
		return
	}
	if p.kind == kOther {
		vr.Assert(err != nil, "C17.zcount.wrongtype")
		c17Holds(s, k, p, "C17.zcount.unchanged")
		vr.Reach("end")
		return
	}
	want := 0
	for _, m := range p.members {
		if m.score >= lov && m.score <= hiv {
			want++
		}
	}
	vr.Assert(err == nil && isIntReply(reply, want), "C17.zcount.reply")
	c17Holds(s, k, p, "C17.zcount.unchanged")
	vr.Reach("end")
}

// ---- ZRANK / ZREVRANK ----

func Verif_C17_ZRank() {
	s := verifServer()
	k := vr.Tok("k")
	p := c17PresetNamed(s, k, "z", 3, false)
	rev := vr.Choose("rev", 2) == 1
	withScores := vr.Choose("withscore", 2) == 1
	m := c17Names[vr.Choose("member", 3)]
	cmd := "ZRANK"
	if rev {
		cmd = "ZREVRANK"
	}
	argv := []string{cmd, k, m}
	if withScores {
		argv = append(argv, "WITHSCORES")
	}
	reply, err, ok := c17Exec(s, "C17.zrank", argv...)
	if !ok {
		return
	}
	if p.kind == kOther {
		vr.Assert(err != nil, "C17.zrank.wrongtype")
		c17Holds(s, k, p, "C17.zrank.unchanged")
		vr.Reach("end")
		return
	}
	vr.Assert(err == nil, "C17.zrank.noerror")
	if err != nil {
		return
	}
	order := c17Sorted(p.members)
	if rev {
		order = c17Rev(order)
	}
	rank := -1
	for i, x := range order {
		if x.name == m {
			rank = i
		}
	}
	r := vr.Decode(reply)
	if rank < 0 {
		vr.Assert(r.OK && r.Null, "C17.zrank.absent_is_nil")
	} else {
		// the rank as an integer, or an array whose first element is the rank
		got := r
		if r.OK && r.Kind == '*' && len(r.Elems) >= 1 {
			got = r.Elems[0]
		}
		vr.Assert(got.OK && got.Kind == ':' && got.Int == int64(rank), "C17.zrank.reply")
		if withScores && r.OK && r.Kind == '*' && len(r.Elems) == 2 {
			f, perr := strconv.ParseFloat(r.Elems[1].Str, 64)
			vr.Assert(perr == nil && f == order[rank].score, "C17.zrank.score")
		}
	}
	c17Holds(s, k, p, "C17.zrank.unchanged")
	vr.Reach("end")
}

// ---- ZPOPMIN / ZPOPMAX ----

func Verif_C17_ZPop() {
	s := verifServer()
	k := vr.Tok("k")
	p := c17PresetNamed(s, k, "z", 3, false)
	max := vr.Choose("max", 2) == 1
	hasCount := vr.Choose("hascount", 2) == 1
	count := 1
	cmd := "ZPOPMIN"
	if max {
		cmd = "ZPOPMAX"
	}
	argv := []string{cmd, k}
	if hasCount {
		count = vr.Int("count")
		vr.Assume(count >= 1 && count <= 4)
		argv = append(argv, strconv.Itoa(count))
	}
	reply, err, ok := c17Exec(s, "C17.zpop", argv...)
	if !ok {
		return
	}
	if p.kind == kOther {
		vr.Assert(err != nil, "C17.zpop.wrongtype")
		c17Holds(s, k, p, "C17.zpop.unchanged")
		vr.Reach("end")
		return
	}
	order := c17Sorted(p.members)
	if max {
		order = c17Rev(order)
	}
	if count > len(order) {
		count = len(order)
	}
	popped := order[:count]
	vr.Assert(err == nil, "C17.zpop.noerror")
	if err == nil {
		r, isArr := arrayReply(reply)
		items, shape := c17Items(r, true)
		vr.Assert(isArr && shape && c17Match(items, popped, true, false), "C17.zpop.reply_is_the_extreme_members")
	}
	post := c17Pre{kind: p.kind, members: c17Without(p.members, popped)}
	c17Holds(s, k, post, "C17.zpop.post")
	vr.Reach("end")
}

// ---- ZMPOP k1 k2 MIN|MAX [COUNT n] ----

func Verif_C17_ZMPop() {
	s := verifServer()
	k1, k2 := vr.Tok("k1"), vr.Tok("k2")
	vr.Assume(k1 != k2)
	for _, k := range []string{k1, k2} {
		vr.Assume(!strings.EqualFold(k, "min") && !strings.EqualFold(k, "max") && !strings.EqualFold(k, "count"))
	}
	p1 := c17PresetNamed(s, k1, "a", 2, false)
	p2 := c17PresetNamed(s, k2, "b", 2, false)
	max := vr.Choose("max", 2) == 1
	hasCount := vr.Choose("hascount", 2) == 1
	count := 1
	argv := []string{"ZMPOP", k1, k2}
	if max {
		argv = append(argv, "MAX")
	} else {
		argv = append(argv, "MIN")
	}
	if hasCount {
		count = vr.Int("count")
		vr.Assume(count >= 1 && count <= 3)
		argv = append(argv, "COUNT", strconv.Itoa(count))
	}
	reply, err, ok := c17Exec(s, "C17.zmpop", argv...)
	if !ok {
		return
	}
	vr.Assert(err == nil, "C17.zmpop.noerror")
	if err != nil {
		return
	}
	from, other := p1, p2
	fromKey, otherKey := k1, k2
	if len(p1.members) == 0 {
		from, other = p2, p1
		fromKey, otherKey = k2, k1
	}
	order := c17Sorted(from.members)
	if max {
		order = c17Rev(order)
	}
	if count > len(order) {
		count = len(order)
	}
	popped := order[:count]
	r, isArr := arrayReply(reply)
	if len(popped) == 0 {
		vr.Assert(r.OK && (r.Null || (isArr && len(r.Elems) == 0)), "C17.zmpop.nothing_to_pop")
	} else {
		// the popped members with their scores, possibly preceded by the key name
		body := r
		if isArr && len(r.Elems) == 2 && r.Elems[0].Kind != '*' && r.Elems[1].Kind == '*' && r.Elems[0].Str == fromKey {
			body = r.Elems[1]
		}
		items, shape := c17Items(body, true)
		vr.Assert(isArr && shape && c17Match(items, popped, true, false), "C17.zmpop.reply_is_the_extreme_members_of_the_first_nonempty_set")
	}
	c17Holds(s, fromKey, c17Pre{kind: from.kind, members: c17Without(from.members, popped)}, "C17.zmpop.post")
	c17Holds(s, otherKey, other, "C17.zmpop.other_key_unchanged")
	vr.Reach("end")
}

// ---- ZREMRANGEBYSCORE ----

func Verif_C17_ZRemRangeByScore() {
	s := verifServer()
	k := vr.Tok("k")
	p := c17Preset(s, k, "z", 3)
	lo, lov := c17Bound("min")
	hi, hiv := c17Bound("max")
	reply, err, ok := c17Exec(s, "C17.zremrangebyscore", "ZREMRANGEBYSCORE", k, lo, hi)
	if !ok {
		return
	}
	if p.kind == kOther {
		vr.Assert(err != nil, "C17.zremrangebyscore.wrongtype")
		c17Holds(s, k, p, "C17.zremrangebyscore.unchanged")
		vr.Reach("end")
		return
	}
	var gone []c17M
	for _, m := range p.members {
		if m.score >= lov && m.score <= hiv {
			gone = append(gone, m)
		}
	}
	vr.Assert(err == nil && isIntReply(reply, len(gone)), "C17.zremrangebyscore.reply")
	c17Holds(s, k, c17Pre{kind: p.kind, members: c17Without(p.members, gone)}, "C17.zremrangebyscore.post")
	vr.Reach("end")
}

// ---- ZREMRANGEBYRANK (indices inside the set, start <= stop after normalisation) ----

func Verif_C17_ZRemRangeByRank() {
	s := verifServer()
	k := vr.Tok("k")
	p := c17PresetNamed(s, k, "z", 3, false)
	start, stop := vr.Int("start"), vr.Int("stop")
	vr.Assume(start >= -5 && start <= 5 && stop >= -5 && stop <= 5)
	reply, err, ok := c17Exec(s, "C17.zremrangebyrank", "ZREMRANGEBYRANK", k, strconv.Itoa(start), strconv.Itoa(stop))
	if !ok {
		return
	}
	if p.kind == kOther {
		vr.Assert(err != nil, "C17.zremrangebyrank.wrongtype")
		c17Holds(s, k, p, "C17.zremrangebyrank.unchanged")
		vr.Reach("end")
		return
	}
	n := len(p.members)
	a, b := start, stop
	if a < 0 {
		a += n
	}
	if b < 0 {
		b += n
	}
	if err != nil {
		// an error reply must leave the set as it was
		c17Holds(s, k, p, "C17.zremrangebyrank.error_changes_nothing")
		vr.Reach("end")
		return
	}
	if n == 0 || a < 0 || b < 0 || a >= n || b >= n || a > b {
		// indices outside the set / an empty range: rejected, clamped or empty — not asserted
		vr.Reach("end")
		return
	}
	order := c17Sorted(p.members)
	gone := order[a : b+1]
	vr.Assert(isIntReply(reply, len(gone)), "C17.zremrangebyrank.reply")
	c17Holds(s, k, c17Pre{kind: p.kind, members: c17Without(p.members, gone)}, "C17.zremrangebyrank.post")
	vr.Reach("end")
}

// ---- ZLEXCOUNT / ZREMRANGEBYLEX / ZRANGE BYLEX on a set whose members share one score ----

func c17LexBound(name string) string {
	return []string{"a", "b", "c", "0", "d"}[vr.Choose(name, 5)]
}

func Verif_C17_Lex() {
	s := verifServer()
	k := vr.Tok("k")
	p := c17PresetNamed(s, k, "z", 3, true)
	lo, hi := c17LexBound("min"), c17LexBound("max")
	which := vr.Choose("cmd", 4)
	var in []c17M
	for _, m := range c17Sorted(p.members) {
		if m.name >= lo && m.name <= hi {
			in = append(in, m)
		}
	}
	var reply []byte
	var err error
	var ok bool
	switch which {
	case 0:
		reply, err, ok = c17Exec(s, "C17.zlexcount", "ZLEXCOUNT", k, lo, hi)
	case 1:
		reply, err, ok = c17Exec(s, "C17.zremrangebylex", "ZREMRANGEBYLEX", k, lo, hi)
	case 2:
		reply, err, ok = c17Exec(s, "C17.zrange_bylex", "ZRANGE", k, lo, hi, "BYLEX")
	case 3:
		reply, err, ok = c17Exec(s, "C17.zrange_bylex", "ZRANGE", k, lo, hi, "BYLEX", "REV")
	}
	if !ok {
		return
	}
	if p.kind == kOther {
		vr.Assert(err != nil, "C17.lex.wrongtype")
		c17Holds(s, k, p, "C17.lex.unchanged")
		vr.Reach("end")
		return
	}
	vr.Assert(err == nil, "C17.lex.noerror")
	if err != nil {
		return
	}
	post := p
	switch which {
	case 0:
		vr.Assert(isIntReply(reply, len(in)), "C17.zlexcount.reply")
	case 1:
		vr.Assert(isIntReply(reply, len(in)), "C17.zremrangebylex.reply")
		post = c17Pre{kind: p.kind, members: c17Without(p.members, in)}
	case 2, 3:
		want := in
		if which == 3 {
			want = c17Rev(in)
		}
		r, isArr := arrayReply(reply)
		items, shape := c17Items(r, false)
		vr.Assert(isArr && shape && c17Match(items, want, false, true), "C17.zrange_bylex.reply")
	}
	c17Holds(s, k, post, "C17.lex.post")
	vr.Reach("end")
}

// ---- ZRANGE / ZRANGESTORE BYSCORE [REV] [LIMIT offset count] [WITHSCORES] ----

// c17Window applies the repository's documented LIMIT: offset and count are the first and the last
// position, counted in the whole sorted set (not in the result), that the range may return; a
// negative count means "to the end".
func c17Window(order []c17M, hasLimit bool, offset, count int, lov, hiv float64) []c17M {
	var out []c17M
	for i, m := range order {
		if hasLimit && (i < offset || (count >= 0 && i > count)) {
			continue
		}
		if m.score >= lov && m.score <= hiv {
			out = append(out, m)
		}
	}
	return out
}

func c17RangeByScore(store, hasLimit bool) {
	c17Cap2 = true
	s := verifServer()
	k := vr.Tok("k")
	p := c17PresetNamed(s, k, "z", 3, false)
	var lo, hi string
	var lov, hiv float64
	if hasLimit {
		lo, lov = []string{"-2", "0"}[vr.Choose("min_kind", 2)], []float64{-2, 0}[vr.Choose("min_kind", 2)]
		hi, hiv = []string{"0", "3"}[vr.Choose("max_kind", 2)], []float64{0, 3}[vr.Choose("max_kind", 2)]
	} else {
		lo, lov = c17Bound("min")
		hi, hiv = c17Bound("max")
	}
	rev := vr.Choose("rev", 2) == 1
	withScores := !store && (hasLimit || vr.Choose("withscores", 2) == 1)
	offset, count := 0, -1
	var argv []string
	dst := ""
	if store {
		dst = vr.Tok("dst")
		vr.Assume(dst != k)
		argv = []string{"ZRANGESTORE", dst, k, lo, hi, "BYSCORE"}
	} else {
		argv = []string{"ZRANGE", k, lo, hi, "BYSCORE"}
	}
	if rev {
		argv = append(argv, "REV")
	}
	if hasLimit {
		offset, count = vr.Choose("offset", 3), vr.Choose("count", 4)-1
		argv = append(argv, "LIMIT", strconv.Itoa(offset), strconv.Itoa(count))
	}
	if withScores {
		argv = append(argv, "WITHSCORES")
	}
	ob := "C17.zrange_byscore"
	if store {
		ob = "C17.zrangestore"
	}
	reply, err, ok := c17Exec(s, ob, argv...)
	if !ok {
		return
	}
	if p.kind == kOther {
		vr.Assert(err != nil, ob+".wrongtype")
		c17Holds(s, k, p, ob+".unchanged")
		vr.Reach("end")
		return
	}
	vr.Assert(err == nil, ob+".noerror")
	if err != nil {
		return
	}
	order := c17Sorted(p.members)
	if rev {
		order = c17Rev(order)
	}
	wantA := c17Window(order, hasLimit, offset, count, lov, hiv)
	// with REV the bounds may be given as (min, max) or, as Redis does, as (max, min): both accepted
	wantB := wantA
	if rev {
		wantB = c17Window(order, hasLimit, offset, count, hiv, lov)
	}
	if !store {
		r, isArr := arrayReply(reply)
		items, shape := c17Items(r, withScores)
		vr.Assert(isArr && shape && (c17Match(items, wantA, withScores, true) || c17Match(items, wantB, withScores, true)),
			ob+".members_inside_the_bounds_in_order")
		c17Holds(s, k, p, ob+".unchanged")
		vr.Reach("end")
		return
	}
	if p.kind == kZSet {
		e, has := s.store[0][dst]
		if has {
			st, is := e.Value.(*ss.SortedSet)
			src, _ := s.store[0][k].Value.(*ss.SortedSet)
			vr.Assert(is && st != src, ob+".noalias")
		}
		isA := len(wantA) > 0 || !has
		_ = isA
		okA := c17HoldsQuiet(s, dst, wantA)
		okB := c17HoldsQuiet(s, dst, wantB)
		vr.Assert(okA || okB, ob+".destination_holds_the_range")
		vr.Assert(isIntReply(reply, len(wantA)) || isIntReply(reply, len(wantB)), ob+".reply")
	}
	c17Holds(s, k, p, ob+".source_unchanged")
	vr.Reach("end")
}

// c17HoldsQuiet: key k holds exactly these members (an empty result may be stored as an empty set or not at all).
func c17HoldsQuiet(s *SugarDB, k string, want []c17M) bool {
	e, ok := s.store[0][k]
	if !ok {
		return len(want) == 0
	}
	st, is := e.Value.(*ss.SortedSet)
	if !is {
		return false
	}
	good := st.Cardinality() == len(want)
	for _, m := range want {
		o := st.Get(ss.Value(m.name))
		good = good && o.Exists && float64(o.Score) == m.score
	}
	return good && c17EnumOK(st, want)
}

func Verif_C17_ZRangeByScore()      { c17RangeByScore(false, false) }
func Verif_C17_ZRangeByScoreLimit() { c17RangeByScore(false, true) }
func Verif_C17_ZRangeStore()        { c17RangeByScore(true, false) }
func Verif_C17_ZRangeStoreLimit()   { c17RangeByScore(true, true) }

// ---- ZUNION / ZINTER (+STORE) with WEIGHTS and AGGREGATE ----

func c17Algebra(op string, store bool) {
	gNoHistory = true // (the operands are presets of two or three keys; write histories in front of the first one only multiply the paths by four)
	s := verifServer()
	k1, k2 := vr.Tok("k1"), vr.Tok("k2")
	vr.Assume(k1 != k2)
	for _, k := range []string{k1, k2} {
		vr.Assume(!strings.EqualFold(k, "withscores") && !strings.EqualFold(k, "weights") && !strings.EqualFold(k, "aggregate"))
	}
	var p1, p2 c17Pre
	// both tiers: 0..2 members against 0..1, scores from small menus in which every order relation
	// between two scores occurs. (Measured for the thorough tier: arbitrary doubles through weights and
	// aggregates - 1.3 s of solver time per path - and 0..2 against 0..2 members with symbolic names -
	// 50 000+ paths per command - both ran past the 1500 s budget; the thorough tier adds the fourth
	// weight menu and every aggregate for the STORE forms instead.)
	p1 = c17PresetMenu(s, k1, "a", 2, [][]float64{{1.5, 4}, {0.5, 4}})
	p2 = c17PresetMenu(s, k2, "b", 1, [][]float64{{4, -3, 1.5}})
	for _, p := range []c17Pre{p1, p2} {
		for _, m := range p.members {
			vr.Assume(m.score > -1e300 && m.score < 1e300) // weighted sums of infinities are NaN: outside the claim
		}
	}
	nW := 4
	if vr.Tier() == 0 {
		nW = 3
		if store {
			nW = 2 // the STORE forms share the combination code: fewer weight menus in the quick tier
		}
	}
	wsel := vr.Choose("weights", nW) // none / 2 3 / -1 0 / 1 2
	hasWeights := wsel != 0
	w1, w2 := 1, 1
	agg := vr.Choose("aggregate", 4) // none SUM MIN MAX
	if store && vr.Tier() == 0 {
		vr.Assume(agg != 1)
	}
	withScores := !store && (hasWeights || agg != 0 || vr.Choose("withscores", 2) == 1)
	cmd := op
	var argv []string
	dst := ""
	if store {
		cmd = op + "STORE"
		dst = vr.Tok("dst")
		vr.Assume(dst != k1 && dst != k2)
		vr.Assume(!strings.EqualFold(dst, "withscores") && !strings.EqualFold(dst, "weights") && !strings.EqualFold(dst, "aggregate"))
		if op == "ZUNION" {
			// ZUNIONSTORE drops every argument equal to the destination (pinned by the repository's tests; the
			// known finding of C12/C13/C20): a destination spelled like another argument word is excluded here
			for _, w := range []string{cmd, "sum", "min", "max", "0", "1", "2", "3", "-1"} {
				vr.Assume(!strings.EqualFold(dst, w))
			}
		}
		argv = []string{cmd, dst, k1, k2}
	} else {
		argv = []string{cmd, k1, k2}
	}
	if hasWeights {
		w1, w2 = []int{1, 2, -1, 1}[wsel], []int{1, 3, 0, 2}[wsel]
		argv = append(argv, "WEIGHTS", strconv.Itoa(w1), strconv.Itoa(w2))
	}
	switch agg {
	case 1:
		argv = append(argv, "AGGREGATE", "SUM")
	case 2:
		argv = append(argv, "AGGREGATE", "MIN")
	case 3:
		argv = append(argv, "AGGREGATE", "MAX")
	}
	if withScores {
		argv = append(argv, "WITHSCORES")
	}
	ob := "C17." + strings.ToLower(cmd)
	reply, err, ok := c17Exec(s, ob, argv...)
	if !ok {
		return
	}
	vr.Assert(err == nil, ob+".noerror")
	if err != nil {
		return
	}
	combine := func(x, y float64) float64 {
		switch agg {
		case 2:
			if y < x {
				return y
			}
			return x
		case 3:
			if y > x {
				return y
			}
			return x
		}
		return x + y
	}
	var want []c17M
	for _, m := range p1.members {
		o, both := p2.find(m.name)
		switch {
		case both:
			want = append(want, c17M{m.name, combine(m.score*float64(w1), o.score*float64(w2))})
		case op == "ZUNION":
			want = append(want, c17M{m.name, m.score * float64(w1)})
		}
	}
	if op == "ZUNION" {
		for _, m := range p2.members {
			if _, both := p1.find(m.name); !both {
				want = append(want, c17M{m.name, m.score * float64(w2)})
			}
		}
	}
	if !store {
		r, isArr := arrayReply(reply)
		items, shape := c17Items(r, withScores)
		vr.Assert(isArr && shape && c17Match(items, want, withScores, false), ob+".result")
	} else {
		vr.Assert(isIntReply(reply, len(want)), ob+".reply")
		vr.Assert(c17HoldsQuiet(s, dst, want), ob+".destination_holds_the_result")
		if e, has := s.store[0][dst]; has {
			for _, k := range []string{k1, k2} {
				if src, ok2 := s.store[0][k]; ok2 {
					vr.Assert(e.Value != src.Value, ob+".noalias")
				}
			}
		}
	}
	c17Holds(s, k1, p1, ob+".operand1_unchanged")
	c17Holds(s, k2, p2, ob+".operand2_unchanged")
	vr.Reach("end")
}

func Verif_C17_ZUnion()      { c17Algebra("ZUNION", false) }
func Verif_C17_ZInter()      { c17Algebra("ZINTER", false) }
func Verif_C17_ZUnionStore() { c17Algebra("ZUNION", true) }
func Verif_C17_ZInterStore() { c17Algebra("ZINTER", true) }

// ---- STORE forms over an existing destination (replaced, also by an empty result) ----

func Verif_C17_StoreReplacesDestination() {
	s := verifServer()
	k1, dst := vr.Tok("k1"), vr.Tok("dst")
	vr.Assume(k1 != dst)
	for _, k := range []string{k1, dst} {
		vr.Assume(!strings.EqualFold(k, "withscores") && !strings.EqualFold(k, "weights") && !strings.EqualFold(k, "aggregate"))
		vr.Assume(!strings.EqualFold(k, "zunionstore") && !strings.EqualFold(k, "zinterstore") && !strings.EqualFold(k, "zdiffstore"))
	}
	p1 := c17Preset(s, k1, "a", 2)
	pd := c17Preset(s, dst, "d", 2)
	vr.Assume(pd.kind == kZSet && len(pd.members) > 0)
	cmd := []string{"ZUNIONSTORE", "ZINTERSTORE", "ZDIFFSTORE"}[vr.Choose("cmd", 3)]
	ob := "C17." + strings.ToLower(cmd) + "_over_existing"
	reply, err, ok := c17Exec(s, ob, cmd, dst, k1)
	if !ok {
		return
	}
	vr.Assert(err == nil, ob+".noerror")
	if err != nil {
		return
	}
	vr.Assert(isIntReply(reply, len(p1.members)), ob+".reply")
	vr.Assert(c17HoldsQuiet(s, dst, p1.members), ob+".destination_replaced")
	c17Holds(s, k1, p1, ob+".source_unchanged")
	vr.Reach("end")
}

// ---- ZRANDMEMBER: a selection of current members ----

func Verif_C17_ZRandMember() {
	s := verifServer()
	k := vr.Tok("k")
	p := c17Preset(s, k, "z", 3)
	count := vr.Int("count")
	vr.Assume(count >= -3 && count <= 4 && count != 0)
	reply, err, ok := c17Exec(s, "C17.zrandmember", "ZRANDMEMBER", k, strconv.Itoa(count))
	if !ok {
		return
	}
	if p.kind == kOther {
		vr.Assert(err != nil, "C17.zrandmember.wrongtype")
		c17Holds(s, k, p, "C17.zrandmember.unchanged")
		vr.Reach("end")
		return
	}
	vr.Assert(err == nil, "C17.zrandmember.noerror")
	if err != nil {
		return
	}
	r := vr.Decode(reply)
	if len(p.members) == 0 {
		vr.Assert(r.OK && (r.Null || (r.Kind == '*' && len(r.Elems) == 0)), "C17.zrandmember.empty")
	} else {
		items, shape := c17Items(r, false)
		vr.Assert(r.OK && r.Kind == '*' && shape, "C17.zrandmember.shape")
		if shape {
			all := true
			distinct := true
			for i, it := range items {
				_, in := p.find(it.name)
				all = all && in
				for j := 0; j < i; j++ {
					if items[j].name == it.name {
						distinct = false
					}
				}
			}
			vr.Assert(all, "C17.zrandmember.only_current_members")
			if count > 0 {
				want := count
				if want > len(p.members) {
					want = len(p.members)
				}
				vr.Assert(len(items) == want && distinct, "C17.zrandmember.positive_count_distinct")
			}
		}
	}
	c17Holds(s, k, p, "C17.zrandmember.unchanged")
	vr.Reach("end")
}

// Verif_C17_ZRangeLimitWindow: the LIMIT window alone, on up to three members with arbitrary scores and
// no bound filter (-inf +inf): offset 0..3, count -1..3 (a negative count: up to the end), forward and
// REV, ZRANGE and ZRANGESTORE.
func Verif_C17_ZRangeLimitWindow() {
	c17Three = true
	s := verifServer()
	k := vr.Tok("k")
	p := c17PresetNamed(s, k, "z", 2, false)
	vr.Assume(p.kind == kZSet)
	rev := vr.Choose("rev", 2) == 1
	store := vr.Choose("store", 2) == 1
	offset, count := vr.Choose("offset", 4), vr.Choose("count", 5)-1
	var argv []string
	dst := "dst"
	if store {
		vr.Assume(k != dst)
		argv = []string{"ZRANGESTORE", dst, k, "-inf", "+inf", "BYSCORE"}
	} else {
		argv = []string{"ZRANGE", k, "-inf", "+inf", "BYSCORE", "WITHSCORES"}
	}
	if rev {
		argv = append(argv, "REV")
	}
	argv = append(argv, "LIMIT", strconv.Itoa(offset), strconv.Itoa(count))
	reply, err, ok := c17Exec(s, "C17.zrange_limit", argv...)
	if !ok {
		return
	}
	vr.Assert(err == nil, "C17.zrange_limit.noerror")
	if err != nil {
		return
	}
	order := c17Sorted(p.members)
	if rev {
		order = c17Rev(order)
	}
	want := c17Window(order, true, offset, count, math.Inf(-1), math.Inf(1))
	if store {
		vr.Assert(isIntReply(reply, len(want)) && c17HoldsQuiet(s, dst, want), "C17.zrange_limit.destination_holds_the_window")
	} else {
		r, isArr := arrayReply(reply)
		items, shape := c17Items(r, true)
		vr.Assert(isArr && shape && c17Match(items, want, true, true), "C17.zrange_limit.window_in_order")
	}
	c17Holds(s, k, p, "C17.zrange_limit.source_unchanged")
	vr.Reach("end")
}

// ---- a score update that is refused changes nothing ----
//
// ZINCRBY / ZADD [XX] INCR / ZADD GT|LT on an arbitrary stored set (scores any non-NaN double,
// infinities included) with an increment or score from a menu that includes both infinities and
// non-numbers: when the reply is an error the stored set is exactly what it was (no NaN left behind by
// inf + -inf, no half-applied update). What the command does when it succeeds is checked elsewhere.
func verifFailedScoreUpdate(tag string) {
	s := verifServer()
	k := vr.Tok("k")
	p := c17Preset(s, k, "z", 3)
	m := vr.Tok("m")
	arg := []string{"+inf", "-inf", "inf", "2", "-1.5", "abc", "nan", ""}[vr.Choose("arg", 8)]
	var argv []string
	switch vr.Choose("cmd", 4) {
	case 0:
		argv = []string{"ZINCRBY", k, arg, m}
	case 1:
		argv = []string{"ZADD", k, "INCR", arg, m}
	case 2:
		argv = []string{"ZADD", k, "XX", "INCR", arg, m}
	default:
		argv = []string{"ZADD", k, []string{"GT", "LT"}[vr.Choose("cmp", 2)], arg, m}
	}
	ob := tag + ".failed_score_update"
	_, err, ok := c17Exec(s, ob, argv...)
	if !ok {
		return
	}
	if err != nil {
		c17Holds(s, k, p, ob+".error_reply_means_nothing_changed")
	} else if p.kind == kZSet {
		// whatever was applied, no stored score is NaN afterwards
		if e, has := s.store[0][k]; has {
			if z, isZ := e.Value.(*ss.SortedSet); isZ {
				for _, x := range z.GetAll() {
					vr.Assert(float64(x.Score) == float64(x.Score), ob+".no_nan_score")
				}
			}
		}
	}
	vr.Reach("end")
}

func Verif_C17_FailedScoreUpdateChangesNothing() { verifFailedScoreUpdate("C17") }
func Verif_C13_FailedScoreUpdateChangesNothing() { verifFailedScoreUpdate("C13") }
