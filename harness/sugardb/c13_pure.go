package sugardb

// C13 — read-only commands are pure, failing commands change nothing, STORE forms do not share
// structure with their sources. The command list is taken from the real command table.

import (
	"slices"
	"strconv"
	"strings"

	"github.com/echovault/sugardb/internal"
	"github.com/echovault/sugardb/internal/constants"
	"github.com/echovault/sugardb/internal/modules/set"
	ss "github.com/echovault/sugardb/internal/modules/sorted_set"
	vr "github.com/echovault/sugardb/internal/verifrt"
)

// gCmdPart / gCmdParts: a harness that covers a module in several parts (to keep each part well
// inside its wall-clock budget) takes the commands whose table position is gCmdPart modulo gCmdParts.
var gCmdPart, gCmdParts int

func c13Commands(s *SugarDB, module string) []internal.Command {
	all := c13AllCommands(s, module)
	if gCmdParts <= 1 {
		return all
	}
	var out []internal.Command
	for i, c := range all {
		if i%gCmdParts == gCmdPart {
			out = append(out, c)
		}
	}
	return out
}

func c13AllCommands(s *SugarDB, module string) []internal.Command {
	var out []internal.Command
	for _, c := range s.commands {
		// the lexicographic commands inspect members byte by byte: they are exercised with byte
		// members in the C17 harnesses, not with opaque tokens here
		if c.Command == "zlexcount" || c.Command == "zremrangebylex" {
			continue
		}
		if c.Module == module && len(c.SubCommands) == 0 {
			out = append(out, c)
		}
	}
	return out
}

func isReadOnly(c internal.Command) bool {
	return slices.Contains(c.Categories, constants.ReadCategory) && !slices.Contains(c.Categories, constants.WriteCategory)
}

// c13Module: every command of a data module, generic argument shapes, arbitrary typed pre-state of
// two keys. A read-only command, and any command that returns an error, must leave both keys
// (value, type, order, membership, scores) and the number of keys exactly as they were.
func c13Module(module string, preferKind int) {
	gConcreteScores = true
	gNoHistory = true // (purity does not depend on how the pre-state came about; the variants would only multiply the paths)
	if module == constants.StringModule {
		gByteStrings = 2
	}
	s := verifServer()
	cmds := c13Commands(s, module)
	c := cmds[vr.Choose("cmd", len(cmds))]
	k1, k2 := vr.Tok("k1"), vr.Tok("k2")
	vr.Assume(k1 != k2)
	// pre-state kinds: the module's own type, or any other (quick: a string stands for "other")
	kindOf := func(name string, n int) int {
		switch vr.Choose(name, n) {
		case 0:
			return gAbsent
		case 1:
			return preferKind
		}
		if vr.Tier() > 0 {
			return 1 + vr.Choose(name+"_other", gKinds-1)
		}
		if preferKind == gStr {
			return gList
		}
		return gStr
	}
	maxE, p2kinds := 1, 2
	if vr.Tier() > 0 {
		// (the second key holds nothing or the module's own type; every other type is tried on the first)
		// two elements per collection where that finishes inside the thorough budget (the sorted-set
		// module with two members per set ran 25 min without covering the bound; printing a
		// two-field hash with symbolic field names needs an ordering the engine does not model)
		if module != constants.SortedSetModule && module != constants.GenericModule {
			maxE = 2
		}
	}
	p1 := gSym("p1", kindOf("p1kind", 3), maxE)
	p2 := gSym("p2", kindOf("p2kind", p2kinds), maxE)
	gStoreIn(s, 0, k1, p1)
	gStoreIn(s, 0, k2, p2)
	nkeys := len(s.store[0])
	x, y := vr.Tok("x"), vr.Tok("y")
	if gByteStrings > 0 {
		x, y = gBytes("xb", 2), gBytes("yb", 1)
	}
	i1, i2 := vr.Int("i1"), vr.Int("i2")
	vr.Assume(i1 >= -2 && i1 <= 2 && i2 >= -2 && i2 <= 2)
	var argv []string
	switch vr.Choose("shape", 7) {
	case 0:
		argv = []string{c.Command, k1}
	case 1:
		argv = []string{c.Command, k1, k2}
	case 2:
		argv = []string{c.Command, k1, x}
	case 3:
		argv = []string{c.Command, k1, strconv.Itoa(i1), strconv.Itoa(i2)}
	case 4:
		argv = []string{c.Command, k1, x, y}
	case 5:
		argv = []string{c.Command, k1, strconv.Itoa(i1)}
	case 6:
		argv = []string{c.Command, k1, strconv.Itoa(i1), x}
	}
	_, err, panicked := verifRun(s, argv...)
	vr.Assert(!panicked, "C13."+module+".nopanic")
	if panicked {
		return
	}
	if isReadOnly(c) {
		vr.Assert(gHolds(s, k1, p1) && gHolds(s, k2, p2) && len(s.store[0]) == nkeys, "C13."+module+".readonly_is_pure")
	} else if err != nil {
		vr.Assert(gHolds(s, k1, p1) && gHolds(s, k2, p2) && len(s.store[0]) == nkeys, "C13."+module+".failed_command_changes_nothing")
	}
	vr.Reach("end")
}

func Verif_C13_Generic()     { c13Module(constants.GenericModule, gStr) }
func Verif_C13_String()      { c13Module(constants.StringModule, gStr) }
func Verif_C13_Hash()        { c13Module(constants.HashModule, gHash) }
func Verif_C13_List()        { c13Module(constants.ListModule, gList) }
func Verif_C13_Set()         { c13Module(constants.SetModule, gSet) }
func Verif_C13_SortedSet_A() { gCmdPart, gCmdParts = 0, 2; c13Module(constants.SortedSetModule, gZSet) }
func Verif_C13_SortedSet_B() { gCmdPart, gCmdParts = 1, 2; c13Module(constants.SortedSetModule, gZSet) }

// Verif_C13_StoreNoAlias: a STORE command never makes the destination share its container with a
// source; shown by identity and by a follow-up write to the destination.
func Verif_C13_StoreNoAlias() {
	gConcreteScores = true
	s := verifServer()
	k1, k2, dst := vr.Tok("k1"), vr.Tok("k2"), vr.Tok("dst")
	vr.Assume(k1 != k2 && dst != k1 && dst != k2)
	which := vr.Choose("cmd", 7)
	names := []string{"SDIFFSTORE", "SINTERSTORE", "SUNIONSTORE", "ZDIFFSTORE", "ZINTERSTORE", "ZUNIONSTORE", "ZRANGESTORE"}
	isSet := which < 3
	kind := gZSet
	if isSet {
		kind = gSet
	}
	p1 := gSym("p1", kind, 2)
	gStoreIn(s, 0, k1, p1)
	p2 := gVal{kind: gAbsent}
	switch vr.Choose("p2present", 3) {
	case 1:
		p2 = gSym("p2", kind, 2)
		gStoreIn(s, 0, k2, p2)
	case 2:
		// the second operand exists but is empty (what removing the last member leaves behind)
		p2 = gVal{kind: kind}
		gStoreIn(s, 0, k2, p2)
	}
	var err error
	var panicked bool
	if which == 6 {
		_, err, panicked = verifRun(s, names[which], dst, k1, "0", "-1")
	} else {
		_, err, panicked = verifRun(s, names[which], dst, k1, k2)
	}
	vr.Assert(!panicked, "C13.store.nopanic")
	if panicked || err != nil {
		vr.Reach("end")
		return
	}
	vr.Assert(gHolds(s, k1, p1) && gHolds(s, k2, p2), "C13.store.sources_unchanged")
	d, ok := s.store[0][dst]
	if ok {
		vr.Assert(d.Value != s.store[0][k1].Value, "C13.store.noalias_first_source")
		if p2.kind != gAbsent {
			vr.Assert(d.Value != s.store[0][k2].Value, "C13.store.noalias_second_source")
		}
		// follow-up write to the destination must not show through the sources
		w := vr.Tok("w")
		if isSet {
			if _, is := d.Value.(*set.Set); is {
				verifRun(s, "SADD", dst, w)
			}
		} else {
			if _, is := d.Value.(*ss.SortedSet); is {
				verifRun(s, "ZADD", dst, "7", w)
			}
		}
		vr.Assert(gHolds(s, k1, p1) && gHolds(s, k2, p2), "C13.store.write_to_destination_leaves_sources")
	}
	vr.Reach("end")
}

// Verif_C13_ReadOnlyKeepsDeadlines: a read-only generic/string command on a live key with a
// deadline (arbitrary clock, arbitrary deadline not yet passed) leaves value and deadline alone.
func Verif_C13_ReadOnlyKeepsDeadlines() {
	s, _, nowMs := c04Server()
	var cmds []internal.Command
	for _, c := range s.commands {
		if (c.Module == constants.GenericModule || c.Module == constants.StringModule) && len(c.SubCommands) == 0 && isReadOnly(c) {
			cmds = append(cmds, c)
		}
	}
	c := cmds[vr.Choose("cmd", len(cmds))]
	k := vr.Tok("k")
	v := gBytes("v", 2)
	verifPreset(s, 0, k, v)
	dl, dlMs := symInstant("dl")
	vr.Assume(dlMs >= nowMs)
	verifPresetExpiry(s, 0, k, dl)
	var argv []string
	switch vr.Choose("shape", 3) {
	case 0:
		argv = []string{c.Command, k}
	case 1:
		argv = []string{c.Command, k, "0", "1"}
	case 2:
		argv = []string{c.Command, k, vr.Tok("x")}
	}
	_, _, panicked := verifRun(s, argv...)
	vr.Assert(!panicked, "C13.volatile.nopanic")
	if panicked {
		return
	}
	d, has, exists := c04Deadline(s, k)
	vr.Assert(exists && has && d == dlMs && gHolds(s, k, gVal{kind: gStr, str: v}), "C13.volatile.readonly_keeps_value_and_deadline")
	vr.Reach("end")
}

// verifLMoveNoAlias: after LMOVE the two lists are independent values: a later append to either
// list leaves the other exactly as the move left it (lists built by separate pushes, so their
// backing arrays have spare capacity - the situation in which a missing copy shows).
func verifLMoveNoAlias(tag string) {
	s := verifServer()
	src, dst := "src", "dst"
	n := 1 + vr.Choose("src_len", 4)
	var ref []string
	for i := 0; i < n; i++ {
		e := "s" + itoa(i)
		c05Run(s, "RPUSH", src, e)
		ref = append(ref, e)
	}
	var dref []string
	m := vr.Choose("dst_len", 3)
	for i := 0; i < m; i++ {
		e := "d" + itoa(i)
		c05Run(s, "RPUSH", dst, e)
		dref = append(dref, e)
	}
	from := []string{"LEFT", "RIGHT"}[vr.Choose("wherefrom", 2)]
	to := []string{"LEFT", "RIGHT"}[vr.Choose("whereto", 2)]
	if m == 0 {
		// LMOVE needs an existing destination list in this implementation
		c05Run(s, "RPUSH", dst, "d0")
		dref = append(dref, "d0")
	}
	r := c05Run(s, "LMOVE", src, dst, from, to)
	var moved string
	if from == "LEFT" {
		moved, ref = ref[0], append([]string{}, ref[1:]...)
	} else {
		moved, ref = ref[len(ref)-1], append([]string{}, ref[:len(ref)-1]...)
	}
	if to == "LEFT" {
		dref = append([]string{moved}, dref...)
	} else {
		dref = append(append([]string{}, dref...), moved)
	}
	_ = r
	// later writes to one list
	switch vr.Choose("later", 3) {
	case 0:
		c05Run(s, "RPUSH", src, "z")
		ref = append(ref, "z")
	case 1:
		c05Run(s, "RPUSH", dst, "z")
		dref = append(dref, "z")
	case 2:
		c05Run(s, "RPUSH", src, "z1")
		c05Run(s, "RPUSH", src, "z2")
		ref = append(ref, "z1", "z2")
	}
	got := func(k string) string {
		l, _ := s.store[0][k].Value.([]string)
		return strings.Join(l, ",")
	}
	vr.Assert(got(dst) == strings.Join(dref, ","), tag+".lmove.destination_is_an_independent_value")
	if len(ref) > 0 {
		vr.Assert(got(src) == strings.Join(ref, ","), tag+".lmove.source_is_an_independent_value")
	}
	vr.Reach("end")
}

func Verif_C13_LMoveNoAlias() { verifLMoveNoAlias("C13") }
func Verif_C15_LMoveNoAlias() { verifLMoveNoAlias("C15") }

// Verif_C13_FailedNumericUpdateChangesNothing: the counter commands with an arbitrary 64-bit operand
// (also the extreme values) on a hash with a present or an absent field, or on a string / integer key:
// whenever the command replies with an error - overflow, not a number, wrong type - the key is
// exactly as before: no field was created on the way, no value half-updated.
func Verif_C13_FailedNumericUpdateChangesNothing() {
	s := verifServer()
	k := vr.Tok("k")
	delta := vr.Int("delta")
	which := vr.Choose("cmd", 5)
	if which < 2 {
		p := c14Preset(s, k, "h", 2)
		f := vr.Tok("f")
		var err error
		var panicked bool
		if which == 0 {
			_, err, panicked = verifRun(s, "HINCRBY", k, f, strconv.Itoa(delta))
		} else {
			_, err, panicked = verifRun(s, "HINCRBYFLOAT", k, f, strconv.Itoa(delta))
		}
		vr.Assert(!panicked, "C13.failed_numeric.nopanic")
		if !panicked && err != nil {
			c14Holds(s, k, p, "C13.failed_numeric.error_reply_means_nothing_changed")
		}
		vr.Reach("end")
		return
	}
	pre := gVal{kind: gAbsent}
	switch vr.Choose("pre", 3) {
	case 1:
		pre = gSym("p", gInt, 1)
	case 2:
		pre = gSym("p", gStr, 1)
	}
	gStoreIn(s, 0, k, pre)
	var err error
	var panicked bool
	switch which {
	case 2:
		_, err, panicked = verifRun(s, "INCRBY", k, strconv.Itoa(delta))
	case 3:
		_, err, panicked = verifRun(s, "DECRBY", k, strconv.Itoa(delta))
	case 4:
		_, err, panicked = verifRun(s, "INCRBYFLOAT", k, strconv.Itoa(delta))
	}
	vr.Assert(!panicked, "C13.failed_numeric.nopanic")
	if !panicked && err != nil {
		vr.Assert(gHolds(s, k, pre), "C13.failed_numeric.error_reply_means_nothing_changed")
	}
	vr.Reach("end")
}

// Verif_C13_ReadersOfLargerCollections: the read-only commands that pick, slice or enumerate - the ones
// that work on a private copy of the members and are tempted to reuse or shuffle it - on collections
// of exactly three elements (the whole-module harnesses hold one or two): afterwards the stored value
// is what it was, as seen by lookups *and* by enumeration, and a second enumerating command returns
// every element.
func Verif_C13_ReadersOfLargerCollections() {
	gConcreteScores = true
	gNoHistory = true
	s := verifServer()
	k := vr.Tok("k")
	var pre gVal
	var argv []string
	n := strconv.Itoa([]int{1, 2, -2, 3, 5, 0}[vr.Choose("count", 6)])
	switch vr.Choose("family", 4) {
	case 0:
		pre = gSym("z", gZSet, 1)
		for len(pre.elems) < 3 {
			e := vr.Tok("z_x" + strconv.Itoa(len(pre.elems)))
			for _, o := range pre.elems {
				vr.Assume(o != e)
			}
			pre.elems = append(pre.elems, e)
			pre.scores = append(pre.scores, float64(len(pre.elems)))
		}
		argv = [][]string{{"ZRANDMEMBER", k, n}, {"ZRANDMEMBER", k, n, "WITHSCORES"}, {"ZRANGE", k, "-inf", "+inf", "BYSCORE", "LIMIT", "1", n},
			{"ZRANGE", k, "+inf", "-inf", "BYSCORE", "REV"}, {"ZRANK", k, pre.elems[1]}, {"ZREVRANK", k, pre.elems[0], "WITHSCORE"}, {"ZCOUNT", k, "2", "3"},
			{"ZLEXCOUNT", k, "-", "+"}, {"ZMSCORE", k, pre.elems[2], pre.elems[0]}, {"ZUNION", k, k, "WITHSCORES"}, {"ZINTER", k}, {"ZDIFF", k, "nokey"}}[vr.Choose("reader", 12)]
	case 1:
		pre = gVal{kind: gSet}
		for len(pre.elems) < 3 {
			e := vr.Tok("s_x" + strconv.Itoa(len(pre.elems)))
			for _, o := range pre.elems {
				vr.Assume(o != e)
			}
			pre.elems = append(pre.elems, e)
		}
		argv = [][]string{{"SRANDMEMBER", k, n}, {"SRANDMEMBER", k}, {"SMEMBERS", k}, {"SMISMEMBER", k, pre.elems[1], "zz"}, {"SINTERCARD", k, k, "LIMIT", "2"},
			{"SUNION", k, k}, {"SDIFF", k, "nokey"}, {"SINTER", k}}[vr.Choose("reader", 8)]
	case 2:
		pre = gVal{kind: gHash, elems: []string{"f1", "f2", "f3"}, vals: []string{vr.Tok("h_v0"), vr.Tok("h_v1"), vr.Tok("h_v2")}}
		argv = [][]string{{"HRANDFIELD", k, n}, {"HRANDFIELD", k, n, "WITHVALUES"}, {"HRANDFIELD", k}, {"HKEYS", k}, {"HVALS", k}, {"HGETALL", k}, {"HMGET", k, "f2", "zz"}}[vr.Choose("reader", 7)]
	case 3:
		pre = gVal{kind: gList, elems: []string{vr.Tok("l_0"), vr.Tok("l_1"), vr.Tok("l_2")}}
		argv = [][]string{{"LRANGE", k, "0", "-1"}, {"LRANGE", k, "1", n}, {"LINDEX", k, n}, {"LLEN", k}}[vr.Choose("reader", 4)]
	}
	gStoreIn(s, 0, k, pre)
	_, _, panicked := verifRun(s, argv...)
	vr.Assert(!panicked, "C13.larger.nopanic")
	if panicked {
		return
	}
	vr.Assert(gHolds(s, k, pre) && len(s.store[0]) == 1, "C13.larger.readonly_is_pure")
	// a second reader after the first sees everything
	switch pre.kind {
	case gZSet:
		reply, err, p2 := verifRun(s, "ZRANGE", k, "-inf", "+inf", "BYSCORE")
		r := vr.Decode(reply)
		vr.Assert(!p2 && err == nil && r.OK && len(r.Elems) == 3, "C13.larger.later_reader_sees_every_member")
	case gSet:
		reply, err, p2 := verifRun(s, "SCARD", k)
		vr.Assert(!p2 && err == nil && isIntReply(reply, 3), "C13.larger.later_reader_sees_every_member")
	}
	vr.Reach("end")
}
