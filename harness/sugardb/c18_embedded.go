package sugardb

// C18 through the embedded API (Subscribe / PSubscribe / Unsubscribe / PUnsubscribe / Publish /
// PubSubNumPat / PubSubNumSub on a tag): the tag's in-memory connection (net.Pipe), the per-tag
// connection table and the real pub/sub module behind handleCommand.

import (

	"github.com/gobwas/glob"

	vr "github.com/echovault/sugardb/internal/verifrt"
)

func c18Valid(p string) string {
	_, err := glob.Compile(p)
	vr.Assume(err == nil)
	return p
}

// Verif_C18_EmbeddedSubscriptions: one tag subscribes to a channel by name and to a pattern, then two
// unsubscribe calls of any of the four forms (all plain channels / one channel / all patterns / one
// pattern) in any order: the confirmations carry the names, PUBSUB NUMPAT and NUMSUB always reflect
// what is still subscribed, and a publish reaches the tag iff it is still subscribed.
func Verif_C18_EmbeddedSubscriptions() {
	s := verifServer()
	tag := "tag1"
	ch, pat := vr.Tok("ch"), c18Valid(vr.Tok("pat"))
	vr.Assume(ch != pat)
	vr.Assume(vr.Clean(ch) && vr.Clean(pat))
	// (the repository's PUNSUBSCRIBE p also drops plain subscriptions whose name matches p - its documented
	// choice; the pattern here does not match the channel, so the two subscriptions are independent)
	g, _ := glob.Compile(pat)
	vr.Assume(!g.Match(ch))
	read, err := s.Subscribe(tag, ch)
	vr.Assert(err == nil, "C18.embedded.subscribe_succeeds")
	m := read()
	vr.Assert(len(m) == 3 && m[0] == "subscribe" && m[1] == ch, "C18.embedded.subscribe_confirmed_with_the_channel_name")
	readP, err := s.PSubscribe(tag, pat)
	vr.Assert(err == nil, "C18.embedded.psubscribe_succeeds")
	m = readP()
	vr.Assert(len(m) == 3 && m[0] == "psubscribe" && m[1] == pat, "C18.embedded.psubscribe_confirmed_with_the_pattern")
	byName, byPat := true, true
	for step := 0; step < 2; step++ {
		switch vr.Choose("unsub"+itoa(step), 5) {
		case 0:
			s.Unsubscribe(tag)
			byName = false
		case 1:
			s.Unsubscribe(tag, ch)
			byName = false
		case 2:
			s.PUnsubscribe(tag)
			byPat = false
		case 3:
			s.PUnsubscribe(tag, pat)
			byPat = false
		case 4:
			// nothing
		}
	}
	np, err := s.PubSubNumPat()
	wantPat := 0
	if byPat {
		wantPat = 1
	}
	vr.Assert(err == nil && np == wantPat, "C18.embedded.numpat_reflects_the_pattern_subscriptions")
	ns, err := s.PubSubNumSub(ch)
	wantSub := 0
	if byName {
		wantSub = 1
	}
	vr.Assert(err == nil && ns[ch] == wantSub, "C18.embedded.numsub_reflects_the_subscriptions_by_name")
	// a publish to the channel reaches the tag iff it is still subscribed by name
	if byName && !byPat {
		msg := vr.Tok("msg")
		vr.Assume(vr.Clean(msg))
		ok, perr := s.Publish(ch, msg)
		vr.Assert(perr == nil && ok, "C18.embedded.publish_succeeds")
		got := read()
		vr.Assert(len(got) == 3 && got[0] == "message" && got[1] == ch && got[2] == msg, "C18.embedded.message_delivered_to_the_tag")
	}
	vr.Reach("end")
}
