package sugardb

// C17 — ZUNION / ZINTER (+STORE) over one and over three operands. The combination code splits its
// operand list in halves, so an operand can end up alone in a half: its weight still applies, and the
// aggregate is taken over all operands that hold the member.

import (
	"strconv"
	"strings"

	vr "github.com/echovault/sugardb/internal/verifrt"
)

func c17OddOperands(op string, store bool) {
	gNoHistory = true // (the operands are presets of two or three keys; write histories in front of the first one only multiply the paths by four)
	s := verifServer()
	n := []int{1, 3}[vr.Choose("operands", 2)]
	keys := []string{vr.Tok("k1"), vr.Tok("k2"), vr.Tok("k3")}[:n]
	for i, k := range keys {
		vr.Assume(!strings.EqualFold(k, "withscores") && !strings.EqualFold(k, "weights") && !strings.EqualFold(k, "aggregate"))
		for _, o := range keys[:i] {
			vr.Assume(k != o)
		}
	}
	// at most one member per operand, one score each except the first operand's (two members in the
	// first operand with symbolic names ran past the thorough budget: 70 000+ paths per command); the
	// thorough tier adds the third weight menu
	menus := [][][]float64{{{1.5, 4}}, {{-3}}, {{2}}}
	max := []int{1, 1, 1}
	var pres []c17Pre
	for i, k := range keys {
		pres = append(pres, c17PresetMenu(s, k, []string{"a", "b", "c"}[i], max[i], menus[i]))
	}
	nW := 3
	if vr.Tier() == 0 {
		nW = 2
	}
	wsel := vr.Choose("weights", nW) // none / 2 3 -1 / 3 1 2
	ws := [][]int{{1, 1, 1}, {2, 3, -1}, {3, 1, 2}}[wsel][:n]
	agg := vr.Choose("aggregate", 4) // none SUM MIN MAX
	cmd := op
	var argv []string
	dst := ""
	if store {
		cmd = op + "STORE"
		dst = vr.Tok("dst")
		for _, k := range keys {
			vr.Assume(dst != k)
		}
		for _, w := range []string{cmd, "withscores", "weights", "aggregate", "sum", "min", "max", "0", "1", "2", "3", "-1"} {
			vr.Assume(!strings.EqualFold(dst, w))
		}
		argv = append([]string{cmd, dst}, keys...)
	} else {
		argv = append([]string{cmd}, keys...)
	}
	if wsel != 0 {
		argv = append(argv, "WEIGHTS")
		for _, w := range ws {
			argv = append(argv, strconv.Itoa(w))
		}
	}
	switch agg {
	case 1:
		argv = append(argv, "AGGREGATE", "SUM")
	case 2:
		argv = append(argv, "AGGREGATE", "MIN")
	case 3:
		argv = append(argv, "AGGREGATE", "MAX")
	}
	if !store {
		argv = append(argv, "WITHSCORES")
	}
	ob := "C17." + strings.ToLower(cmd) + "_odd"
	reply, err, ok := c17Exec(s, ob, argv...)
	if !ok {
		return
	}
	vr.Assert(err == nil, ob+".noerror")
	if err != nil {
		return
	}
	var want []c17M
	seen := func(name string) bool {
		for _, w := range want {
			if w.name == name {
				return true
			}
		}
		return false
	}
	for _, p := range pres {
		for _, m := range p.members {
			if seen(m.name) {
				continue
			}
			holders, acc := 0, 0.0
			for j, q := range pres {
				o, has := q.find(m.name)
				if !has {
					continue
				}
				v := o.score * float64(ws[j])
				switch {
				case holders == 0:
					acc = v
				case agg == 2:
					if v < acc {
						acc = v
					}
				case agg == 3:
					if v > acc {
						acc = v
					}
				default:
					acc += v
				}
				holders++
			}
			if op == "ZUNION" || holders == n {
				want = append(want, c17M{m.name, acc})
			}
		}
	}
	if !store {
		r, isArr := arrayReply(reply)
		items, shape := c17Items(r, true)
		vr.Assert(isArr && shape && c17Match(items, want, true, false), ob+".result")
	} else {
		vr.Assert(isIntReply(reply, len(want)), ob+".reply")
		vr.Assert(c17HoldsQuiet(s, dst, want), ob+".destination_holds_the_result")
	}
	for i, k := range keys {
		c17Holds(s, k, pres[i], ob+".operand_unchanged")
	}
	vr.Reach("end")
}

func Verif_C17_ZUnionOddOperands()      { c17OddOperands("ZUNION", false) }
func Verif_C17_ZInterOddOperands()      { c17OddOperands("ZINTER", false) }
func Verif_C17_ZUnionStoreOddOperands() { c17OddOperands("ZUNION", true) }
func Verif_C17_ZInterStoreOddOperands() { c17OddOperands("ZINTER", true) }
