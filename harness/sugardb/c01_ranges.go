package sugardb

// C01 — substrings and overwrites of string values, byte by byte: GETRANGE / SUBSTR return exactly
// the bytes last written at the requested positions, SETRANGE changes exactly the addressed
// bytes, for every index (also negative and out of range) and every short value.

import (
	vr "github.com/echovault/sugardb/internal/verifrt"
)

func c01GetRange(cmd string, n int) {
	if n > 3 && vr.Tier() == 0 {
		// the longer values belong to the thorough tier
		vr.Reach("end")
		return
	}
	s := verifServer()
	k := vr.Tok("k")
	v := gBytes("v", n)
	verifPreset(s, 0, k, v)
	start, end := vr.Int("start"), vr.Int("end")
	lim := 6
	if vr.Tier() == 1 {
		lim = 12
	}
	vr.Assume(start >= -lim && start <= lim && end >= -lim && end <= lim)
	reply, err, panicked := verifRun(s, cmd, k, itoa(start), itoa(end))
	vr.Assert(!panicked, "C01.getrange.nopanic")
	if panicked {
		vr.Reach("end")
		return
	}
	// indices that address existing bytes from either end; an end beyond the last byte is clamped
	a, b := start, end
	if a < 0 {
		a += n
	}
	if b < 0 {
		b += n
	}
	if a >= 0 && b >= 0 && a <= b && a < n {
		if b >= n {
			b = n - 1
		}
		vr.Assert(err == nil && string(reply) == encBulk(v[a:b+1]), "C01.getrange.returns_the_addressed_bytes")
	}
	// the stored value is untouched by a read
	e, ok := s.store[0][k]
	sv, isS := e.Value.(string)
	vr.Assert(ok && isS && sv == v, "C01.getrange.value_untouched")
	vr.Reach("end")
}

func Verif_C01_GetRange1() { c01GetRange("GETRANGE", 1) }
func Verif_C01_GetRange3() { c01GetRange("GETRANGE", 3) }
func Verif_C01_SubStr2()   { c01GetRange("SUBSTR", 2) }
func Verif_C01_GetRange5() { c01GetRange("GETRANGE", 5) }
func Verif_C01_SubStr4()   { c01GetRange("SUBSTR", 4) }

func c01SetRange(n, m int) {
	s := verifServer()
	k := vr.Tok("k")
	v := gBytes("v", n)
	x := gBytes("x", m)
	verifPreset(s, 0, k, v)
	off := vr.Int("offset")
	vr.Assume(off >= 0 && off <= n)
	reply, err, panicked := verifRun(s, "SETRANGE", k, itoa(off), x)
	vr.Assert(!panicked, "C01.setrange.nopanic")
	if panicked || err != nil {
		vr.Reach("end")
		return
	}
	want := v[:off] + x
	if off+m < n {
		want += v[off+m:]
	}
	e, ok := s.store[0][k]
	sv, isS := e.Value.(string)
	vr.Assert(ok && isS && sv == want, "C01.setrange.changes_exactly_the_addressed_bytes")
	vr.Assert(string(reply) == ":"+itoa(len(want))+"\r\n", "C01.setrange.replies_the_new_length")
	vr.Reach("end")
}

func Verif_C01_SetRange_3_1() { c01SetRange(3, 1) }
func Verif_C01_SetRange_2_2() { c01SetRange(2, 2) }
func Verif_C01_SetRange_1_3() { c01SetRange(1, 3) }

// Verif_C01_SetRangeBinary: SETRANGE on values and with operands that are not ASCII — multi-byte UTF-8
// sequences, bytes >= 0x80 that are not valid UTF-8, NUL — at every offset inside the value: no crash,
// exactly the addressed bytes change, nothing is re-encoded.
func Verif_C01_SetRangeBinary() {
	s := verifServer()
	k := vr.Tok("k")
	v := []string{"\xc3\xa9a", "\xffab", "a\x80", "\x00\xe2\x82\xac"}[vr.Choose("value", 4)]
	x := []string{"z", "\xfe", "\xc3\xa9", "\x00"}[vr.Choose("operand", 4)]
	verifPreset(s, 0, k, v)
	off := vr.Choose("offset", len(v)+1)
	reply, err, panicked := verifRun(s, "SETRANGE", k, itoa(off), x)
	vr.Assert(!panicked, "C01.setrange_binary.nopanic")
	if panicked {
		vr.Reach("end")
		return
	}
	vr.Assert(err == nil, "C01.setrange_binary.noerror")
	want := v[:off] + x
	if off+len(x) < len(v) {
		want += v[off+len(x):]
	}
	e, ok := s.store[0][k]
	sv, isS := e.Value.(string)
	vr.Assert(ok && isS && sv == want, "C01.setrange_binary.changes_exactly_the_addressed_bytes")
	if err == nil {
		vr.Assert(string(reply) == ":"+itoa(len(want))+"\r\n", "C01.setrange_binary.replies_the_new_length")
	}
	vr.Reach("end")
}

// Verif_C01_SetRangeMissingKey: SETRANGE on a key that does not exist creates it (the repository's
// documented behaviour: the new string is the operand); the reply is the length of what a later
// STRLEN / GET sees.
func Verif_C01_SetRangeMissingKey() {
	s := verifServer()
	k := vr.Tok("k")
	x := gBytes("x", 2)
	off := vr.Int("offset")
	vr.Assume(off >= 0 && off <= 1000)
	reply, err, panicked := verifRun(s, "SETRANGE", k, itoa(off), x)
	vr.Assert(!panicked && err == nil, "C01.setrange_missing.noerror")
	if panicked || err != nil {
		vr.Reach("end")
		return
	}
	e, ok := s.store[0][k]
	sv, isS := e.Value.(string)
	vr.Assert(ok && isS, "C01.setrange_missing.key_is_created")
	if ok && isS {
		vr.Assert(string(reply) == ":"+itoa(len(sv))+"\r\n", "C01.setrange_missing.reply_is_the_length_of_the_stored_value")
		vr.Assert(len(sv) >= len(x) && sv[len(sv)-len(x):] == x, "C01.setrange_missing.stored_value_ends_with_the_operand")
	}
	vr.Reach("end")
}
