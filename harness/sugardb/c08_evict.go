package sugardb

// C08 — max-memory policy: admission under noeviction, the eviction loop per policy, and the
// bookkeeping filter that decides which keys are eviction candidates.

import (
	"strconv"
	"strings"
	"time"

	"github.com/echovault/sugardb/internal/config"
	"github.com/echovault/sugardb/internal/constants"
	vr "github.com/echovault/sugardb/internal/verifrt"
)

func c08Server(policy string) *SugarDB {
	s, err := NewSugarDB(WithConfig(config.Config{
		DataDir:          "",
		EvictionPolicy:   policy,
		EvictionInterval: time.Hour,
		EvictionSample:   20,
	}))
	if err != nil {
		panic("verif: constructor failed")
	}
	return s
}

var c08Policies = []string{
	constants.AllKeysLFU, constants.AllKeysLRU, constants.VolatileLFU, constants.VolatileLRU,
	constants.AllKeysRandom, constants.VolatileRandom,
}

// Verif_C08_NoEvictionAdmission: under noeviction a write is refused (and changes nothing) exactly
// when usage is at or above the limit, and no key is ever removed.
func Verif_C08_NoEvictionAdmission() {
	s := c08Server(constants.NoEviction)
	k0 := vr.Tok("k0")
	v0 := vr.Tok("v0")
	verifPreset(s, 0, k0, v0)
	max := vr.Uint64("max")
	used := vr.Int64("used")
	vr.Assume(used >= 0 && used <= 1<<40 && max <= 1<<40)
	s.config.MaxMemory = max
	s.memUsed = used
	k, v := vr.Tok("k"), vr.Tok("v")
	vr.Assume(k != k0)
	err := s.setValues(verifCtx(0), map[string]interface{}{k: v})
	vr.Quiesce()
	_, stored := s.store[0][k]
	if max > 0 && uint64(used) >= max {
		vr.Assert(err != nil, "C08.noeviction.refuses_at_or_above_limit")
		vr.Assert(!stored && s.memUsed == used, "C08.noeviction.refused_write_changes_nothing")
	} else {
		vr.Assert(err == nil && stored, "C08.noeviction.admits_below_limit")
	}
	vr.Assert(gHolds(s, k0, gVal{kind: gStr, str: v0}), "C08.noeviction.never_removes_a_key")
	vr.Reach("end")
}

// c08Touch feeds the access bookkeeping exactly as the keyspace does after a read or write.
func c08Touch(s *SugarDB, k string) {
	if _, err := s.updateKeysInCache(verifCtx(0), []string{k}); err != nil {
		panic("verif: updateKeysInCache failed while under the limit")
	}
}

func inLFU(s *SugarDB, k string) bool {
	_, err := s.lfuCache.cache[0].GetCount(k)
	return err == nil
}

func inLRU(s *SugarDB, k string) bool {
	_, err := s.lruCache.cache[0].GetTime(k)
	return err == nil
}

// Verif_C08_BookkeepingFilter: after an access, a key is an LFU/LRU eviction candidate iff the
// policy's candidate rule admits it (volatile-* only keys with a deadline).
func Verif_C08_BookkeepingFilter() {
	pol := vr.Choose("policy", len(c08Policies))
	s := c08Server(c08Policies[pol])
	s.config.MaxMemory = 1 << 50
	k := vr.Tok("k")
	verifPreset(s, 0, k, vr.Tok("v"))
	volatile := vr.Choose("volatile", 2) == 1
	if volatile {
		verifPresetExpiry(s, 0, k, time.UnixMilli(3_000_000_000_000))
	}
	vr.Quiesce()
	c08Touch(s, k)
	name := c08Policies[pol]
	wantLFU := strings.HasSuffix(name, "lfu") && (strings.HasPrefix(name, "allkeys") || volatile)
	wantLRU := strings.HasSuffix(name, "lru") && (strings.HasPrefix(name, "allkeys") || volatile)
	vr.Assert(inLFU(s, k) == wantLFU, "C08.filter.lfu_candidate")
	vr.Assert(inLRU(s, k) == wantLRU, "C08.filter.lru_candidate")
	// deleting the key removes it from the bookkeeping too
	_, err, panicked := verifRun(s, "DEL", k)
	vr.Assert(!panicked && err == nil, "C08.filter.del")
	vr.Quiesce()
	vr.Assert(!inLFU(s, k) && !inLRU(s, k) && !volatileIndexHas(s, 0, k), "C08.deleted_key_leaves_no_bookkeeping")
	vr.Reach("end")
}

// Verif_C08_EvictionLoop: one run of adjustMemoryUsage under each evicting policy.
func c08EvictionLoop(name string) {
	// (no write history in front of the first preset: under a policy that counts accesses an earlier
	// write of the same name is one more access, and the access counts are this harness's model)
	gNoHistory = true
	s := c08Server(name)
	s.config.MaxMemory = 1 << 50
	maxKeys := 2
	if vr.Tier() > 0 && name != constants.AllKeysLRU && name != constants.VolatileLRU {
		// (three keys under the LRU policies - symbolic access times - do not finish inside the
		// thorough budget: measured 25 min without covering the bound; they stay at two)
		maxKeys = 3
	}
	n := 1 + vr.Choose("nkeys", maxKeys)
	var keys []string
	var vols []bool
	var counts []int
	for i := 0; i < n; i++ {
		k := vr.Tok("k" + strconv.Itoa(i))
		for _, o := range keys {
			vr.Assume(o != k)
		}
		verifPreset(s, 0, k, vr.Tok("v"+strconv.Itoa(i)))
		vol := vr.Choose("vol"+strconv.Itoa(i), 2) == 1
		if vol {
			verifPresetExpiry(s, 0, k, time.UnixMilli(3_000_000_000_000))
		}
		vr.Quiesce()
		touches := 1 + vr.Choose("touch"+strconv.Itoa(i), 2)
		for t := 0; t < touches; t++ {
			c08Touch(s, k)
		}
		keys = append(keys, k)
		vols = append(vols, vol)
		counts = append(counts, touches)
	}
	// a second database that must not be touched
	other := vr.Tok("other")
	verifPreset(s, 1, other, vr.Tok("ov"))
	vr.Quiesce()
	before := s.memUsed
	limit := vr.Uint64("limit")
	vr.Assume(limit >= 1 && limit <= 1<<40)
	s.config.MaxMemory = limit
	panicked := false
	func() {
		defer func() {
			if r := recover(); r != nil {
				panicked = true
			}
		}()
		_ = s.adjustMemoryUsage(verifCtx(0))
	}()
	vr.Assert(!panicked, "C08.evict.nopanic."+name)
	if panicked {
		return
	}
	volatileOnly := strings.HasPrefix(name, "volatile")
	evicted := 0
	candidatesLeft := 0
	for i, k := range keys {
		_, exists := s.store[0][k]
		if !exists {
			evicted++
			vr.Assert(uint64(before) >= limit, "C08.evict.only_at_or_above_limit")
			vr.Assert(!volatileOnly || vols[i], "C08.evict.volatile_policy_spares_persistent_keys")
			vr.Assert(!inLFU(s, k) && !inLRU(s, k) && !volatileIndexHas(s, 0, k), "C08.evict.evicted_key_disappears_completely")
		} else {
			vr.Assert(gHolds(s, k, gVal{kind: gStr, str: s.store[0][k].Value.(string)}), "C08.evict.survivor_intact")
			if !volatileOnly || vols[i] {
				candidatesLeft++
			}
		}
	}
	// eviction goes on until usage is back under the limit or no candidate is left
	vr.Assert(uint64(s.memUsed) < limit || candidatesLeft == 0, "C08.evict.continues_until_under_limit")
	// least frequently used first
	if strings.HasSuffix(name, "lfu") {
		for i, ki := range keys {
			_, gone := s.store[0][ki]
			gone = !gone
			for j, kj := range keys {
				_, stays := s.store[0][kj]
				if gone && stays && (!volatileOnly || vols[j]) {
					vr.Assert(counts[i] <= counts[j], "C08.evict.lfu_order")
				}
			}
		}
	}
	vr.Assert(len(s.store[1]) == 1, "C08.evict.other_database_untouched")
	vr.Reach("end")
}

func Verif_C08_Evict_AllKeysLFU()     { c08EvictionLoop(constants.AllKeysLFU) }
func Verif_C08_Evict_AllKeysLRU()     { c08EvictionLoop(constants.AllKeysLRU) }
func Verif_C08_Evict_VolatileLFU()    { c08EvictionLoop(constants.VolatileLFU) }
func Verif_C08_Evict_VolatileLRU()    { c08EvictionLoop(constants.VolatileLRU) }
func Verif_C08_Evict_AllKeysRandom()  { c08EvictionLoop(constants.AllKeysRandom) }
func Verif_C08_Evict_VolatileRandom() { c08EvictionLoop(constants.VolatileRandom) }

// Verif_C08_MultiKeyAccessCountsEveryKey: one access that names several keys (TOUCH a b c, MGET, a
// multi-key read) records every key that exists, wherever a missing key sits in the list: under an LFU
// policy each existing key's count goes up by exactly one, under an LRU policy each is (re)listed; the
// number of touched keys is the number of existing ones.
func Verif_C08_MultiKeyAccessCountsEveryKey() {
	pol := vr.Choose("policy", 2)
	name := []string{constants.AllKeysLFU, constants.AllKeysLRU}[pol]
	s := c08Server(name)
	s.config.MaxMemory = 1 << 50
	a, b, ghost := vr.Tok("a"), vr.Tok("b"), vr.Tok("ghost")
	vr.Assume(a != b && a != ghost && b != ghost)
	verifPreset(s, 0, a, "va")
	verifPreset(s, 0, b, "vb")
	vr.Quiesce()
	pre := 1 + vr.Choose("earlier_accesses", 2)
	for t := 0; t < pre; t++ {
		c08Touch(s, a)
		c08Touch(s, b)
	}
	var keys []string
	switch vr.Choose("order", 4) {
	case 0:
		keys = []string{ghost, a, b}
	case 1:
		keys = []string{a, ghost, b}
	case 2:
		keys = []string{a, b, ghost}
	case 3:
		keys = []string{a, b}
	}
	before := map[string]int{}
	if pol == 0 {
		for _, k := range []string{a, b} {
			c, err := s.lfuCache.cache[0].GetCount(k)
			vr.Assert(err == nil, "C08.multikey_access.listed_before")
			before[k] = c
		}
	}
	n, err := s.updateKeysInCache(verifCtx(0), keys)
	vr.Assert(err == nil, "C08.multikey_access.noerror")
	vr.Assert(n == 2, "C08.multikey_access.touched_count_is_the_number_of_existing_keys")
	for _, k := range []string{a, b} {
		if pol == 0 {
			c, e2 := s.lfuCache.cache[0].GetCount(k)
			vr.Assert(e2 == nil && c == before[k]+1, "C08.multikey_access.every_existing_key_counted_once")
		} else {
			vr.Assert(inLRU(s, k), "C08.multikey_access.every_existing_key_listed")
		}
	}
	vr.Assert(!inLFU(s, ghost) && !inLRU(s, ghost), "C08.multikey_access.missing_key_not_listed")
	vr.Reach("end")
}
