package sugardb

// Generic typed pre-state for the cross-cutting properties (C13, C20, C12, C05): a key holds
// nothing, a string, an int, a list, a hash, a set or a sorted set; contents are symbolic.

import (
	"strconv"

	"github.com/echovault/sugardb/internal/modules/set"
	ss "github.com/echovault/sugardb/internal/modules/sorted_set"
	vr "github.com/echovault/sugardb/internal/verifrt"
)

const (
	gAbsent = iota
	gStr
	gInt
	gList
	gHash
	gSet
	gZSet
	gKinds
)

// gOpts tunes how symbolic values are drawn.
var (
	gConcreteScores bool // sorted-set scores 1,2,... instead of symbolic doubles
	gByteStrings    int  // > 0: string values are that many arbitrary bytes instead of an opaque token
)

type gVal struct {
	kind   int
	str    string
	n      int
	elems  []string  // list elements / hash fields / set members / zset members
	vals   []string  // hash values
	scores []float64 // zset scores
}

func gSym(name string, kind int, maxElems int) gVal {
	v := gVal{kind: kind}
	switch kind {
	case gStr:
		if gByteStrings > 0 {
			v.str = gBytes(name+"_b", gByteStrings)
		} else {
			v.str = vr.Tok(name + "_s")
		}
	case gInt:
		v.n = vr.Int(name + "_i")
	case gList, gHash, gSet, gZSet:
		n := 1
		if maxElems > 1 {
			n = 1 + vr.Choose(name+"_n", maxElems)
		}
		for i := 0; i < n; i++ {
			e := vr.Tok(name + "_e" + strconv.Itoa(i))
			if kind != gList {
				for _, o := range v.elems {
					vr.Assume(o != e)
				}
			}
			v.elems = append(v.elems, e)
			if kind == gHash {
				v.vals = append(v.vals, vr.Tok(name+"_v"+strconv.Itoa(i)))
			}
			if kind == gZSet {
				if gConcreteScores {
					v.scores = append(v.scores, float64(i+1))
				} else {
					f := vr.Float(name + "_f" + strconv.Itoa(i))
					vr.Assume(f == f)
					v.scores = append(v.scores, f)
				}
			}
		}
	}
	return v
}

// gStoreIn installs the value under key k of database db through setValues.
func gStoreIn(s *SugarDB, db int, k string, v gVal) {
	switch v.kind {
	case gStr:
		verifPreset(s, db, k, v.str)
	case gInt:
		verifPreset(s, db, k, v.n)
	case gList:
		verifPreset(s, db, k, append([]string{}, v.elems...))
	case gHash:
		m := map[string]interface{}{}
		for i, f := range v.elems {
			m[f] = v.vals[i]
		}
		verifPreset(s, db, k, m)
	case gSet:
		verifPreset(s, db, k, set.NewSet(append([]string{}, v.elems...)))
	case gZSet:
		var ps []ss.MemberParam
		for i, m := range v.elems {
			ps = append(ps, ss.MemberParam{Value: ss.Value(m), Score: ss.Score(v.scores[i])})
		}
		verifPreset(s, db, k, ss.NewSortedSet(ps))
	}
}

// gHoldsIn reports whether key k of database db holds exactly v (deep: order of list elements,
// membership, field values, scores, type).
func gHoldsIn(s *SugarDB, db int, k string, v gVal) bool {
	e, ok := s.store[db][k]
	if v.kind == gAbsent {
		return !ok
	}
	if !ok {
		return false
	}
	switch v.kind {
	case gStr:
		x, is := e.Value.(string)
		return is && x == v.str
	case gInt:
		x, is := e.Value.(int)
		return is && x == v.n
	case gList:
		l, is := e.Value.([]string)
		return is && listEqSym(l, v.elems)
	case gHash:
		m, is := e.Value.(map[string]interface{})
		if !is || len(m) != len(v.elems) {
			return false
		}
		good := true
		for i, f := range v.elems {
			x, has := m[f]
			sx, iss := x.(string)
			good = good && has && iss && sx == v.vals[i]
		}
		return good
	case gSet:
		st, is := e.Value.(*set.Set)
		if !is || st.Cardinality() != len(v.elems) || len(st.GetAll()) != len(v.elems) {
			return false
		}
		good := true
		for _, m := range v.elems {
			good = good && st.Contains(m)
		}
		return good && setEnumOK(st, v.elems)
	case gZSet:
		st, is := e.Value.(*ss.SortedSet)
		if !is || st.Cardinality() != len(v.elems) {
			return false
		}
		good := true
		for i, m := range v.elems {
			o := st.Get(ss.Value(m))
			good = good && o.Exists && float64(o.Score) == v.scores[i]
		}
		return good && zsetEnumOK(st, v.elems, v.scores)
	}
	return false
}

// setEnumOK / zsetEnumOK: what the collection *enumerates* (GetAll, the view every range, algebra and
// random-member command starts from) is exactly the model too - every enumerated element is a model
// element (with its score) and no element is enumerated twice. Membership lookups alone would not see
// an enumeration that a cache or a counter has let drift from the stored members.
func setEnumOK(st *set.Set, want []string) bool {
	all := st.GetAll()
	if len(all) != len(want) {
		return false
	}
	good := true
	for i, x := range all {
		good = good && contains(want, x)
		for _, y := range all[:i] {
			good = good && x != y
		}
	}
	return good
}

func zsetEnumOK(st *ss.SortedSet, names []string, scores []float64) bool {
	all := st.GetAll()
	if len(all) != len(names) {
		return false
	}
	good := true
	for i, x := range all {
		found := false
		for j, n := range names {
			if string(x.Value) == n && float64(x.Score) == scores[j] {
				found = true
			}
		}
		good = good && found
		for _, y := range all[:i] {
			good = good && x.Value != y.Value
		}
	}
	return good
}

func gHolds(s *SugarDB, k string, v gVal) bool { return gHoldsIn(s, 0, k, v) }

// gBytes: n arbitrary lower-case letters (byte-transparent, provably non-numeric).
func gBytes(name string, n int) string {
	b := vr.Bytes(name, n)
	for i := 0; i < len(b); i++ {
		vr.Assume(b[i] >= 'a' && b[i] <= 'h')
	}
	return b
}
