package sugardb

// C01 — the keyspace is a sequential typed map. One inductive step per command from an
// arbitrary pre-state of the (1..2) keys the command names.

import (
	"strconv"
	"time"

	vr "github.com/echovault/sugardb/internal/verifrt"
)

const (
	vAbsent = iota
	vStr
	vInt
	vList
	vFloat
)

// c01Val is the reference model of one key: its kind and the byte rendering a reader returns.
type c01Val struct {
	kind int
	str  string // rendering for vStr / vInt
	n    int
	list []string
}

func c01Preset(s *SugarDB, k string, name string, kinds int) c01Val {
	v := c01Val{kind: vr.Choose(name+"_kind", kinds)}
	switch v.kind {
	case vStr:
		v.str = vr.Tok(name + "_str")
		verifPreset(s, 0, k, v.str)
	case vInt:
		v.n = vr.Int(name + "_int")
		v.str = strconv.Itoa(v.n)
		verifPreset(s, 0, k, v.n)
	case vList:
		v.list = []string{vr.Tok(name + "_elem")}
		verifPreset(s, 0, k, append([]string{}, v.list...))
	}
	return v
}

// c01Holds asserts that key k currently holds exactly model value v.
func c01Holds(s *SugarDB, k string, v c01Val, ob string) {
	e, ok := s.store[0][k]
	switch v.kind {
	case vAbsent:
		vr.Assert(!ok, ob)
	case vStr:
		x, is := e.Value.(string)
		vr.Assert(ok && is && x == v.str, ob)
	case vInt:
		// an integer may be stored as an int or as its canonical decimal string
		switch x := e.Value.(type) {
		case int:
			vr.Assert(ok && x == v.n, ob)
		case string:
			vr.Assert(ok && x == strconv.Itoa(v.n), ob)
		default:
			vr.Assert(false, ob)
		}
	case vList:
		l, is := e.Value.([]string)
		vr.Assert(ok && is && listEqSym(l, v.list), ob)
	}
}

// isStringReply: a '+' or '$' reply carrying exactly want.
func isStringReply(reply []byte, want string) bool {
	r := vr.Decode(reply)
	return r.OK && !r.Null && (r.Kind == '+' || r.Kind == '$') && r.Str == want
}

func isNilReply(reply []byte) bool {
	r := vr.Decode(reply)
	return r.OK && r.Null
}

func isIntReply(reply []byte, want int) bool {
	r := vr.Decode(reply)
	return r.OK && r.Kind == ':' && r.Int == int64(want)
}

func isOK(reply []byte) bool { return string(reply) == "+OK\r\n" }

// ---- SET / GET ----

// Verif_C01_SetGet: SET k v (no options) on an arbitrary pre-state, then GET k.
func Verif_C01_SetGet() {
	s := verifServer()
	k := vr.Tok("k")
	c01Preset(s, k, "p", 4)
	isNum := vr.Choose("vnum", 2) == 1
	var v string
	var want c01Val
	if isNum {
		n := vr.Int("vn")
		v = strconv.Itoa(n)
		want = c01Val{kind: vInt, n: n, str: v}
	} else {
		v = vr.Tok("v")
		want = c01Val{kind: vStr, str: v}
	}
	reply, err, panicked := verifRun(s, "SET", k, v)
	vr.Assert(!panicked && err == nil && isOK(reply), "C01.set.reply")
	if panicked || err != nil {
		return
	}
	c01Holds(s, k, want, "C01.set.post")
	reply, err, panicked = verifRun(s, "GET", k)
	vr.Assert(!panicked && err == nil, "C01.get.noerror")
	if panicked || err != nil {
		return
	}
	vr.Assert(isStringReply(reply, v), "C01.get.returns_last_write")
	vr.Reach("end")
}

// Verif_C01_SetGetLiteral: numeric-looking, empty and odd literal values must come back byte for byte.
func Verif_C01_SetGetLiteral() {
	s := verifServer()
	k := vr.Tok("k")
	lits := []string{"007", "1e3", "-0", "+5", "5.0", ".5", "0x10", "1_000", "inf", "", " 5", "5 ", "9223372036854775808", "1.0000000000000001",
		// integers that fit 64 bits but not the 53 significant bits of a double
		"9007199254740993", "-9007199254740995", "1234567890123456789", "9223372036854775807", "-9223372036854775808"}
	v := lits[vr.Choose("lit", len(lits))]
	reply, err, panicked := verifRun(s, "SET", k, v)
	vr.Assert(!panicked && err == nil && isOK(reply), "C01.setlit.reply")
	if panicked || err != nil {
		return
	}
	reply, err, panicked = verifRun(s, "GET", k)
	vr.Assert(!panicked && err == nil && isStringReply(reply, v), "C01.setlit.byte_for_byte")
	vr.Reach("end")
}

// Verif_C01_WideIntegers: integers wider than a double's 53 significant bits, written by SET or MSET, are
// stored exactly: GET / MGET return the digits written and INCR / DECRBY count from the exact value.
func Verif_C01_WideIntegers() {
	s := verifServer()
	k := vr.Tok("k")
	n := []int{9007199254740993, -9007199254740995, 1234567890123456789, 9223372036854775806, -9223372036854775805, 4611686018427387905}[vr.Choose("wide", 6)]
	v := strconv.Itoa(n)
	var err error
	var panicked bool
	if vr.Choose("by_mset", 2) == 1 {
		k2 := vr.Tok("k2")
		vr.Assume(k2 != k)
		_, err, panicked = verifRun(s, "MSET", k2, "x", k, v)
	} else {
		_, err, panicked = verifRun(s, "SET", k, v)
	}
	vr.Assert(!panicked && err == nil, "C01.wide.write")
	if panicked || err != nil {
		return
	}
	c01Holds(s, k, c01Val{kind: vInt, n: n, str: v}, "C01.wide.stored_exactly")
	var reply []byte
	want := n
	switch vr.Choose("then", 3) {
	case 0:
		reply, err, panicked = verifRun(s, "GET", k)
		vr.Assert(!panicked && err == nil && isStringReply(reply, v), "C01.wide.get_byte_for_byte")
	case 1:
		want = n + 1
		reply, err, panicked = verifRun(s, "INCR", k)
		vr.Assert(!panicked && err == nil && isIntReply(reply, want), "C01.wide.incr")
	default:
		want = n - 2
		reply, err, panicked = verifRun(s, "DECRBY", k, "2")
		vr.Assert(!panicked && err == nil && isIntReply(reply, want), "C01.wide.decrby")
	}
	if !panicked && err == nil {
		c01Holds(s, k, c01Val{kind: vInt, n: want, str: strconv.Itoa(want)}, "C01.wide.post")
	}
	vr.Reach("end")
}

// Verif_C01_Get: GET on an arbitrary pre-state.
func Verif_C01_Get() {
	s := verifServer()
	k := vr.Tok("k")
	p := c01Preset(s, k, "p", 4)
	reply, err, panicked := verifRun(s, "GET", k)
	vr.Assert(!panicked, "C01.get.nopanic")
	if panicked {
		return
	}
	switch p.kind {
	case vAbsent:
		vr.Assert(err == nil && isNilReply(reply), "C01.get.absent")
	case vStr, vInt:
		vr.Assert(err == nil && isStringReply(reply, p.str), "C01.get.value")
	case vList:
		vr.Assert(err != nil, "C01.get.wrongtype")
	}
	c01Holds(s, k, p, "C01.get.unchanged")
	vr.Reach("end")
}

// Verif_C01_SetOptions: SET k v with NX / XX / GET in every combination.
func Verif_C01_SetOptions() {
	s := verifServer()
	k := vr.Tok("k")
	p := c01Preset(s, k, "p", 3)
	v := vr.Tok("v")
	ex := vr.Choose("exists", 3) // 0 none, 1 NX, 2 XX
	get := vr.Choose("get", 2) == 1
	argv := []string{"SET", k, v}
	if ex == 1 {
		argv = append(argv, "NX")
	}
	if ex == 2 {
		argv = append(argv, "XX")
	}
	if get {
		argv = append(argv, "GET")
	}
	reply, err, panicked := verifRun(s, argv...)
	vr.Assert(!panicked, "C01.setopt.nopanic")
	if panicked {
		return
	}
	exists := p.kind != vAbsent
	blocked := (ex == 1 && exists) || (ex == 2 && !exists)
	if blocked {
		// the write must not happen; the reply is an error or nil (or the old value with GET)
		c01Holds(s, k, p, "C01.setopt.blocked_unchanged")
	} else {
		vr.Assert(err == nil, "C01.setopt.noerror")
		if err == nil {
			if get {
				if exists {
					vr.Assert(isStringReply(reply, p.str), "C01.setopt.get_old_value")
				} else {
					vr.Assert(isNilReply(reply), "C01.setopt.get_nil")
				}
			} else {
				vr.Assert(isOK(reply), "C01.setopt.reply")
			}
			c01Holds(s, k, c01Val{kind: vStr, str: v}, "C01.setopt.post")
		}
	}
	vr.Reach("end")
}

// ---- MSET / MGET / DEL ----

func Verif_C01_MSetMGet() {
	s := verifServer()
	k1, k2 := vr.Tok("k1"), vr.Tok("k2")
	vr.Assume(k1 != k2)
	c01Preset(s, k1, "p1", 3)
	v1, v2 := vr.Tok("v1"), vr.Tok("v2")
	reply, err, panicked := verifRun(s, "MSET", k1, v1, k2, v2)
	vr.Assert(!panicked && err == nil && isOK(reply), "C01.mset.reply")
	if panicked || err != nil {
		return
	}
	c01Holds(s, k1, c01Val{kind: vStr, str: v1}, "C01.mset.post1")
	c01Holds(s, k2, c01Val{kind: vStr, str: v2}, "C01.mset.post2")
	k3 := vr.Tok("k3")
	vr.Assume(k3 != k1 && k3 != k2)
	reply, err, panicked = verifRun(s, "MGET", k1, k3, k2)
	vr.Assert(!panicked && err == nil, "C01.mget.noerror")
	if panicked || err != nil {
		return
	}
	r := vr.Decode(reply)
	vr.Assert(r.OK && r.Kind == '*' && len(r.Elems) == 3, "C01.mget.shape")
	if r.OK && len(r.Elems) == 3 {
		vr.Assert(!r.Elems[0].Null && r.Elems[0].Str == v1, "C01.mget.first")
		vr.Assert(r.Elems[1].Null, "C01.mget.absent_is_nil")
		vr.Assert(!r.Elems[2].Null && r.Elems[2].Str == v2, "C01.mget.third")
	}
	vr.Reach("end")
}

func Verif_C01_MSetOdd() {
	s := verifServer()
	k1, k2 := vr.Tok("k1"), vr.Tok("k2")
	vr.Assume(k1 != k2)
	p1 := c01Preset(s, k1, "p1", 3)
	p2 := c01Preset(s, k2, "p2", 3)
	_, err, panicked := verifRun(s, "MSET", k1, vr.Tok("v1"), k2)
	vr.Assert(!panicked && err != nil, "C01.mset.odd_is_error")
	c01Holds(s, k1, p1, "C01.mset.odd_unchanged1")
	c01Holds(s, k2, p2, "C01.mset.odd_unchanged2")
	vr.Reach("end")
}

func Verif_C01_Del() {
	s := verifServer()
	k1, k2 := vr.Tok("k1"), vr.Tok("k2")
	vr.Assume(k1 != k2)
	p1 := c01Preset(s, k1, "p1", 4)
	p2 := c01Preset(s, k2, "p2", 4)
	k3 := vr.Tok("k3")
	vr.Assume(k3 != k1 && k3 != k2)
	reply, err, panicked := verifRun(s, "DEL", k1, k3)
	vr.Assert(!panicked && err == nil, "C01.del.noerror")
	if panicked || err != nil {
		return
	}
	want := 0
	if p1.kind != vAbsent {
		want = 1
	}
	vr.Assert(isIntReply(reply, want), "C01.del.count")
	c01Holds(s, k1, c01Val{kind: vAbsent}, "C01.del.deleted")
	c01Holds(s, k2, p2, "C01.del.other_unchanged")
	reply, err, panicked = verifRun(s, "GET", k1)
	vr.Assert(!panicked && err == nil && isNilReply(reply), "C01.del.reads_absent")
	vr.Reach("end")
}

// ---- counters ----

func c01Counter(cmd string, hasArg bool, sign int) {
	s := verifServer()
	k := vr.Tok("k")
	p := c01Preset(s, k, "p", 4)
	argv := []string{cmd, k}
	delta := 1
	if hasArg {
		delta = vr.Int("delta")
		argv = append(argv, strconv.Itoa(delta))
	}
	reply, err, panicked := verifRun(s, argv...)
	vr.Assert(!panicked, "C01."+cmd+".nopanic")
	if panicked {
		return
	}
	if p.kind == vStr || p.kind == vList {
		// a non-numeric string or a list is not a counter
		vr.Assert(err != nil, "C01."+cmd+".wrongtype_error")
		c01Holds(s, k, p, "C01."+cmd+".wrongtype_unchanged")
		vr.Reach("end")
		return
	}
	cur := 0
	if p.kind == vInt {
		cur = p.n
	}
	var want int
	overflow := false
	if sign > 0 {
		want = cur + delta
		overflow = (delta > 0 && want < cur) || (delta < 0 && want > cur)
	} else {
		want = cur - delta
		overflow = (delta > 0 && want > cur) || (delta < 0 && want < cur)
	}
	if overflow {
		vr.Assert(err != nil, "C01."+cmd+".overflow_is_error")
		c01Holds(s, k, p, "C01."+cmd+".overflow_unchanged")
	} else {
		vr.Assert(err == nil && isIntReply(reply, want), "C01."+cmd+".reply")
		c01Holds(s, k, c01Val{kind: vInt, n: want, str: strconv.Itoa(want)}, "C01."+cmd+".post")
	}
	vr.Reach("end")
}

func Verif_C01_Incr()   { c01Counter("INCR", false, 1) }
func Verif_C01_Decr()   { c01Counter("DECR", false, -1) }
func Verif_C01_IncrBy() { c01Counter("INCRBY", true, 1) }
func Verif_C01_DecrBy() { c01Counter("DECRBY", true, -1) }

// ---- RENAME / GETDEL / TYPE / FLUSHDB ----

func Verif_C01_Rename() {
	s := verifServer()
	k1 := vr.Tok("k1")
	same := vr.Choose("same", 2) == 1
	k2 := k1
	p1 := c01Preset(s, k1, "p1", 4)
	p2 := p1
	if !same {
		k2 = vr.Tok("k2")
		vr.Assume(k1 != k2)
		p2 = c01Preset(s, k2, "p2", 4)
	}
	reply, err, panicked := verifRun(s, "RENAME", k1, k2)
	vr.Assert(!panicked, "C01.rename.nopanic")
	if panicked {
		return
	}
	if p1.kind == vAbsent {
		vr.Assert(err != nil, "C01.rename.nosuchkey")
		c01Holds(s, k1, p1, "C01.rename.nosuchkey_unchanged1")
		c01Holds(s, k2, p2, "C01.rename.nosuchkey_unchanged2")
	} else {
		vr.Assert(err == nil && isOK(reply), "C01.rename.reply")
		c01Holds(s, k2, p1, "C01.rename.new_holds_value")
		if !same {
			c01Holds(s, k1, c01Val{kind: vAbsent}, "C01.rename.old_gone")
		}
	}
	vr.Reach("end")
}

func Verif_C01_GetDel() {
	s := verifServer()
	k := vr.Tok("k")
	p := c01Preset(s, k, "p", 3)
	reply, err, panicked := verifRun(s, "GETDEL", k)
	vr.Assert(!panicked && err == nil, "C01.getdel.noerror")
	if panicked || err != nil {
		return
	}
	if p.kind == vAbsent {
		vr.Assert(isNilReply(reply), "C01.getdel.absent")
	} else {
		vr.Assert(isStringReply(reply, p.str), "C01.getdel.value")
	}
	c01Holds(s, k, c01Val{kind: vAbsent}, "C01.getdel.deleted")
	vr.Reach("end")
}

func Verif_C01_Type() {
	s := verifServer()
	k := vr.Tok("k")
	p := c01Preset(s, k, "p", 4)
	reply, err, panicked := verifRun(s, "TYPE", k)
	vr.Assert(!panicked, "C01.type.nopanic")
	if panicked {
		return
	}
	switch p.kind {
	case vAbsent:
		vr.Assert(err != nil || isStringReply(reply, "none"), "C01.type.absent")
	case vStr:
		vr.Assert(err == nil && isStringReply(reply, "string"), "C01.type.string")
	case vInt:
		vr.Assert(err == nil && (isStringReply(reply, "integer") || isStringReply(reply, "string")), "C01.type.integer")
	case vList:
		vr.Assert(err == nil && isStringReply(reply, "list"), "C01.type.list")
	}
	c01Holds(s, k, p, "C01.type.unchanged")
	vr.Reach("end")
}

func Verif_C01_FlushDB() {
	s := verifServer()
	k1, k2 := vr.Tok("k1"), vr.Tok("k2")
	vr.Assume(k1 != k2)
	c01Preset(s, k1, "p1", 4)
	c01Preset(s, k2, "p2", 4)
	reply, err, panicked := verifRun(s, "FLUSHDB")
	vr.Assert(!panicked && err == nil && isOK(reply), "C01.flushdb.reply")
	if panicked || err != nil {
		return
	}
	c01Holds(s, k1, c01Val{kind: vAbsent}, "C01.flushdb.empty1")
	c01Holds(s, k2, c01Val{kind: vAbsent}, "C01.flushdb.empty2")
	vr.Assert(len(s.store[0]) == 0, "C01.flushdb.empty")
	vr.Reach("end")
}

// ---- string module (token level) ----

func Verif_C01_StrLen() {
	s := verifServer()
	k := vr.Tok("k")
	p := c01Preset(s, k, "p", 4)
	reply, err, panicked := verifRun(s, "STRLEN", k)
	vr.Assert(!panicked, "C01.strlen.nopanic")
	if panicked {
		return
	}
	switch p.kind {
	case vAbsent:
		vr.Assert(err == nil && isIntReply(reply, 0), "C01.strlen.absent")
	case vStr:
		vr.Assert(err == nil && isIntReply(reply, len(p.str)), "C01.strlen.value")
	case vList:
		vr.Assert(err != nil, "C01.strlen.wrongtype")
	}
	c01Holds(s, k, p, "C01.strlen.unchanged")
	vr.Reach("end")
}

func Verif_C01_Append() {
	s := verifServer()
	k := vr.Tok("k")
	p := c01Preset(s, k, "p", 4)
	v := vr.Tok("v")
	reply, err, panicked := verifRun(s, "APPEND", k, v)
	vr.Assert(!panicked, "C01.append.nopanic")
	if panicked {
		return
	}
	switch p.kind {
	case vAbsent:
		vr.Assert(err == nil && isIntReply(reply, len(v)), "C01.append.create_reply")
		c01Holds(s, k, c01Val{kind: vStr, str: v}, "C01.append.create_post")
	case vStr:
		vr.Assert(err == nil && isIntReply(reply, len(p.str)+len(v)), "C01.append.reply")
		c01Holds(s, k, c01Val{kind: vStr, str: p.str + v}, "C01.append.post")
	case vList:
		vr.Assert(err != nil, "C01.append.wrongtype")
		c01Holds(s, k, p, "C01.append.wrongtype_unchanged")
	}
	vr.Reach("end")
}

// Verif_C01_RenameCarriesDeadline: state carried between commands - RENAME moves the value *and* the
// source's deadline (or absence of one) to the new name, whatever the destination held before: absent,
// a value without deadline, or a live value with its own deadline (which must not survive).
func Verif_C01_RenameCarriesDeadline() {
	s := verifServer()
	t0 := time.UnixMilli(1_700_000_000_000)
	s.clock = verifClock{now: &t0}
	src, dst := vr.Tok("src"), vr.Tok("dst")
	vr.Assume(src != dst)
	verifPreset(s, 0, src, "fresh")
	want := "s:fresh"
	if vr.Choose("src_volatile", 2) == 1 {
		verifPresetExpiry(s, 0, src, t0.Add(50*time.Second))
		want = "s:fresh@" + itoa(int(t0.Add(50*time.Second).UnixMilli()))
	}
	switch vr.Choose("dst", 3) {
	case 1:
		verifPreset(s, 0, dst, "old")
	case 2:
		verifPreset(s, 0, dst, "old")
		verifPresetExpiry(s, 0, dst, t0.Add(100*time.Second))
	}
	reply, err, panicked := verifRun(s, "RENAME", src, dst)
	vr.Assert(!panicked && err == nil && isOK(reply), "C01.rename_deadline.reply")
	if panicked || err != nil {
		return
	}
	vr.Assert(c09Digest(s, 0, dst) == want, "C01.rename_deadline.new_name_has_the_value_and_the_deadline_of_the_old")
	vr.Assert(c09Digest(s, 0, src) == "<absent>", "C01.rename_deadline.old_gone")
	vr.Reach("end")
}
