package sugardb

// C15 — list commands implement a sequence. One inductive step per command: arbitrary stored
// value under the key (absent / list of 0..N arbitrary elements / a string), arbitrary
// arguments, real dispatcher; reply and post-state against a reference sequence model.

import (
	"strconv"

	vr "github.com/echovault/sugardb/internal/verifrt"
)

func c15MaxLen() int {
	if vr.Tier() > 0 {
		return 4
	}
	return 3
}

// refNormRange normalises an inclusive [start,end] range over n elements the way the property
// words it: negative indices count from the tail, out-of-range indices are clamped.
func refNormRange(n, start, end int) (int, int, bool) {
	if start < 0 {
		start = n + start
		if start < 0 {
			start = 0
		}
	}
	if end < 0 {
		end = n + end
	}
	if end >= n {
		end = n - 1
	}
	if start > end || start >= n {
		return 0, 0, false
	}
	return start, end, true
}

const (
	kAbsent = iota
	kList
	kOther
)

type c15Pre struct {
	kind int
	list []string
	str  string
}

// c15Preset installs an arbitrary pre-state under key k.
func c15Preset(s *SugarDB, k string, name string, kinds int, maxLen int) c15Pre {
	p := c15Pre{kind: vr.Choose(name+"_kind", kinds)}
	switch p.kind {
	case kList:
		p.list = symList(name, maxLen)
		verifPreset(s, 0, k, append([]string{}, p.list...))
	case kOther:
		p.str = vr.Tok(name + "_str")
		verifPreset(s, 0, k, p.str)
	}
	return p
}

func listEqSym(a, b []string) bool {
	if len(a) != len(b) {
		return false
	}
	ok := true
	for i := range a {
		ok = vr.And(ok, vr.StrEq(a[i], b[i]))
	}
	return ok
}

// c15Unchanged asserts that the key still holds exactly its pre-state.
func c15Unchanged(s *SugarDB, k string, p c15Pre, ob string) {
	e, ok := s.store[0][k]
	switch p.kind {
	case kAbsent:
		vr.Assert(!ok, ob)
	case kList:
		l, isl := e.Value.([]string)
		vr.Assert(ok && isl && listEqSym(l, p.list), ob)
	case kOther:
		v, iss := e.Value.(string)
		vr.Assert(ok && iss && v == p.str, ob)
	}
}

// c15PostList asserts that the key now holds list want (an empty list may be stored or absent).
func c15PostList(s *SugarDB, k string, want []string, ob string) {
	l, ok := storedList(s, 0, k)
	if len(want) == 0 {
		_, exists := s.store[0][k]
		vr.Assert(!exists || (ok && len(l) == 0), ob)
		return
	}
	vr.Assert(ok && listEqSym(l, want), ob)
}

func Verif_C15_LLen() {
	s := verifServer()
	k := vr.Tok("k")
	p := c15Preset(s, k, "l", 3, c15MaxLen())
	reply, err, panicked := verifRun(s, "LLEN", k)
	vr.Assert(!panicked, "C15.llen.nopanic")
	if panicked {
		return
	}
	if p.kind == kOther {
		vr.Assert(err != nil, "C15.llen.wrongtype")
	} else {
		vr.Assert(err == nil && string(reply) == encInt(len(p.list)), "C15.llen.reply")
	}
	c15Unchanged(s, k, p, "C15.llen.unchanged")
	vr.Reach("end")
}

func Verif_C15_LIndex() {
	s := verifServer()
	k := vr.Tok("k")
	p := c15Preset(s, k, "l", 3, c15MaxLen())
	idx := vr.Int("idx")
	reply, err, panicked := verifRun(s, "LINDEX", k, itoa(idx))
	vr.Assert(!panicked, "C15.lindex.nopanic")
	if panicked {
		return
	}
	if p.kind == kOther {
		vr.Assert(err != nil, "C15.lindex.wrongtype")
	} else {
		n := len(p.list)
		i := idx
		if i < 0 {
			i = n + i
		}
		want := "$-1\r\n"
		if i >= 0 && i < n {
			want = encBulk(p.list[i])
		}
		vr.Assert(err == nil && string(reply) == want, "C15.lindex.reply")
	}
	c15Unchanged(s, k, p, "C15.lindex.unchanged")
	vr.Reach("end")
}

func Verif_C15_LRange() {
	s := verifServer()
	k := vr.Tok("k")
	p := c15Preset(s, k, "l", 3, c15MaxLen())
	start, end := vr.Int("start"), vr.Int("end")
	reply, err, panicked := verifRun(s, "LRANGE", k, itoa(start), itoa(end))
	vr.Assert(!panicked, "C15.lrange.nopanic")
	if panicked {
		return
	}
	if p.kind == kOther {
		vr.Assert(err != nil, "C15.lrange.wrongtype")
	} else {
		var want []string
		if a, b, ok := refNormRange(len(p.list), start, end); ok {
			want = p.list[a : b+1]
		}
		vr.Assert(err == nil && string(reply) == encBulkArray(want), "C15.lrange.reply")
	}
	c15Unchanged(s, k, p, "C15.lrange.unchanged")
	vr.Reach("end")
}

func Verif_C15_LSet() {
	s := verifServer()
	k := vr.Tok("k")
	p := c15Preset(s, k, "l", 3, c15MaxLen())
	idx := vr.Int("idx")
	v := vr.Tok("v")
	reply, err, panicked := verifRun(s, "LSET", k, itoa(idx), v)
	vr.Assert(!panicked, "C15.lset.nopanic")
	if panicked {
		return
	}
	n := len(p.list)
	i := idx
	if i < 0 {
		i = n + i
	}
	if p.kind != kList || i < 0 || i >= n {
		vr.Assert(err != nil, "C15.lset.error")
		c15Unchanged(s, k, p, "C15.lset.error_unchanged")
	} else {
		want := append([]string{}, p.list...)
		want[i] = v
		vr.Assert(err == nil && string(reply) == "+OK\r\n", "C15.lset.reply")
		c15PostList(s, k, want, "C15.lset.post")
	}
	vr.Reach("end")
}

func Verif_C15_LTrim() {
	s := verifServer()
	k := vr.Tok("k")
	p := c15Preset(s, k, "l", 3, c15MaxLen())
	start, end := vr.Int("start"), vr.Int("end")
	reply, err, panicked := verifRun(s, "LTRIM", k, itoa(start), itoa(end))
	vr.Assert(!panicked, "C15.ltrim.nopanic")
	if panicked {
		return
	}
	if p.kind == kOther {
		vr.Assert(err != nil, "C15.ltrim.wrongtype")
		c15Unchanged(s, k, p, "C15.ltrim.wrongtype_unchanged")
	} else {
		var want []string
		if a, b, ok := refNormRange(len(p.list), start, end); ok {
			want = p.list[a : b+1]
		}
		vr.Assert(err == nil && string(reply) == "+OK\r\n", "C15.ltrim.reply")
		c15PostList(s, k, want, "C15.ltrim.post")
	}
	vr.Reach("end")
}

// refLRem removes up to |count| elements equal to v (all when count == 0), from the head for
// count >= 0 and from the tail for count < 0.
func refLRem(l []string, count int, v string) ([]string, int) {
	limit := count
	if limit < 0 {
		limit = -limit
	}
	removed := 0
	keep := make([]bool, len(l))
	if count >= 0 {
		for i := 0; i < len(l); i++ {
			keep[i] = true
			if (count == 0 || removed < limit) && l[i] == v {
				keep[i] = false
				removed++
			}
		}
	} else {
		for i := len(l) - 1; i >= 0; i-- {
			keep[i] = true
			if removed < limit && l[i] == v {
				keep[i] = false
				removed++
			}
		}
	}
	var out []string
	for i := range l {
		if keep[i] {
			out = append(out, l[i])
		}
	}
	return out, removed
}

func Verif_C15_LRem() {
	s := verifServer()
	k := vr.Tok("k")
	p := c15Preset(s, k, "l", 3, c15MaxLen())
	count := vr.Int("count")
	// |count| of the minimum int64 overflows in any implementation; outside the claim
	vr.Assume(count != -9223372036854775808)
	v := vr.Tok("v")
	reply, err, panicked := verifRun(s, "LREM", k, itoa(count), v)
	vr.Assert(!panicked, "C15.lrem.nopanic")
	if panicked {
		return
	}
	if p.kind == kOther {
		vr.Assert(err != nil, "C15.lrem.wrongtype")
		c15Unchanged(s, k, p, "C15.lrem.wrongtype_unchanged")
	} else {
		want, removed := refLRem(p.list, count, v)
		vr.Assert(err == nil && string(reply) == encInt(removed), "C15.lrem.reply")
		if p.kind == kAbsent {
			c15Unchanged(s, k, p, "C15.lrem.absent_unchanged")
		} else {
			c15PostList(s, k, want, "C15.lrem.post")
		}
	}
	vr.Reach("end")
}

func c15Push(cmd string, left bool, x bool) {
	s := verifServer()
	k := vr.Tok("k")
	p := c15Preset(s, k, "l", 3, c15MaxLen())
	m := 1 + vr.Choose("m", 2)
	argv := []string{cmd, k}
	var elems []string
	for i := 0; i < m; i++ {
		e := vr.Tok("e" + strconv.Itoa(i))
		elems = append(elems, e)
		argv = append(argv, e)
	}
	reply, err, panicked := verifRun(s, argv...)
	vr.Assert(!panicked, "C15."+cmd+".nopanic")
	if panicked {
		return
	}
	if p.kind == kOther || (x && p.kind == kAbsent) {
		vr.Assert(err != nil, "C15."+cmd+".error")
		c15Unchanged(s, k, p, "C15."+cmd+".error_unchanged")
	} else {
		var want []string
		if left {
			// the repository documents and tests "prepends the values" in argument order
			want = append(append([]string{}, elems...), p.list...)
		} else {
			want = append(append([]string{}, p.list...), elems...)
		}
		vr.Assert(err == nil && string(reply) == encInt(len(want)), "C15."+cmd+".reply")
		c15PostList(s, k, want, "C15."+cmd+".post")
	}
	vr.Reach("end")
}

func Verif_C15_LPush()  { c15Push("LPUSH", true, false) }
func Verif_C15_LPushX() { c15Push("LPUSHX", true, true) }
func Verif_C15_RPush()  { c15Push("RPUSH", false, false) }
func Verif_C15_RPushX() { c15Push("RPUSHX", false, true) }

func c15Pop(cmd string, left bool) {
	s := verifServer()
	k := vr.Tok("k")
	p := c15Preset(s, k, "l", 3, c15MaxLen())
	withCount := vr.Choose("withcount", 2) == 1
	count := 1
	argv := []string{cmd, k}
	if withCount {
		count = vr.Int("count")
		// the property fixes the meaning of a non-negative count only
		vr.Assume(count >= 0)
		argv = append(argv, itoa(count))
	}
	reply, err, panicked := verifRun(s, argv...)
	vr.Assert(!panicked, "C15."+cmd+".nopanic")
	if panicked {
		return
	}
	if p.kind == kOther {
		vr.Assert(err != nil, "C15."+cmd+".wrongtype")
		c15Unchanged(s, k, p, "C15."+cmd+".wrongtype_unchanged")
		vr.Reach("end")
		return
	}
	n := len(p.list)
	if n == 0 {
		// absent key or empty list: nil reply, nothing changes
		vr.Assert(err == nil && (string(reply) == "$-1\r\n" || string(reply) == "*-1\r\n" || string(reply) == "*0\r\n"), "C15."+cmd+".empty_reply")
		c15PostList(s, k, nil, "C15."+cmd+".empty_post")
		vr.Reach("end")
		return
	}
	c := count
	if c > n {
		c = n
	}
	var popped, rest []string
	if left {
		popped = p.list[:c]
		rest = p.list[c:]
	} else {
		for i := 0; i < c; i++ {
			popped = append(popped, p.list[n-1-i])
		}
		rest = p.list[:n-c]
	}
	if !withCount {
		vr.Assert(err == nil && string(reply) == encBulk(popped[0]), "C15."+cmd+".reply")
	} else {
		vr.Assert(err == nil && string(reply) == encBulkArray(popped), "C15."+cmd+".reply_count")
	}
	c15PostList(s, k, rest, "C15."+cmd+".post")
	vr.Reach("end")
}

func Verif_C15_LPop() { c15Pop("LPOP", true) }
func Verif_C15_RPop() { c15Pop("RPOP", false) }

// LMOVE: both keys must hold lists (the repository documents an error otherwise); one element
// moves from the chosen end of the source to the chosen end of the destination; source and
// destination may be the same key.
func Verif_C15_LMove() {
	s := verifServer()
	src := vr.Tok("src")
	same := vr.Choose("same", 2) == 1
	dst := src
	maxLen := 2
	if vr.Tier() > 0 {
		maxLen = 3
	}
	ps := c15Preset(s, src, "ls", 3, maxLen)
	pd := ps
	if !same {
		dst = vr.Tok("dst")
		vr.Assume(src != dst)
		pd = c15Preset(s, dst, "ld", 3, maxLen)
	}
	from := vr.Choose("from", 2)
	to := vr.Choose("to", 2)
	names := []string{"LEFT", "RIGHT"}
	reply, err, panicked := verifRun(s, "LMOVE", src, dst, names[from], names[to])
	vr.Assert(!panicked, "C15.lmove.nopanic")
	if panicked {
		return
	}
	if ps.kind != kList || pd.kind != kList || len(ps.list) == 0 {
		// nothing to move / not lists: no element may be moved, nothing may change
		vr.Assert(err != nil || string(reply) == "$-1\r\n", "C15.lmove.error")
		c15Unchanged(s, src, ps, "C15.lmove.error_src_unchanged")
		if !same {
			c15Unchanged(s, dst, pd, "C15.lmove.error_dst_unchanged")
		}
		vr.Reach("end")
		return
	}
	var elem string
	var srcRest []string
	if from == 0 {
		elem = ps.list[0]
		srcRest = ps.list[1:]
	} else {
		elem = ps.list[len(ps.list)-1]
		srcRest = ps.list[:len(ps.list)-1]
	}
	base := pd.list
	if same {
		base = srcRest
	}
	var wantDst []string
	if to == 0 {
		wantDst = append([]string{elem}, base...)
	} else {
		wantDst = append(append([]string{}, base...), elem)
	}
	vr.Assert(err == nil, "C15.lmove.noerror")
	if err == nil {
		vr.Assert(string(reply) == "+OK\r\n" || string(reply) == encBulk(elem), "C15.lmove.reply")
	}
	if !same {
		c15PostList(s, src, srcRest, "C15.lmove.src_post")
		// the two keys must not share a backing array, or a later push to one rewrites the other
		a, _ := storedList(s, 0, src)
		b, _ := storedList(s, 0, dst)
		vr.Assert(!sharesBacking(a, b), "C15.lmove.noalias")
		// ... demonstrated by a follow-up write to the source
		_, err2, p2 := verifRun(s, "RPUSH", src, vr.Tok("x"))
		vr.Assert(!p2 && err2 == nil, "C15.lmove.then_rpush")
		c15PostList(s, dst, wantDst, "C15.lmove.dst_after_src_push")
	}
	c15PostList(s, dst, wantDst, "C15.lmove.dst_post")
	vr.Reach("end")
}
