package sugardb

import (
	vr "github.com/echovault/sugardb/internal/verifrt"
)

func refNormRange(n, start, end int) (int, int, bool) {
	if start < 0 {
		start = n + start
		if start < 0 {
			start = 0
		}
	}
	if end < 0 {
		end = n + end
	}
	if end >= n {
		end = n - 1
	}
	if start > end || start >= n {
		return 0, 0, false
	}
	return start, end, true
}

// Verif_C15_LRange: LRANGE on an arbitrary list with arbitrary 64-bit start/end.
func Verif_C15_LRange() {
	s := verifServer()
	k := vr.Tok("k")
	l := symList("l", 3)
	verifPreset(s, 0, k, l)
	start, end := vr.Int("start"), vr.Int("end")
	reply, err, panicked := verifRun(s, "LRANGE", k, itoa(start), itoa(end))
	vr.Assert(!panicked, "C15.lrange.nopanic")
	if panicked {
		return
	}
	vr.Assert(err == nil, "C15.lrange.noerror")
	if err != nil {
		return
	}
	var want []string
	if a, b, ok := refNormRange(len(l), start, end); ok {
		want = l[a : b+1]
	}
	vr.Assert(string(reply) == encBulkArray(want), "C15.lrange.reply")
	after, ok := storedList(s, 0, k)
	vr.Assert(ok && listEq(after, l), "C15.lrange.unchanged")
	vr.Reach("end")
}
