package sugardb

// C05 — commands are atomic: two commands executed concurrently (every interleaving of their
// keyspace calls) produce replies and a final value equal to those of one of the two serial orders.
// The serial outcomes are computed by the same real code on fresh servers (no hand-written oracle).

import (
	"context"
	"fmt"
	"net"
	"strconv"
	"strings"
	"time"

	"github.com/echovault/sugardb/internal"
	"github.com/echovault/sugardb/internal/modules/set"
	"github.com/echovault/sugardb/internal/modules/sorted_set"
	vr "github.com/echovault/sugardb/internal/verifrt"
)

// c05Server is a real server whose command handlers see a scheduling point in front of every
// keyspace call (each keyspace call is itself atomic under the store lock). The handlers are
// wrapped in the command table, so the commands still travel the whole of handleCommand.
func c05Server() *SugarDB {
	s := verifServer()
	for i := range s.commands {
		orig := s.commands[i].HandlerFunc
		if orig == nil {
			continue
		}
		s.commands[i].HandlerFunc = func(p internal.HandlerFuncParams) ([]byte, error) {
			ke, gv, ge, sv, se, dk := p.KeysExist, p.GetValues, p.GetExpiry, p.SetValues, p.SetExpiry, p.DeleteKey
			p.KeysExist = func(c context.Context, k []string) map[string]bool { vr.Yield(); return ke(c, k) }
			p.GetValues = func(c context.Context, k []string) map[string]interface{} { vr.Yield(); return gv(c, k) }
			p.GetExpiry = func(c context.Context, k string) time.Time { vr.Yield(); return ge(c, k) }
			p.SetValues = func(c context.Context, e map[string]interface{}) error { vr.Yield(); return sv(c, e) }
			p.SetExpiry = func(c context.Context, k string, t time.Time, touch bool) { vr.Yield(); se(c, k, t, touch) }
			p.DeleteKey = func(c context.Context, k string) error { vr.Yield(); return dk(c, k) }
			return orig(p)
		}
	}
	return s
}

// c05Run executes argv the way an embedded caller does.
func c05Run(s *SugarDB, argv ...string) string {
	reply, err := s.handleCommand(context.Background(), internal.EncodeCommand(argv), nil, false, true)
	if err != nil {
		return "ERR " + err.Error()
	}
	return string(reply)
}

// c05Digest renders the value stored under k.
func c05Digest(s *SugarDB, k string) string {
	e, ok := s.store[0][k]
	if !ok {
		return "<absent>"
	}
	switch v := e.Value.(type) {
	case string:
		return "s:" + v
	case int:
		return "i:" + itoa(v)
	case []string:
		out := "l:"
		for _, x := range v {
			out += "[" + x + "]"
		}
		return out
	case *set.Set:
		return "set:" + itoa(v.Cardinality())
	case map[string]interface{}:
		return "h:" + itoa(len(v))
	}
	return "?"
}

type c05Pair struct {
	pre  func(s *SugarDB, k string)
	cmd1 []string
	cmd2 []string
}

func c05Check(name string, pre func(s *SugarDB, k string), mk1, mk2 func(k string) []string) {
	k := vr.Tok("k")
	a1, a2 := mk1(k), mk2(k)
	// serial order 1;2
	s12 := c05Server()
	pre(s12, k)
	r1a := c05Run(s12, a1...)
	r2a := c05Run(s12, a2...)
	d12 := c05Digest(s12, k)
	// serial order 2;1
	s21 := c05Server()
	pre(s21, k)
	r2b := c05Run(s21, a2...)
	r1b := c05Run(s21, a1...)
	d21 := c05Digest(s21, k)
	// concurrent
	sc := c05Server()
	pre(sc, k)
	var r1, r2 string
	crashed := ""
	func() {
		defer func() {
			if x := recover(); x != nil {
				crashed = fmt.Sprint(x)
			}
		}()
		vr.Go(func() { r2 = c05Run(sc, a2...) })
		r1 = c05Run(sc, a1...)
		vr.Join()
	}()
	vr.Assert(!strings.Contains(crashed, "deadlock"), "C05."+name+".nodeadlock")
	if strings.Contains(crashed, "deadlock") {
		vr.Reach("end")
		return
	}
	vr.Assert(crashed == "", "C05."+name+".nopanic")
	if crashed != "" {
		vr.Reach("end")
		return
	}
	dc := c05Digest(sc, k)
	as12 := r1 == r1a && r2 == r2a && dc == d12
	as21 := r1 == r1b && r2 == r2b && dc == d21
	vr.Assert(as12 || as21, "C05."+name+".equals_some_serial_order")
	vr.Reach("end")
}

func Verif_C05_IncrIncr() {
	n := vr.Int("n")
	vr.Assume(n >= -1000 && n <= 1000)
	c05Check("incr_incr",
		func(s *SugarDB, k string) { verifPreset(s, 0, k, n) },
		func(k string) []string { return []string{"INCR", k} },
		func(k string) []string { return []string{"INCR", k} })
}

func Verif_C05_LPushLPush() {
	e0, x, y := vr.Tok("e0"), vr.Tok("x"), vr.Tok("y")
	c05Check("lpush_lpush",
		func(s *SugarDB, k string) { verifPreset(s, 0, k, []string{e0}) },
		func(k string) []string { return []string{"LPUSH", k, x} },
		func(k string) []string { return []string{"RPUSH", k, y} })
}

func Verif_C05_AppendAppend() {
	v, x, y := vr.Tok("v"), vr.Tok("x"), vr.Tok("y")
	c05Check("append_append",
		func(s *SugarDB, k string) { verifPreset(s, 0, k, v) },
		func(k string) []string { return []string{"APPEND", k, x} },
		func(k string) []string { return []string{"APPEND", k, y} })
}

func Verif_C05_SetNXSetNX() {
	x, y := vr.Tok("x"), vr.Tok("y")
	vr.Assume(x != y)
	c05Check("setnx_setnx",
		func(s *SugarDB, k string) {},
		func(k string) []string { return []string{"SET", k, x, "NX"} },
		func(k string) []string { return []string{"SET", k, y, "NX"} })
}

func Verif_C05_SAddSRem() {
	m := vr.Tok("m")
	c05Check("sadd_srem",
		func(s *SugarDB, k string) { verifPreset(s, 0, k, set.NewSet([]string{m})) },
		func(k string) []string { return []string{"SADD", k, m} },
		func(k string) []string { return []string{"SREM", k, m} })
}

func Verif_C05_HSetHDel() {
	f, v := vr.Tok("f"), vr.Tok("v")
	c05Check("hset_hdel",
		func(s *SugarDB, k string) { verifPreset(s, 0, k, map[string]interface{}{f: "old"}) },
		func(k string) []string { return []string{"HSET", k, f, v} },
		func(k string) []string { return []string{"HDEL", k, f} })
}

func Verif_C05_GetDelSet() {
	v, w := vr.Tok("v"), vr.Tok("w")
	c05Check("getdel_set",
		func(s *SugarDB, k string) { verifPreset(s, 0, k, v) },
		func(k string) []string { return []string{"GETDEL", k} },
		func(k string) []string { return []string{"SET", k, w} })
}

var _ = internal.KeyData{}

// ---- lock order: no two entry points can dead-lock each other ----
//
// Two actions drawn from the entry points that take more than one of the server's locks run
// concurrently; the scheduler may pre-empt a thread at every mutex acquisition (bounded number of
// pre-emptions per path). A cycle of lock waiters is reported as a deadlock.

func c05Action(s *SugarDB, a int, k, v string) {
	ctx := context.WithValue(context.Background(), "Database", 0)
	switch a {
	case 0:
		s.SwapDBs(1, 2)
	case 1:
		c05Run(s, "SELECT", "3")
	case 2:
		_ = s.SelectDB(4)
	case 3:
		c05Run(s, "SET", k, v, "EX", "100")
	case 4:
		c05Run(s, "FLUSHALL")
	case 5:
		s.Flush(-1)
	case 6:
		c05Run(s, "SWAPDB", "5", "6")
	case 7:
		_ = s.getState()
	case 8:
		_ = s.evictKeysWithExpiredTTL(ctx)
	case 9:
		c05Run(s, "GET", k)
	case 10:
		c05Run(s, "EXPIRE", k, "100")
	case 11:
		c05Run(s, "DEL", k)
	}
}

const c05Actions = 12

func c05LockOrder(a1 int, bound int) {
	a2 := vr.Choose("a2", c05Actions)
	k, v := "k", "v"
	s := verifServer()
	verifPreset(s, 0, k, "x")
	verifPresetExpiry(s, 0, k, time.Now().Add(time.Hour))
	vr.PreemptAtLocks(bound)
	crashed := ""
	for round := 0; round < vr.Rounds(40000) && crashed == ""; round++ {
		func() {
			defer func() {
				if x := recover(); x != nil {
					crashed = fmt.Sprint(x)
				}
			}()
			vr.Go(func() { c05Action(s, a2, k, v) })
			c05Action(s, a1, k, v)
			vr.Join()
		}()
	}
	vr.Assert(!strings.Contains(crashed, "deadlock"), "C05.lockorder.nodeadlock")
	if !strings.Contains(crashed, "deadlock") {
		vr.Assert(crashed == "", "C05.lockorder.nopanic")
	}
	vr.Reach("end")
}

func c05Bound() int {
	if vr.Tier() == 1 {
		return 3
	}
	return 2
}

func Verif_C05_LockOrder_SwapDBs()   { c05LockOrder(0, c05Bound()) }
func Verif_C05_LockOrder_Select()    { c05LockOrder(1, c05Bound()) }
func Verif_C05_LockOrder_SelectDB()  { c05LockOrder(2, c05Bound()) }
func Verif_C05_LockOrder_Set()       { c05LockOrder(3, c05Bound()) }
func Verif_C05_LockOrder_FlushAll()  { c05LockOrder(4, c05Bound()) }
func Verif_C05_LockOrder_Flush()     { c05LockOrder(5, c05Bound()) }
func Verif_C05_LockOrder_SwapDBCmd() { c05LockOrder(6, c05Bound()) }
func Verif_C05_LockOrder_GetState()  { c05LockOrder(7, c05Bound()) }
func Verif_C05_LockOrder_Expiry()    { c05LockOrder(8, c05Bound()) }
func Verif_C05_LockOrder_Get()       { c05LockOrder(9, c05Bound()) }
func Verif_C05_LockOrder_Expire()    { c05LockOrder(10, c05Bound()) }
func Verif_C05_LockOrder_Del()       { c05LockOrder(11, c05Bound()) }

// ---- multi-key writes are all-or-nothing ----
//
// MSET under a memory limit (noeviction): whatever the limit and the order in which the batch is
// written, the command either replies OK with every pair stored, or replies with an error and
// stores nothing. A half-applied batch corresponds to no sequential execution.
func Verif_C05_MSetAllOrNothing() { verifMSetAllOrNothing("C05") }

// Verif_C13_FailedMSetChangesNothing: the same scenario under C13 - a multi-key write that fails
// (memory limit reached part-way) has written none of its keys.
func Verif_C13_FailedMSetChangesNothing() { verifMSetAllOrNothing("C13") }

func verifMSetAllOrNothing(tag string) {
	vr.MapOrderND(true)
	max := vr.Int64("max")
	vr.Assume(max >= 1 && max <= 1<<20)
	s := verifServer()
	s.config.MaxMemory = uint64(max)
	used := vr.Int64("used") // memory already accounted for by the rest of the dataset
	vr.Assume(used >= 0 && used <= 1<<20)
	s.memUsed = used
	k1, k2, k3 := vr.Tok("k1"), vr.Tok("k2"), vr.Tok("k3")
	v1, v2, v3 := vr.Tok("v1"), vr.Tok("v2"), vr.Tok("v3")
	vr.Assume(k1 != k2 && k1 != k3 && k2 != k3)
	reply, err, panicked := verifRun(s, "MSET", k1, v1, k2, v2, k3, v3)
	vr.Assert(!panicked, tag+".mset.nopanic")
	if panicked {
		vr.Reach("end")
		return
	}
	n := 0
	for _, k := range []string{k1, k2, k3} {
		if _, ok := s.store[0][k]; ok {
			n++
		}
	}
	if err != nil {
		vr.Assert(n == 0, tag+".mset.error_reply_means_nothing_written")
	} else {
		vr.Assert(string(reply) == "+OK\r\n" && n == 3, tag+".mset.ok_reply_means_all_written")
	}
	vr.Reach("end")
}

// ---- pair matrix: every pair of commands of a family (plus the generic ones) on a shared key ----

func c05Sorted(l []string) []string {
	out := append([]string{}, l...)
	for i := 1; i < len(out); i++ {
		for j := i; j > 0 && out[j] < out[j-1]; j-- {
			out[j], out[j-1] = out[j-1], out[j]
		}
	}
	return out
}

// c05Full renders the whole of database 0 for two key names (value, type, whether volatile).
func c05Full(s *SugarDB, keys ...string) string {
	out := ""
	for _, k := range keys {
		e, ok := s.store[0][k]
		out += k + "="
		if !ok {
			out += "<absent>;"
			continue
		}
		switch v := e.Value.(type) {
		case string:
			out += "s:" + v
		case int:
			out += "i:" + itoa(v)
		case float64:
			out += "f:" + strconv.FormatFloat(v, 'f', -1, 64)
		case []string:
			out += "l:"
			for _, x := range v {
				out += "[" + x + "]"
			}
		case *set.Set:
			out += "set:"
			for _, x := range c05Sorted(v.GetAll()) {
				out += "[" + x + "]"
			}
		case *sorted_set.SortedSet:
			var ms []string
			for _, m := range v.GetAll() {
				ms = append(ms, string(m.Value)+"="+strconv.FormatFloat(float64(m.Score), 'f', -1, 64))
			}
			out += "z:"
			for _, x := range c05Sorted(ms) {
				out += "[" + x + "]"
			}
		case map[string]interface{}:
			var fs []string
			for f, x := range v {
				fs = append(fs, f+"="+fmt.Sprint(x))
			}
			out += "h:"
			for _, x := range c05Sorted(fs) {
				out += "[" + x + "]"
			}
		default:
			out += "?"
		}
		if e.ExpireAt != (time.Time{}) {
			out += " volatile"
		}
		out += ";"
	}
	return out
}

var c05Generic = [][]string{
	{"DEL", "K"}, {"EXPIRE", "K", "100"}, {"PERSIST", "K"}, {"EXISTS", "K"}, {"TYPE", "K"},
	{"RENAME", "K", "K2"}, {"TTL", "K"},
}

var c05Menus = map[string][][]string{
	"string": {
		{"INCR", "K"}, {"DECRBY", "K", "3"}, {"APPEND", "K", "x"}, {"GETDEL", "K"}, {"SET", "K", "y", "NX"},
		{"SET", "K", "77"}, {"SETRANGE", "K", "1", "q"}, {"INCRBYFLOAT", "K", "1.5"}, {"STRLEN", "K"}, {"GET", "K"},
		{"MSET", "K", "5", "K2", "6"}, {"MGET", "K", "K2"},
	},
	"list": {
		{"LPUSH", "K", "x"}, {"RPUSH", "K", "y"}, {"LPOP", "K"}, {"RPOP", "K"}, {"LSET", "K", "0", "z"},
		{"LTRIM", "K", "0", "1"}, {"LREM", "K", "0", "a"}, {"LLEN", "K"}, {"LRANGE", "K", "0", "-1"}, {"LINDEX", "K", "0"},
		{"LMOVE", "K", "K2", "LEFT", "RIGHT"}, {"LPUSHX", "K", "w"},
	},
	"hash": {
		{"HSET", "K", "f", "9"}, {"HDEL", "K", "f"}, {"HINCRBY", "K", "g", "5"}, {"HSETNX", "K", "h", "1"},
		{"HGETALL", "K"}, {"HLEN", "K"}, {"HGET", "K", "f"}, {"HINCRBYFLOAT", "K", "g", "0.5"}, {"HEXISTS", "K", "f"},
	},
	"set": {
		{"SADD", "K", "c"}, {"SREM", "K", "a"}, {"SCARD", "K"}, {"SISMEMBER", "K", "a"}, {"SMOVE", "K", "K2", "a"},
		{"SADD", "K", "a", "d"}, {"SINTERSTORE", "K2", "K", "K"}, {"SUNIONSTORE", "K", "K", "K2"}, {"SDIFFSTORE", "K2", "K", "K2"},
	},
	"zset": {
		{"ZADD", "K", "5", "c"}, {"ZINCRBY", "K", "2", "a"}, {"ZREM", "K", "a"}, {"ZPOPMIN", "K"}, {"ZCARD", "K"},
		{"ZSCORE", "K", "a"}, {"ZADD", "K", "NX", "9", "a"}, {"ZPOPMAX", "K"}, {"ZREMRANGEBYSCORE", "K", "0", "1"},
	},
}

func c05PresetFamily(s *SugarDB, family, k string) {
	switch family {
	case "string":
		verifPreset(s, 0, k, "10")
	case "list":
		verifPreset(s, 0, k, []string{"a", "b", "c"})
	case "hash":
		verifPreset(s, 0, k, map[string]interface{}{"f": "1", "g": "2"})
	case "set":
		verifPreset(s, 0, k, set.NewSet([]string{"a", "b"}))
	case "zset":
		verifPreset(s, 0, k, sorted_set.NewSortedSet([]sorted_set.MemberParam{{Value: "a", Score: 1}, {Value: "b", Score: 2}}))
	}
}

func c05Subst(t []string, k, k2 string) []string {
	out := make([]string, len(t))
	for i, a := range t {
		switch a {
		case "K":
			out[i] = k
		case "K2":
			out[i] = k2
		default:
			out[i] = a
		}
	}
	return out
}

// c05Pairs: the first command is drawn from [lo,hi) of the family menu followed by the generic
// commands, the second from the whole of it; quick explores unordered pairs only.
func c05Pairs(family string, lo, hi int) {
	menu := append(append([][]string{}, c05Menus[family]...), c05Generic...)
	if hi > len(menu) {
		hi = len(menu)
	}
	i1 := lo + vr.Choose("c1", hi-lo)
	i2 := vr.Choose("c2", len(menu))
	if vr.Tier() == 0 {
		vr.Assume(i2 <= i1)
	}
	k, k2 := "key", "other"
	a1, a2 := c05Subst(menu[i1], k, k2), c05Subst(menu[i2], k, k2)
	run := func(order int) (string, string, string) {
		s := c05Server()
		c05PresetFamily(s, family, k)
		var r1, r2 string
		switch order {
		case 0:
			r1 = c05Run(s, a1...)
			r2 = c05Run(s, a2...)
		case 1:
			r2 = c05Run(s, a2...)
			r1 = c05Run(s, a1...)
		default:
			vr.Go(func() { r2 = c05Run(s, a2...) })
			r1 = c05Run(s, a1...)
			vr.Join()
		}
		return r1, r2, c05Full(s, k, k2)
	}
	r1a, r2a, da := run(0)
	r1b, r2b, db := run(1)
	crashed := ""
	var r1, r2, dc string
	func() {
		defer func() {
			if x := recover(); x != nil {
				crashed = fmt.Sprint(x)
			}
		}()
		r1, r2, dc = run(2)
	}()
	vr.Assert(!strings.Contains(crashed, "deadlock"), "C05.pairs_"+family+".nodeadlock")
	if !strings.Contains(crashed, "deadlock") {
		vr.Assert(crashed == "", "C05.pairs_"+family+".nopanic")
	}
	if crashed == "" {
		s12 := r1 == r1a && r2 == r2a && dc == da
		s21 := r1 == r1b && r2 == r2b && dc == db
		vr.Assert(s12 || s21, "C05.pairs_"+family+".equals_some_serial_order")
	}
	vr.Reach("end")
}

func Verif_C05_Pairs_String_A() { c05Pairs("string", 0, 6) }
func Verif_C05_Pairs_String_B() { c05Pairs("string", 6, 12) }
func Verif_C05_Pairs_String_C() { c05Pairs("string", 12, 99) }
func Verif_C05_Pairs_List_A()   { c05Pairs("list", 0, 6) }
func Verif_C05_Pairs_List_B()   { c05Pairs("list", 6, 12) }
func Verif_C05_Pairs_List_C()   { c05Pairs("list", 12, 99) }
func Verif_C05_Pairs_Hash_A()   { c05Pairs("hash", 0, 5) }
func Verif_C05_Pairs_Hash_B()   { c05Pairs("hash", 5, 9) }
func Verif_C05_Pairs_Hash_C()   { c05Pairs("hash", 9, 99) }
func Verif_C05_Pairs_Set_A()    { c05Pairs("set", 0, 5) }
func Verif_C05_Pairs_Set_B()    { c05Pairs("set", 5, 9) }
func Verif_C05_Pairs_Set_C()    { c05Pairs("set", 9, 99) }
func Verif_C05_Pairs_ZSet_A()   { c05Pairs("zset", 0, 5) }
func Verif_C05_Pairs_ZSet_B()   { c05Pairs("zset", 5, 9) }
func Verif_C05_Pairs_ZSet_C()   { c05Pairs("zset", 9, 99) }

// ---- background actors keep running after any command, failed ones included ----
//
// After one command of any outcome (success, wrong type, bad arguments, refused option) issued on its
// own, every actor that has to wait for commands to finish — the state copy that snapshots and log
// rewrites take, a flush, the expiry cycle, another write — still runs to completion: a command that
// fails must not leave a lock held or an "in progress" mark set.
func Verif_C05_ActorsRunAfterAnyCommand() {
	s := verifServer()
	verifPreset(s, 0, "k", "x")
	verifPreset(s, 0, "l", []string{"a"})
	cmds := [][]string{
		{"INCR", "k"},                // not an integer
		{"LPUSH", "k", "v"},          // wrong type
		{"SET", "k"},                 // too few arguments
		{"HSET", "k", "f"},           // odd field/value list
		{"RENAME", "nokey", "other"}, // no such key
		{"SET", "k", "v", "NX"},      // refused by the option
		{"EXPIRE", "k", "abc"},       // bad number
		{"LPOP", "l", "zz"},          // bad count
		{"SET", "k", "v"},            // succeeds
		{"DEL", "k"},                 // succeeds
		{"GET", "l"},                 // read of the wrong type
		{"NOSUCHCOMMAND", "k"},       // unknown command
	}
	c05Run(s, cmds[vr.Choose("cmd", len(cmds))]...)
	actor := vr.Choose("actor", 5)
	crashed := ""
	func() {
		defer func() {
			if x := recover(); x != nil {
				crashed = fmt.Sprint(x)
			}
		}()
		vr.Go(func() {
			switch actor {
			case 0:
				_ = s.getState()
			case 1:
				s.Flush(-1)
			case 2:
				_ = s.evictKeysWithExpiredTTL(verifCtx(0))
			case 3:
				c05Run(s, "SET", "k2", "v2")
			case 4:
				c05Run(s, "GET", "k")
			}
		})
		vr.Join()
	}()
	vr.Assert(!strings.Contains(crashed, "deadlock"), "C05.after_any_command.nodeadlock")
	if !strings.Contains(crashed, "deadlock") {
		vr.Assert(crashed == "", "C05.after_any_command.nopanic")
	}
	vr.Reach("end")
}

// ---- the background expiry pass against a concurrent write ----
//
// One pass of the expiry cycle over a key whose deadline has passed runs next to a client command on
// that key (a plain SET, which gives it a value without deadline; PERSIST-like GETEX; a SET with a new
// deadline in the future), with a pre-emption possible at every lock acquisition. Whatever the
// interleaving, the outcome is that of one of the two serial orders: in both of them the key exists
// afterwards with the client's value - the pass may only remove a key that is expired at the moment
// it removes it.
func Verif_C05_ExpiryPassVersusWrite() { verifExpiryPassVersusWrite("C05") }

// Verif_C04_ExpiryPassVersusWrite: the same scenario under C04 - expiry never removes a key that, at
// the moment it is removed, has no deadline or one that has not passed.
func Verif_C04_ExpiryPassVersusWrite() { verifExpiryPassVersusWrite("C04") }

func verifExpiryPassVersusWrite(tag string) {
	write := vr.Choose("write", 3)
	vr.PreemptAtLocks(c05Bound())
	t0 := time.UnixMilli(1_700_000_000_000)
	k, other := "k", "other"
	crashed, reply, dk, do := "", "", "", ""
	wantK := "s:new"
	if write == 1 {
		wantK = "s:new@1700003600000"
	}
	wantOther := "s:x@" + itoa(int(t0.Add(time.Hour).UnixMilli()))
	// natively the interleaving is left to the scheduler: the scenario is repeated on fresh servers until
	// an outcome outside the serial ones shows up (one round under the symbolic executor, where the
	// interleaving is a solver-named choice)
	for round := 0; round < vr.Rounds(3000); round++ {
		s := verifServer()
		s.clock = verifClock{now: &t0}
		s.config.EvictionSample = 20
		verifPreset(s, 0, k, "old")
		verifPresetExpiry(s, 0, k, t0.Add(-time.Second)) // already expired, not yet removed
		verifPreset(s, 0, other, "x")
		verifPresetExpiry(s, 0, other, t0.Add(time.Hour))
		func() {
			defer func() {
				if x := recover(); x != nil {
					crashed = fmt.Sprint(x)
				}
			}()
			vr.Go(func() { _ = s.evictKeysWithExpiredTTL(verifCtx(0)) })
			switch write {
			case 0:
				reply = c05Run(s, "SET", k, "new")
			case 1:
				reply = c05Run(s, "SET", k, "new", "PXAT", "1700003600000")
			case 2:
				reply = c05Run(s, "MSET", k, "new", "k2", "v2")
			}
			vr.Join()
		}()
		dk, do = c09Digest(s, 0, k), c09Digest(s, 0, other)
		if crashed != "" || reply != "+OK\r\n" || dk != wantK || do != wantOther {
			break
		}
	}
	vr.Assert(!strings.Contains(crashed, "deadlock"), tag+".expiry_vs_write.nodeadlock")
	if crashed != "" {
		vr.Reach("end")
		return
	}
	vr.Assert(reply == "+OK\r\n", tag+".expiry_vs_write.write_acknowledged")
	vr.Assert(dk == wantK, tag+".expiry_vs_write.acknowledged_write_survives_the_pass")
	vr.Assert(do == wantOther, tag+".expiry_vs_write.live_key_untouched")
	vr.Reach("end")
}

// ---- a reader that meets an expired entry while another client writes the key ----
//
// The key holds a value whose deadline has passed but which has not been collected. One client runs
// a command that reads it (and so triggers its lazy removal, wherever the implementation does that:
// inline or in a goroutine it starts), another client writes the key again - with or without a new
// deadline. Whatever the interleaving (including when the goroutines started by the reader run), the
// replies and the final entry are those of one of the two serial orders: the acknowledged write is
// not lost to the removal of the *old* entry.
func Verif_C05_ReadOfExpiredVersusWrite() {
	readers := [][]string{{"MGET", "k"}, {"GET", "k"}, {"INCR", "k"}, {"STRLEN", "k"}, {"EXISTS", "k"}, {"TTL", "k"}, {"SISMEMBER", "k", "m"}, {"LLEN", "k"}}
	writers := [][]string{{"SET", "k", "new", "EX", "100"}, {"SET", "k", "new"}, {"SET", "k", "7", "PXAT", "1700003600000"}, {"MSET", "k", "new"}}
	rd := readers[vr.Choose("reader", len(readers))]
	wr := writers[vr.Choose("writer", len(writers))]
	vr.PreemptAtLocks(c05Bound())
	t0 := time.UnixMilli(1_700_000_000_000)
	mk := func() *SugarDB {
		s := verifServer()
		s.clock = verifClock{now: &t0}
		verifPreset(s, 0, "k", "old")
		verifPresetExpiry(s, 0, "k", t0.Add(-time.Second)) // expired, not yet removed
		return s
	}
	// the two serial orders
	sa := mk()
	r1a := c05Run(sa, rd...)
	r2a := c05Run(sa, wr...)
	vr.Quiesce()
	da := c09Digest(sa, 0, "k")
	sb := mk()
	r2b := c05Run(sb, wr...)
	r1b := c05Run(sb, rd...)
	vr.Quiesce()
	db := c09Digest(sb, 0, "k")
	crashed, r1, r2, dc := "", "", "", ""
	for round := 0; round < vr.Rounds(600); round++ {
		s := mk()
		func() {
			defer func() {
				if x := recover(); x != nil {
					crashed = fmt.Sprint(x)
				}
			}()
			vr.Go(func() { r2 = c05Run(s, wr...) })
			r1 = c05Run(s, rd...)
			vr.Join()
			vr.Quiesce()
		}()
		dc = c09Digest(s, 0, "k")
		if crashed != "" || !((r1 == r1a && r2 == r2a && dc == da) || (r1 == r1b && r2 == r2b && dc == db)) {
			break
		}
	}
	vr.Assert(!strings.Contains(crashed, "deadlock"), "C05.expired_read_vs_write.nodeadlock")
	if crashed != "" {
		vr.Reach("end")
		return
	}
	vr.Assert((r1 == r1a && r2 == r2a && dc == da) || (r1 == r1b && r2 == r2b && dc == db), "C05.expired_read_vs_write.equals_some_serial_order")
	vr.Reach("end")
}

// ---- commands of clients on different databases ----
//
// A client on database 1 runs a read-then-write command while a client on database 0 runs a command
// that reaches across databases (FLUSHALL, SWAPDB 0 1) or into its own one (SET): every interleaving of
// their keyspace calls gives the replies and the contents of both databases of one of the two serial orders.
func Verif_C05_ClientsOnDifferentDatabases() {
	n := vr.Int("n")
	vr.Assume(n >= -1000 && n <= 1000)
	first := [][]string{{"INCR", "k"}, {"APPEND", "k", "x"}, {"RENAME", "k", "k2"}}[vr.Choose("first", 3)]
	second := [][]string{{"FLUSHALL"}, {"SWAPDB", "0", "1"}, {"SET", "k", "zero"}, {"FLUSHDB"}}[vr.Choose("second", 4)]
	run := func(s *SugarDB, conn *net.Conn, argv []string) string {
		reply, err, _ := verifRunTCP(s, conn, argv...)
		if err != nil {
			return "ERR"
		}
		return string(reply)
	}
	mk := func() (*SugarDB, *net.Conn, *net.Conn) {
		s := c05Server()
		verifPreset(s, 1, "k", n)
		verifPreset(s, 0, "other", "o")
		return s, verifTCPConn(s, 1), verifTCPConn(s, 0)
	}
	view := func(s *SugarDB) string { return c07View(s, []int{0, 1}, "k", "k2", "other") }
	s12, a12, b12 := mk()
	r1a := run(s12, a12, first)
	r2a := run(s12, b12, second)
	d12 := view(s12)
	s21, a21, b21 := mk()
	r2b := run(s21, b21, second)
	r1b := run(s21, a21, first)
	d21 := view(s21)
	sc, ac, bc := mk()
	var r1, r2 string
	crashed := ""
	func() {
		defer func() {
			if x := recover(); x != nil {
				crashed = fmt.Sprint(x)
			}
		}()
		vr.Go(func() { r2 = run(sc, bc, second) })
		r1 = run(sc, ac, first)
		vr.Join()
	}()
	vr.Assert(!strings.Contains(crashed, "deadlock"), "C05.cross_database.nodeadlock")
	if crashed != "" {
		vr.Reach("end")
		return
	}
	dc := view(sc)
	as12 := r1 == r1a && r2 == r2a && dc == d12
	as21 := r1 == r1b && r2 == r2b && dc == d21
	vr.Assert(as12 || as21, "C05.cross_database.equals_some_serial_order")
	vr.Reach("end")
}
