package sugardb

// C06(b) key extraction is complete: every key a handler touches is declared by the command's
// KeyExtractionFunc (reads under Read/WriteKeys, writes under WriteKeys).
// C06(c) the dispatcher gate: a command the ACL denies is not executed and changes nothing;
// only AUTH, HELLO, PING and ECHO are exempt.

import (
	"context"
	"slices"
	"strconv"
	"strings"
	"time"

	"github.com/echovault/sugardb/internal/config"
	"github.com/echovault/sugardb/internal/constants"
	"github.com/echovault/sugardb/internal/modules/acl"
	vr "github.com/echovault/sugardb/internal/verifrt"
)

func c06KeyExtraction(module string, preferKind int) {
	gConcreteScores = true
	s := verifServer()
	cmds := c13Commands(s, module)
	c := cmds[vr.Choose("cmd", len(cmds))]
	k1, k2, k3 := vr.Tok("k1"), vr.Tok("k2"), vr.Tok("k3")
	vr.Assume(k1 != k2 && k1 != k3 && k2 != k3)
	p1 := gSym("p1", preferKind, 1)
	gStoreIn(s, 0, k1, p1)
	p2 := gVal{kind: gAbsent}
	if vr.Choose("p2", 2) == 1 {
		p2 = gSym("p2", preferKind, 1)
		gStoreIn(s, 0, k2, p2)
	}
	x := vr.Tok("x")
	if gByteStrings > 0 {
		x = gBytes("xb", 1)
	}
	n := vr.Int("n")
	vr.Assume(n >= -1 && n <= 1)
	var argv []string
	switch vr.Choose("shape", 7) {
	case 0:
		argv = []string{c.Command, k1}
	case 1:
		argv = []string{c.Command, k1, k2}
	case 2:
		argv = []string{c.Command, k1, x}
	case 3:
		argv = []string{c.Command, k1, k2, k3}
	case 4:
		argv = []string{c.Command, k1, strconv.Itoa(n), x}
	case 5:
		argv = []string{c.Command, k1, k2, x}
	case 6:
		argv = []string{c.Command, k1, x, x}
	}
	keys, err := c.KeyExtractionFunc(argv)
	if err != nil {
		vr.Reach("end")
		return
	}
	ctx := context.WithValue(context.Background(), "Database", 0)
	ctx = context.WithValue(ctx, "Protocol", 2)
	params := s.getHandlerFuncParams(ctx, argv, nil)
	// the gate consults the extraction result before the handler runs: freeze it (some handlers
	// rewrite their own argument vector, which the extracted slices alias)
	readKeys := append([]string{}, keys.ReadKeys...)
	writeKeys := append([]string{}, keys.WriteKeys...)
	declaredRead := func(k string) bool { return slices.Contains(readKeys, k) || slices.Contains(writeKeys, k) }
	declaredWrite := func(k string) bool { return slices.Contains(writeKeys, k) }
	ob := "C06.keyfunc." + module
	keysExist, getValues, getExpiry := params.KeysExist, params.GetValues, params.GetExpiry
	setValues, setExpiry, deleteKey := params.SetValues, params.SetExpiry, params.DeleteKey
	params.KeysExist = func(ctx context.Context, ks []string) map[string]bool {
		for _, k := range ks {
			vr.Assert(declaredRead(k), ob+".read_key_is_declared")
		}
		return keysExist(ctx, ks)
	}
	params.GetValues = func(ctx context.Context, ks []string) map[string]interface{} {
		for _, k := range ks {
			vr.Assert(declaredRead(k), ob+".read_key_is_declared")
		}
		return getValues(ctx, ks)
	}
	params.GetExpiry = func(ctx context.Context, k string) time.Time {
		vr.Assert(declaredRead(k), ob+".read_key_is_declared")
		return getExpiry(ctx, k)
	}
	params.SetValues = func(ctx context.Context, entries map[string]interface{}) error {
		for k := range entries {
			vr.Assert(declaredWrite(k), ob+".written_key_is_declared_as_write_key")
		}
		return setValues(ctx, entries)
	}
	params.SetExpiry = func(ctx context.Context, k string, t time.Time, touch bool) {
		vr.Assert(declaredWrite(k), ob+".written_key_is_declared_as_write_key")
		setExpiry(ctx, k, t, touch)
	}
	params.DeleteKey = func(ctx context.Context, k string) error {
		vr.Assert(declaredWrite(k), ob+".written_key_is_declared_as_write_key")
		return deleteKey(ctx, k)
	}
	func() {
		defer func() { recover() }()
		c.HandlerFunc(params)
	}()
	// a handler may also change a stored collection in place, through the value it was handed by
	// GetValues, without any write call: whatever key holds something else than before must have been
	// declared as a write key
	if !gHolds(s, k1, p1) {
		vr.Assert(declaredWrite(k1), ob+".changed_key_is_declared_as_write_key")
	}
	if !gHolds(s, k2, p2) {
		vr.Assert(declaredWrite(k2), ob+".changed_key_is_declared_as_write_key")
	}
	if _, created := s.store[0][k3]; created {
		vr.Assert(declaredWrite(k3), ob+".changed_key_is_declared_as_write_key")
	}
	vr.Reach("end")
}

func Verif_C06_KeyFunc_Generic() { c06KeyExtraction(constants.GenericModule, gStr) }
func Verif_C06_KeyFunc_String()  { gByteStrings = 2; c06KeyExtraction(constants.StringModule, gStr) }
func Verif_C06_KeyFunc_Hash()    { c06KeyExtraction(constants.HashModule, gHash) }
func Verif_C06_KeyFunc_List()    { c06KeyExtraction(constants.ListModule, gList) }
func Verif_C06_KeyFunc_Set()     { c06KeyExtraction(constants.SetModule, gSet) }
func Verif_C06_KeyFunc_SortedSet_A() {
	gCmdPart, gCmdParts = 0, 2
	c06KeyExtraction(constants.SortedSetModule, gZSet)
}
func Verif_C06_KeyFunc_SortedSet_B() {
	gCmdPart, gCmdParts = 1, 2
	c06KeyExtraction(constants.SortedSetModule, gZSet)
}

// Verif_C06_Gate: a connection whose user is denied everything gets an error for every
// registered command and subcommand except the handshake commands, and nothing changes.
func Verif_C06_Gate() {
	s, err := NewSugarDB(WithConfig(config.Config{DataDir: "", EvictionPolicy: constants.NoEviction, RequirePass: true, Password: "pw"}))
	if err != nil {
		panic("verif: constructor")
	}
	// a user whose rules exclude every command
	u := acl.CreateUser("locked")
	u.Enabled = true
	u.NoPassword = true
	u.ExcludedCommands = []string{"*"}
	u.Normalise()
	a := s.acl
	a.Users = append(a.Users, u)
	a.CompileGlobs()
	conn := verifTCPConn(s, 0)
	authenticated := vr.Choose("authenticated", 2) == 1
	a.Connections[conn] = acl.Connection{Authenticated: authenticated, User: u}
	k := vr.Tok("k")
	v := vr.Tok("v")
	verifPreset(s, 0, k, v)
	// every command and subcommand of the table
	type entry struct{ cmd, sub string }
	var all []entry
	for _, c := range s.commands {
		if len(c.SubCommands) == 0 {
			all = append(all, entry{c.Command, ""})
		}
		for _, sc := range c.SubCommands {
			all = append(all, entry{c.Command, sc.Command})
		}
	}
	e := all[vr.Choose("cmd", len(all))]
	x := vr.Tok("x")
	argv := []string{e.cmd}
	if e.sub != "" {
		argv = append(argv, e.sub)
	}
	switch vr.Choose("shape", 4) {
	case 0:
	case 1:
		argv = append(argv, k)
	case 2:
		argv = append(argv, k, x)
	case 3:
		argv = append(argv, k, "1", x)
	}
	nUsers := len(a.Users)
	nConns := len(a.Connections)
	reply, herr, panicked := verifRunTCP(s, conn, argv...)
	vr.Assert(!panicked, "C06.gate.nopanic")
	if panicked {
		return
	}
	exempt := slices.Contains([]string{"auth", "hello", "ping", "echo"}, strings.ToLower(e.cmd))
	if !exempt {
		vr.Assert(herr != nil && reply == nil, "C06.gate.denied_command_returns_error")
		vr.Assert(gHolds(s, k, gVal{kind: gStr, str: v}) && len(s.store[0]) == 1 && len(s.store) == 1, "C06.gate.denied_command_changes_no_data")
		info := s.connInfo.tcpClients[conn]
		vr.Assert(info.Database == 0 && info.Protocol == 2 && info.Name == "", "C06.gate.denied_command_changes_no_connection_state")
		vr.Assert(len(a.Users) == nUsers && len(a.Connections) == nConns && a.Connections[conn].User == u && a.Connections[conn].Authenticated == authenticated, "C06.gate.denied_command_changes_no_acl_state")
		vr.Assert(len(s.pubSub.GetAllChannels()) == 0, "C06.gate.denied_command_changes_no_subscriptions")
	}
	vr.Reach("end")
}
