package sugardb

// C04 — expiry: keys live exactly until their deadline, then are unobservable.
// Time is symbolic: the server clock and every deadline are arbitrary millisecond instants.

import (
	"strconv"
	"time"

	"github.com/echovault/sugardb/internal/modules/set"
	ss "github.com/echovault/sugardb/internal/modules/sorted_set"
	vr "github.com/echovault/sugardb/internal/verifrt"
)

const (
	msLo = 1_000_000_000_000 // 2001
	msHi = 4_000_000_000_000 // 2096
)

// symInstant is an arbitrary instant with millisecond resolution between 2001 and 2096.
func symInstant(name string) (time.Time, int64) {
	ms := vr.Int64(name)
	vr.Assume(ms >= msLo && ms <= msHi)
	return time.UnixMilli(ms), ms
}

// symInstantSec is an arbitrary whole-second instant (used where a reply is in seconds, so that no
// 64-bit division has to be decided).
func symInstantSec(name string) (time.Time, int64) {
	sec := vr.Int64(name + "_s")
	vr.Assume(sec >= msLo/1000 && sec <= msHi/1000)
	return time.Unix(sec, 0), sec * 1000
}

// c04Server: real server whose clock is a harness-controlled instant.
func c04Server() (*SugarDB, *time.Time, int64) { return c04ServerG(false) }

func c04ServerG(seconds bool) (*SugarDB, *time.Time, int64) {
	s := verifServer()
	var now time.Time
	var nowMs int64
	if seconds {
		now, nowMs = symInstantSec("now")
	} else {
		now, nowMs = symInstant("now")
	}
	cell := new(time.Time)
	*cell = now
	s.clock = verifClock{now: cell}
	return s, cell, nowMs
}

// c04Deadline reads the stored deadline of k in ms (ok=false: no deadline or no key).
func c04Deadline(s *SugarDB, k string) (int64, bool, bool) {
	e, ok := s.store[0][k]
	if !ok {
		return 0, false, false
	}
	if e.ExpireAt == (time.Time{}) {
		return 0, false, true
	}
	return e.ExpireAt.UnixMilli(), true, true
}

const (
	oGet = iota
	oMGet
	oType
	oTTL
	oPTTL
	oExpireTime
	oPExpireTime
	oStrLen
	oSetNX
	oSetXX
	oGetDel
	oLLen
	oLPushX
	oHLen
	oSCard
	oZCard
	oCount
)

// Verif_C04_Observers: a key with a deadline is served unchanged up to the deadline and is
// unobservable after it, for every observer, without any background expiry having run.
func Verif_C04_Observers() {
	obs := vr.Choose("obs", oCount)
	inSeconds := obs == oTTL || obs == oExpireTime
	s, _, nowMs := c04ServerG(inSeconds)
	k := vr.Tok("k")
	var dl time.Time
	var dlMs int64
	if inSeconds {
		dl, dlMs = symInstantSec("dl")
	} else {
		dl, dlMs = symInstant("dl")
	}
	v := vr.Tok("v")
	var reply []byte
	var err error
	var panicked bool
	switch {
	case obs <= oGetDel:
		verifPreset(s, 0, k, v)
	case obs <= oLPushX:
		verifPreset(s, 0, k, []string{v})
	case obs == oHLen:
		verifPreset(s, 0, k, map[string]interface{}{"f": v})
	case obs == oSCard:
		verifPreset(s, 0, k, set.NewSet([]string{v}))
	case obs == oZCard:
		verifPreset(s, 0, k, ss.NewSortedSet([]ss.MemberParam{{Value: ss.Value(v), Score: 1}}))
	}
	verifPresetExpiry(s, 0, k, dl)
	expired := dlMs < nowMs
	w := vr.Tok("w")
	switch obs {
	case oGet:
		reply, err, panicked = verifRun(s, "GET", k)
	case oMGet:
		reply, err, panicked = verifRun(s, "MGET", k)
	case oType:
		reply, err, panicked = verifRun(s, "TYPE", k)
	case oTTL:
		reply, err, panicked = verifRun(s, "TTL", k)
	case oPTTL:
		reply, err, panicked = verifRun(s, "PTTL", k)
	case oExpireTime:
		reply, err, panicked = verifRun(s, "EXPIRETIME", k)
	case oPExpireTime:
		reply, err, panicked = verifRun(s, "PEXPIRETIME", k)
	case oStrLen:
		reply, err, panicked = verifRun(s, "STRLEN", k)
	case oSetNX:
		reply, err, panicked = verifRun(s, "SET", k, w, "NX")
	case oSetXX:
		reply, err, panicked = verifRun(s, "SET", k, w, "XX")
	case oGetDel:
		reply, err, panicked = verifRun(s, "GETDEL", k)
	case oLLen:
		reply, err, panicked = verifRun(s, "LLEN", k)
	case oLPushX:
		reply, err, panicked = verifRun(s, "LPUSHX", k, w)
	case oHLen:
		reply, err, panicked = verifRun(s, "HLEN", k)
	case oSCard:
		reply, err, panicked = verifRun(s, "SCARD", k)
	case oZCard:
		reply, err, panicked = verifRun(s, "ZCARD", k)
	}
	vr.Assert(!panicked, "C04.observer.nopanic")
	if panicked {
		return
	}
	r := vr.Decode(reply)
	if expired {
		ob := "C04.expired_is_absent." + strconv.Itoa(obs)
		switch obs {
		case oGet, oGetDel:
			vr.Assert(err == nil && r.OK && r.Null, ob)
		case oMGet:
			vr.Assert(err == nil && r.OK && r.Kind == '*' && len(r.Elems) == 1 && r.Elems[0].Null, ob)
		case oType:
			vr.Assert(err != nil || (r.OK && r.Str == "none"), ob)
		case oTTL, oPTTL, oExpireTime, oPExpireTime:
			vr.Assert(err == nil && r.OK && r.Kind == ':' && r.Int == -2, ob)
		case oStrLen, oLLen, oHLen, oSCard, oZCard:
			vr.Assert(err == nil && r.OK && r.Kind == ':' && r.Int == 0, ob)
		case oSetNX:
			// the key is missing: NX writes it, and the new value has no deadline
			vr.Assert(err == nil && isOK(reply), ob)
			_, has, exists := c04Deadline(s, k)
			vr.Assert(exists && !has, "C04.no_inherited_deadline.setnx")
			g, e2, _ := verifRun(s, "GET", k)
			vr.Assert(e2 == nil && isStringReply(g, w), "C04.write_after_expiry_is_served.setnx")
		case oSetXX:
			vr.Assert(err != nil || (r.OK && r.Null), ob)
			g, e2, _ := verifRun(s, "GET", k)
			vr.Assert(e2 == nil && isNilReply(g), "C04.setxx_on_expired_writes_nothing")
		case oLPushX:
			vr.Assert(err != nil || (r.OK && r.Kind == ':' && r.Int == 0), ob)
		}
	} else {
		ob := "C04.served_until_deadline." + strconv.Itoa(obs)
		switch obs {
		case oGet, oGetDel:
			vr.Assert(err == nil && isStringReply(reply, v), ob)
		case oMGet:
			vr.Assert(err == nil && r.OK && r.Kind == '*' && len(r.Elems) == 1 && r.Elems[0].Str == v && !r.Elems[0].Null, ob)
		case oType:
			vr.Assert(err == nil && r.OK && r.Str == "string", ob)
		case oPTTL:
			vr.Assert(err == nil && r.OK && r.Kind == ':' && r.Int == dlMs-nowMs, ob)
		case oTTL:
			vr.Assert(err == nil && r.OK && r.Kind == ':' && r.Int*1000 == dlMs-nowMs, ob)
		case oExpireTime:
			vr.Assert(err == nil && r.OK && r.Kind == ':' && r.Int*1000 == dlMs, ob)
		case oPExpireTime:
			vr.Assert(err == nil && r.OK && r.Kind == ':' && r.Int == dlMs, ob)
		case oStrLen:
			vr.Assert(err == nil && r.OK && r.Kind == ':' && r.Int == int64(len(v)), ob)
		case oLLen, oHLen, oSCard, oZCard:
			vr.Assert(err == nil && r.OK && r.Kind == ':' && r.Int == 1, ob)
		case oSetNX:
			vr.Assert(err != nil || (r.OK && r.Null), ob)
			g, e2, _ := verifRun(s, "GET", k)
			vr.Assert(e2 == nil && isStringReply(g, v), "C04.setnx_on_live_key_writes_nothing")
		case oSetXX:
			vr.Assert(err == nil && isOK(reply), ob)
		case oLPushX:
			vr.Assert(err == nil && r.OK && r.Kind == ':' && r.Int == 2, ob)
		}
		if obs != oSetXX && obs != oGetDel && obs != oLPushX {
			d, has, exists := c04Deadline(s, k)
			vr.Assert(exists && has && d == dlMs, "C04.live_key_keeps_deadline")
		}
	}
	vr.Reach("end")
}

// Verif_C04_NoInheritance: a value written after expiry under the same name has the deadline
// that write specifies (none for a plain SET), and is served.
func Verif_C04_NoInheritance() {
	s, _, nowMs := c04Server()
	k := vr.Tok("k")
	dl, dlMs := symInstant("dl")
	vr.Assume(dlMs < nowMs)
	verifPreset(s, 0, k, vr.Tok("old"))
	verifPresetExpiry(s, 0, k, dl)
	w := vr.Tok("w")
	which := vr.Choose("writer", 4)
	var err error
	var panicked bool
	switch which {
	case 0:
		_, err, panicked = verifRun(s, "SET", k, w)
	case 1:
		_, err, panicked = verifRun(s, "MSET", k, w)
	case 2:
		_, err, panicked = verifRun(s, "APPEND", k, w)
	case 3:
		_, err, panicked = verifRun(s, "LPUSH", k, w)
	}
	vr.Assert(!panicked && err == nil, "C04.rewrite_after_expiry.noerror")
	if panicked || err != nil {
		return
	}
	_, has, exists := c04Deadline(s, k)
	vr.Assert(exists && !has, "C04.rewrite_after_expiry.no_deadline")
	switch which {
	case 0, 1, 2:
		g, e2, _ := verifRun(s, "GET", k)
		vr.Assert(e2 == nil && isStringReply(g, w), "C04.rewrite_after_expiry.served")
	case 3:
		g, e2, _ := verifRun(s, "LRANGE", k, "0", "-1")
		vr.Assert(e2 == nil && string(g) == encBulkArray([]string{w}), "C04.rewrite_after_expiry.served_list")
	}
	vr.Reach("end")
}

// c04Pre installs a string key with an optional deadline and returns (hasDeadline, deadlineMs).
func c04Pre(s *SugarDB, k string) (bool, int64) {
	verifPreset(s, 0, k, vr.Tok("v0"))
	if vr.Choose("has_dl", 2) == 1 {
		dl, dlMs := symInstant("dl")
		verifPresetExpiry(s, 0, k, dl)
		return true, dlMs
	}
	return false, 0
}

// Verif_C04_ExpireOptions: EXPIRE / PEXPIRE / EXPIREAT / PEXPIREAT with NX XX GT LT, and PERSIST,
// against the documented truth table, on a live key.
func Verif_C04_ExpireOptions() {
	s, _, nowMs := c04Server()
	k := vr.Tok("k")
	has, cur := c04Pre(s, k)
	if has {
		vr.Assume(cur >= nowMs) // the key is live
	}
	cmd := vr.Choose("cmd", 5) // EXPIRE PEXPIRE EXPIREAT PEXPIREAT PERSIST
	if cmd == 4 {
		reply, err, panicked := verifRun(s, "PERSIST", k)
		vr.Assert(!panicked && err == nil, "C04.persist.noerror")
		if panicked || err != nil {
			return
		}
		want := 0
		if has {
			want = 1
		}
		vr.Assert(isIntReply(reply, want), "C04.persist.reply")
		_, has2, exists := c04Deadline(s, k)
		vr.Assert(exists && !has2, "C04.persist.cleared")
		vr.Reach("end")
		return
	}
	n := vr.Int64("n")
	var newMs int64
	name := ""
	switch cmd {
	case 0:
		name = "EXPIRE"
		vr.Assume(n >= 0 && n <= 1_000_000_000)
		newMs = nowMs + n*1000
	case 1:
		name = "PEXPIRE"
		vr.Assume(n >= 0 && n <= 1_000_000_000_000)
		newMs = nowMs + n
	case 2:
		name = "EXPIREAT"
		vr.Assume(n >= msLo/1000 && n <= msHi/1000)
		newMs = n * 1000
	case 3:
		name = "PEXPIREAT"
		vr.Assume(n >= msLo && n <= msHi)
		newMs = n
	}
	opt := vr.Choose("opt", 5) // none NX XX GT LT
	argv := []string{name, k, strconv.FormatInt(n, 10)}
	if opt > 0 {
		argv = append(argv, []string{"", "NX", "XX", "GT", "LT"}[opt])
	}
	reply, err, panicked := verifRun(s, argv...)
	vr.Assert(!panicked && err == nil, "C04.expire.noerror")
	if panicked || err != nil {
		return
	}
	apply := true
	ambiguous := false
	switch opt {
	case 1:
		apply = !has
	case 2:
		apply = has
	case 3: // GT: only when the key has a deadline and the new one is later
		apply = has && newMs > cur
		ambiguous = has && newMs == cur
	case 4: // LT: when the key has no deadline, or the new one is earlier
		apply = !has || newMs < cur
		ambiguous = has && newMs == cur
	}
	d, has2, exists := c04Deadline(s, k)
	if ambiguous {
		vr.Assert(exists && has2 && d == cur, "C04.expire.equal_deadline_kept")
		vr.Reach("end")
		return
	}
	if apply {
		vr.Assert(isIntReply(reply, 1), "C04.expire.applied_reply")
		vr.Assert(exists && has2 && d == newMs, "C04.expire.applied_deadline")
	} else {
		vr.Assert(isIntReply(reply, 0), "C04.expire.rejected_reply")
		vr.Assert(exists && has2 == has && (!has || d == cur), "C04.expire.rejected_unchanged")
	}
	vr.Reach("end")
}

// Verif_C04_WritesMoveDeadlines: how a write to a live key moves its deadline.
func Verif_C04_WritesMoveDeadlines() {
	s, _, nowMs := c04Server()
	k := vr.Tok("k")
	has, cur := c04Pre(s, k)
	if has {
		vr.Assume(cur >= nowMs)
	}
	w := vr.Tok("w")
	which := vr.Choose("writer", 9)
	var err error
	var panicked bool
	wantHas, wantMs := has, cur
	target := k
	n := vr.Int64("n")
	switch which {
	case 0: // plain SET discards the deadline
		_, err, panicked = verifRun(s, "SET", k, w)
		wantHas = false
	case 1: // SET EX replaces it
		vr.Assume(n >= 1 && n <= 1_000_000_000)
		_, err, panicked = verifRun(s, "SET", k, w, "EX", strconv.FormatInt(n, 10))
		wantHas, wantMs = true, nowMs+n*1000
	case 2: // SET PXAT replaces it
		vr.Assume(n >= msLo && n <= msHi)
		_, err, panicked = verifRun(s, "SET", k, w, "PXAT", strconv.FormatInt(n, 10))
		wantHas, wantMs = true, n
	case 3: // APPEND keeps it
		_, err, panicked = verifRun(s, "APPEND", k, w)
	case 4: // RENAME moves it to the new name
		target = vr.Tok("k2")
		vr.Assume(target != k)
		if vr.Choose("target_exists", 2) == 1 {
			verifPreset(s, 0, target, vr.Tok("t0"))
			if vr.Choose("target_has_dl", 2) == 1 {
				tdl, tdlMs := symInstant("tdl")
				vr.Assume(tdlMs >= nowMs)
				verifPresetExpiry(s, 0, target, tdl)
			}
		}
		_, err, panicked = verifRun(s, "RENAME", k, target)
	case 5: // MSET discards it
		_, err, panicked = verifRun(s, "MSET", k, w)
		wantHas = false
	case 6: // GETEX PX sets it
		vr.Assume(n >= 1 && n <= 1_000_000_000_000)
		_, err, panicked = verifRun(s, "GETEX", k, "PX", strconv.FormatInt(n, 10))
		wantHas, wantMs = true, nowMs+n
	case 7: // GETEX PERSIST clears it
		_, err, panicked = verifRun(s, "GETEX", k, "PERSIST")
		wantHas = false
	case 8: // GETEX without options keeps it
		_, err, panicked = verifRun(s, "GETEX", k)
	}
	vr.Assert(!panicked && err == nil, "C04.writer.noerror."+strconv.Itoa(which))
	if panicked || err != nil {
		return
	}
	d, has2, exists := c04Deadline(s, target)
	vr.Assert(exists, "C04.writer.key_exists."+strconv.Itoa(which))
	vr.Assert(has2 == wantHas && (!wantHas || d == wantMs), "C04.writer.deadline."+strconv.Itoa(which))
	if which == 4 {
		_, _, oldExists := c04Deadline(s, k)
		vr.Assert(!oldExists, "C04.rename.old_gone")
	}
	vr.Reach("end")
}

// Verif_C04_MSetFresh: MSET of a live volatile key together with a brand-new key gives the new key
// no deadline, whatever the iteration order of the entries.
func Verif_C04_MSetFresh() {
	vr.MapOrderND(true)
	s, _, nowMs := c04Server()
	k1, k2 := vr.Tok("k1"), vr.Tok("k2")
	vr.Assume(k1 != k2)
	verifPreset(s, 0, k1, vr.Tok("v0"))
	dl, dlMs := symInstant("dl")
	vr.Assume(dlMs >= nowMs)
	verifPresetExpiry(s, 0, k1, dl)
	_, err, panicked := verifRun(s, "MSET", k1, vr.Tok("w1"), k2, vr.Tok("w2"))
	vr.Assert(!panicked && err == nil, "C04.mset.noerror")
	if panicked || err != nil {
		return
	}
	_, has2, exists2 := c04Deadline(s, k2)
	vr.Assert(exists2 && !has2, "C04.mset.fresh_key_has_no_deadline")
	_, has1, exists1 := c04Deadline(s, k1)
	vr.Assert(exists1 && !has1, "C04.mset.discards_deadline")
	vr.Reach("end")
}

// Verif_C04_Sampler: one run of the background expiry cycle over a database with up to three
// volatile keys (arbitrary deadlines, arbitrary random draws, arbitrary sample size) and one
// persistent key removes only keys whose deadline has passed, and terminates.
func Verif_C04_Sampler() {
	s, _, nowMs := c04Server()
	sample := vr.Int("sample")
	vr.Assume(sample >= 0 && sample <= 4)
	s.config.EvictionSample = uint(sample)
	n := 1 + vr.Choose("nkeys", 3)
	names := []string{"k0", "k1", "k2"}
	var keys []string
	var dls []int64
	for i := 0; i < n; i++ {
		k := vr.Tok(names[i])
		for _, o := range keys {
			vr.Assume(o != k)
		}
		dl, dlMs := symInstant("dl" + strconv.Itoa(i))
		verifPreset(s, 0, k, vr.Tok("v"+strconv.Itoa(i)))
		verifPresetExpiry(s, 0, k, dl)
		keys = append(keys, k)
		dls = append(dls, dlMs)
	}
	p := vr.Tok("persistent")
	for _, o := range keys {
		vr.Assume(o != p)
	}
	verifPreset(s, 0, p, vr.Tok("pv"))
	// a second database so that "number of databases" and "number of volatile keys" differ
	verifPreset(s, 1, vr.Tok("other"), vr.Tok("ov"))
	var err error
	panicked := false
	func() {
		defer func() {
			if r := recover(); r != nil {
				panicked = true
			}
		}()
		err = s.evictKeysWithExpiredTTL(verifCtx(0))
	}()
	vr.Assert(!panicked, "C04.sampler.nopanic")
	if panicked {
		return
	}
	vr.Assert(err == nil, "C04.sampler.noerror")
	for i, k := range keys {
		_, exists := s.store[0][k]
		if dls[i] >= nowMs {
			vr.Assert(exists, "C04.sampler.live_key_survives")
		}
		if !exists {
			vr.Assert(dls[i] < nowMs, "C04.sampler.only_expired_removed")
			listed := false
			for _, v := range s.keysWithExpiry.keys[0] {
				if v == k {
					listed = true
				}
			}
			vr.Assert(!listed, "C04.sampler.removed_from_index")
		}
	}
	_, pExists := s.store[0][p]
	vr.Assert(pExists, "C04.sampler.persistent_key_survives")
	_, oExists := s.store[1]
	vr.Assert(oExists && len(s.store[1]) == 1, "C04.sampler.other_database_untouched")
	vr.Reach("end")
}

// verifSetValuesBatch: the keyspace write primitive with several entries in one call (what MSET,
// LMOVE and plugin commands hand to SetValues): a key that did not exist gets no deadline,
// whatever else is in the batch and in whatever order the batch is written; an existing key keeps
// its own deadline.
func verifSetValuesBatch(tag string) {
	vr.MapOrderND(true)
	s := verifServer()
	t0 := time.UnixMilli(1_700_000_000_000)
	s.clock = verifClock{now: &t0}
	a, b, c := vr.Tok("a"), vr.Tok("b"), vr.Tok("c")
	vr.Assume(a != b && a != c && b != c)
	ms := vr.Int64("deadline_ms")
	vr.Assume(ms > 1_700_000_000_000 && ms < 4_000_000_000_000)
	verifPreset(s, 0, a, "old")
	verifPresetExpiry(s, 0, a, time.UnixMilli(ms))
	if vr.Choose("c_exists", 2) == 1 {
		verifPreset(s, 0, c, "plain")
	}
	err := s.setValues(verifCtx(0), map[string]interface{}{a: "new-a", b: "new-b", c: "new-c"})
	vr.Assert(err == nil, tag+".setvalues_batch.succeeds")
	vr.Assert(s.store[0][b].Value == "new-b" && s.store[0][b].ExpireAt.IsZero(), tag+".setvalues_batch.new_key_has_no_deadline")
	vr.Assert(s.store[0][c].Value == "new-c" && s.store[0][c].ExpireAt.IsZero(), tag+".setvalues_batch.other_key_has_no_deadline")
	vr.Assert(s.store[0][a].Value == "new-a" && s.store[0][a].ExpireAt.UnixMilli() == ms, tag+".setvalues_batch.existing_key_keeps_its_own_deadline")
	vr.Reach("end")
}

func Verif_C04_SetValuesBatch() { verifSetValuesBatch("C04") }
func Verif_C01_SetValuesBatch() { verifSetValuesBatch("C01") }

// Verif_C04_SamplerSparesKeysWithoutDeadline: a key that HAD a deadline (live or already passed, not yet
// removed) and then lost it through a write that clears deadlines (plain SET / MSET over it, PERSIST,
// GETEX PERSIST) — whatever the volatile-key index still says about it — is never removed by the
// background expiry cycle, at any later instant, for any sample size and any random draws.
func Verif_C04_SamplerSparesKeysWithoutDeadline() {
	s, clk, nowMs := c04Server()
	k := vr.Tok("k")
	dl, dlMs := symInstant("dl")
	verifPreset(s, 0, k, vr.Tok("old"))
	verifPresetExpiry(s, 0, k, dl)
	nv := vr.Tok("new")
	switch vr.Choose("clear", 4) {
	case 0:
		c05Run(s, "SET", k, nv)
	case 1:
		c05Run(s, "MSET", k, nv)
	case 2:
		vr.Assume(dlMs >= nowMs)
		c05Run(s, "PERSIST", k)
		nv = ""
	case 3:
		vr.Assume(dlMs >= nowMs)
		c05Run(s, "GETEX", k, "PERSIST")
		nv = ""
	}
	_, hasDl, exists := c04Deadline(s, k)
	vr.Assert(exists && !hasDl, "C04.sampler_spares.write_cleared_the_deadline")
	// a second volatile key so that the index is not empty either way
	o := vr.Tok("o")
	vr.Assume(o != k)
	verifPreset(s, 0, o, "ov")
	verifPresetExpiry(s, 0, o, time.UnixMilli(msHi+1000))
	later, laterMs := symInstant("later")
	vr.Assume(laterMs >= nowMs)
	*clk = later
	sample := 1 + vr.Choose("sample", 3)
	s.config.EvictionSample = uint(sample)
	panicked := false
	func() {
		defer func() {
			if r := recover(); r != nil {
				panicked = true
			}
		}()
		_ = s.evictKeysWithExpiredTTL(verifCtx(0))
	}()
	vr.Assert(!panicked, "C04.sampler_spares.nopanic")
	e, still := s.store[0][k]
	vr.Assert(still, "C04.sampler_spares.key_without_deadline_is_never_removed_by_expiry")
	if still && nv != "" {
		v, isStr := e.Value.(string)
		vr.Assert(isStr && v == nv && e.ExpireAt.IsZero(), "C04.sampler_spares.value_and_no_deadline")
	}
	_, oStill := s.store[0][o]
	vr.Assert(oStill, "C04.sampler_spares.live_key_survives")
	vr.Reach("end")
}
