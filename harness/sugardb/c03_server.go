package sugardb

// C03 at the level of the server: SAVE through the real dispatcher, restart through the real
// constructor with snapshot restore, LASTSAVE, and the automatic snapshot (write threshold +
// interval ticker). The data directory is the modelled file system (a temporary directory
// natively).

import (
	"time"

	"github.com/echovault/sugardb/internal/config"
	"github.com/echovault/sugardb/internal/constants"
	vr "github.com/echovault/sugardb/internal/verifrt"
)

func c03Server(dir string, restore bool, threshold uint64, interval time.Duration) *SugarDB {
	s, err := NewSugarDB(WithConfig(config.Config{
		DataDir:           dir,
		EvictionPolicy:    constants.NoEviction,
		RestoreSnapshot:   restore,
		SnapShotThreshold: threshold,
		SnapshotInterval:  interval,
		AOFSyncStrategy:   "no",
	}))
	if err != nil {
		panic("verif: constructor failed: " + err.Error())
	}
	return s
}

// c03Settle waits for the snapshot goroutine SAVE starts.
func c03Settle(s *SugarDB) {
	vr.Quiesce()
	if !vr.Symbolic() {
		for t := 0; t < 300 && s.snapshotInProgress.Load(); t++ {
			time.Sleep(5 * time.Millisecond)
		}
		time.Sleep(20 * time.Millisecond)
	}
}

// Verif_C03_SaveRestart: writes in two databases, SAVE, more writes that are not saved, restart.
func Verif_C03_SaveRestart() {
	dir := vr.FSReset()
	s := c03Server(dir, false, 1000, 0)
	v := "val"
	dbs := []int{0, 1, 12}
	db := dbs[vr.Choose("db", 3)]
	_ = s.SelectDB(db)
	c05Run(s, "SET", "k1", v)
	c05Run(s, "HSET", "h", "f", v)
	_ = s.SelectDB(0)
	c05Run(s, "SET", "k0", "zero")
	vr.Assert(c05Run(s, "LASTSAVE") != c05Run(s, "PING"), "C03.server.lastsave_before_any_snapshot_is_not_pong")
	r := c05Run(s, "SAVE")
	vr.Assert(r == "+OK\r\n", "C03.server.save_replies_ok")
	c03Settle(s)
	last := c05Run(s, "LASTSAVE")
	vr.Assert(last == ":"+itoa(int(s.clock.Now().UnixMilli()))+"\r\n", "C03.server.lastsave_reports_the_snapshot_time")
	// written after the snapshot: not part of it
	c05Run(s, "SET", "late", "x")
	want := c07View(s, dbs, "k1", "h", "k0")
	s2 := c03Server(dir, true, 1000, 0)
	vr.Assert(c07View(s2, dbs, "k1", "h", "k0") == want, "C03.server.restart_serves_the_snapshot_dataset")
	vr.Assert(c09Digest(s2, 0, "late") == "<absent>", "C03.server.writes_after_the_snapshot_are_not_in_it")
	vr.Assert(c05Run(s2, "LASTSAVE") == last, "C03.server.lastsave_after_restart_is_the_restored_snapshot")
	vr.Reach("end")
}

// Verif_C03_AutomaticSnapshot: once the configured number of writes has accumulated, the next
// interval tick takes a snapshot - also when more writes than the threshold arrived in between.
func Verif_C03_AutomaticSnapshot() {
	dir := vr.FSReset()
	threshold := 3
	interval := 60 * time.Millisecond
	s := c03Server(dir, false, uint64(threshold), interval)
	n := vr.Choose("writes", 7)
	for i := 0; i < n; i++ {
		c05Run(s, "SET", "k"+itoa(i), "v")
	}
	vr.FireTickers(4 * interval)
	c03Settle(s)
	s2 := c03Server(dir, true, 1000, 0)
	have := 0
	for i := 0; i < n; i++ {
		if c09Digest(s2, 0, "k"+itoa(i)) == "s:v" {
			have++
		}
	}
	if n >= threshold {
		vr.Assert(have == n, "C03.auto.snapshot_taken_within_one_interval_after_the_threshold")
	} else {
		vr.Assert(have == 0, "C03.auto.no_snapshot_below_the_threshold")
	}
	vr.Reach("end")
}

// Verif_C03_SecondSaveCapturesEveryKindOfChange: SAVE, then one change of any kind (a new key, an
// overwrite, a deletion, a deadline set, a deadline cleared, a field removal, a flush, a rename)
// in database 0 or 1, then SAVE again and restart: the restored dataset is the one the second SAVE saw,
// not the first snapshot's.
func Verif_C03_SecondSaveCapturesEveryKindOfChange() {
	dir := vr.FSReset()
	s := c03Server(dir, false, 1000, 0)
	dbs := []int{0, 1}
	db := dbs[vr.Choose("db", 2)]
	_ = s.SelectDB(db)
	c05Run(s, "SET", "k1", "v1")
	c05Run(s, "SET", "k2", "v2", "PXAT", itoa(int(s.clock.Now().UnixMilli())+3600000))
	c05Run(s, "HSET", "st", "f1", "a", "f2", "b") // (sets and sorted sets do not survive the JSON snapshot: known finding)
	vr.Assert(c05Run(s, "SAVE") == "+OK\r\n", "C03.second_save.save_replies_ok")
	c03Settle(s)
	switch vr.Choose("change", 8) {
	case 0:
		c05Run(s, "SET", "k3", "v3")
	case 1:
		c05Run(s, "SET", "k1", "other")
	case 2:
		c05Run(s, "DEL", "k1")
	case 3:
		c05Run(s, "PEXPIREAT", "k1", itoa(int(s.clock.Now().UnixMilli())+7200000))
	case 4:
		c05Run(s, "PERSIST", "k2")
	case 5:
		c05Run(s, "HDEL", "st", "f1")
	case 6:
		c05Run(s, "FLUSHDB")
	case 7:
		c05Run(s, "RENAME", "k1", "k9")
	}
	vr.Assert(c05Run(s, "SAVE") == "+OK\r\n", "C03.second_save.save_replies_ok")
	c03Settle(s)
	want := c07View(s, dbs, "k1", "k2", "k3", "k9", "st")
	s2 := c03Server(dir, true, 1000, 0)
	vr.Assert(c07View(s2, dbs, "k1", "k2", "k3", "k9", "st") == want, "C03.second_save.restart_serves_the_dataset_of_the_last_save")
	vr.Reach("end")
}

// Verif_C03_AutomaticSnapshotAcrossPhases: four rounds of writes, each followed by an interval tick.
// A round writes three new keys, re-writes three existing keys with the values they already have (the
// dataset does not change, the write count does), or writes one key. Whenever the writes since the
// last snapshot have reached the threshold (3) by the time of a tick, what is on disk after that tick
// must be the current dataset - also right after an attempt that found nothing new, and whatever the
// counts of the earlier rounds were.
func Verif_C03_AutomaticSnapshotAcrossPhases() {
	dir := vr.FSReset()
	threshold := 3
	interval := 60 * time.Millisecond
	s := c03Server(dir, false, uint64(threshold), interval)
	next := 0
	since := 0 // writes since the last snapshot that had to be taken
	var all []string
	for phase := 0; phase < 4; phase++ {
		switch vr.Choose("phase"+itoa(phase), 3) {
		case 0: // three new keys
			for i := 0; i < 3; i++ {
				k := "k" + itoa(next)
				next++
				all = append(all, k)
				c05Run(s, "SET", k, "v")
				since++
			}
		case 1: // the same values again (needs three keys to exist)
			if len(all) < 3 {
				vr.Assume(false)
			}
			for i := 0; i < 3; i++ {
				c05Run(s, "SET", all[i], "v")
				since++
			}
		case 2: // a single new key
			k := "k" + itoa(next)
			next++
			all = append(all, k)
			c05Run(s, "SET", k, "v")
			since++
		}
		vr.FireTickers(4 * interval)
		c03Settle(s)
		if since >= threshold {
			s2 := c03Server(dir, true, 1000, 0)
			have := 0
			for _, k := range all {
				if c09Digest(s2, 0, k) == "s:v" {
					have++
				}
			}
			vr.Assert(have == len(all), "C03.auto_phases.snapshot_taken_within_one_interval_after_the_threshold")
			since = 0
		}
	}
	vr.Reach("end")
}
