package sugardb

// C11 at the level of the dispatcher: AUTH and HELLO ... AUTH sent by a TCP client of a server that
// requires a password. The credential decision itself is checked in package acl; here the subject is
// the way the connection module parses its arguments and what a failed or successful attempt leaves
// on the connection (identity, protocol, client name).

import (
	"github.com/echovault/sugardb/internal/config"
	"github.com/echovault/sugardb/internal/constants"
	"github.com/echovault/sugardb/internal/modules/acl"
	vr "github.com/echovault/sugardb/internal/verifrt"
)

func Verif_C11_HelloAuth() {
	s, err := NewSugarDB(WithConfig(config.Config{DataDir: "", EvictionPolicy: constants.NoEviction, RequirePass: true, Password: "pw"}))
	if err != nil {
		panic("verif: constructor")
	}
	a := s.acl
	// a named user with one plaintext password, enabled or not, nopass or not
	p1 := vr.Tok("p1")
	u := acl.CreateUser("alice")
	u.Enabled = vr.Choose("enabled", 2) == 1
	u.NoPassword = vr.Choose("nopass", 2) == 1
	if !u.NoPassword {
		u.Passwords = []acl.Password{{PasswordType: acl.PasswordPlainText, PasswordValue: p1}}
	}
	u.Normalise()
	a.Users = append(a.Users, u)
	a.CompileGlobs()
	conn := verifTCPConn(s, 0)
	before := a.Connections[conn]
	infoBefore := s.connInfo.tcpClients[conn]
	name := []string{"alice", "default", "ghost"}[vr.Choose("name", 3)]
	p := vr.Tok("p")
	cn := vr.Tok("clientname")
	hello := true
	proto := 2
	var argv []string
	switch vr.Choose("form", 6) {
	case 0:
		argv = []string{"HELLO", "3", "AUTH", name, p}
		proto = 3
	case 1:
		argv = []string{"HELLO", "2", "AUTH", name, p, "SETNAME", cn}
	case 2:
		argv = []string{"HELLO", "3", "SETNAME", cn, "AUTH", name, p}
		proto = 3
	case 3:
		argv = []string{"hello", "3", "auth", name, p}
		proto = 3
	case 4:
		argv = []string{"AUTH", name, p}
		hello = false
	case 5:
		vr.Assume(name == "default")
		argv = []string{"AUTH", p}
		hello = false
	}
	reply, rerr, panicked := verifRunTCP(s, conn, argv...)
	vr.Assert(!panicked, "C11.hello.nopanic")
	if panicked {
		return
	}
	// the reference decision
	want := false
	switch name {
	case "alice":
		want = u.Enabled && (u.NoPassword || p == p1)
	case "default":
		want = p == "pw"
	}
	after := a.Connections[conn]
	if want {
		vr.Assert(rerr == nil, "C11.hello.succeeds_when_credentials_match")
		vr.Assert(after.Authenticated && after.User != nil && after.User.Username == name, "C11.hello.connection_becomes_the_named_user")
		if hello && rerr == nil {
			vr.Assert(vr.Decode(reply).OK, "C11.hello.reply_is_wellformed")
			vr.Assert(s.connInfo.tcpClients[conn].Protocol == proto, "C11.hello.protocol_switched")
		}
	} else {
		vr.Assert(rerr != nil, "C11.hello.fails_when_credentials_do_not_match")
		vr.Assert(after.Authenticated == before.Authenticated && after.User == before.User, "C11.hello.failure_leaves_identity_unchanged")
		vr.Assert(s.connInfo.tcpClients[conn] == infoBefore, "C11.hello.failure_leaves_protocol_and_name_unchanged")
	}
	vr.Reach("end")
}
