package sugardb

// C20 — logical databases are isolated namespaces. Database indices are symbolic.

import (
	"context"
	"io"
	"net"
	"strconv"
	"time"

	"github.com/echovault/sugardb/internal"
	"github.com/echovault/sugardb/internal/constants"
	vr "github.com/echovault/sugardb/internal/verifrt"
)

// fakeConn implements net.Conn; it records what is written to it.
type fakeConn struct {
	written []byte
	closed  bool
	input   [][]byte // successive results of Read; then io.EOF
	pos     int
	writes  int
}

func (c *fakeConn) Read(b []byte) (int, error) {
	if c.pos < len(c.input) {
		n := copy(b, c.input[c.pos])
		c.pos++
		return n, nil
	}
	return 0, io.EOF
}

// VerifContent: the bytes a stream reader will eventually get (TCP delivers the concatenation of
// the segments, however they were cut).
func (c *fakeConn) VerifContent() []byte {
	var out []byte
	for i := c.pos; i < len(c.input); i++ {
		out = append(out, c.input[i]...)
	}
	return out
}

// VerifConsume: a buffering reader has taken everything the connection had to deliver.
func (c *fakeConn) VerifConsume() { c.pos = len(c.input) }

func (c *fakeConn) Write(b []byte) (int, error) {
	c.written = append(c.written, b...)
	c.writes++
	return len(b), nil
}
func (c *fakeConn) Close() error                       { c.closed = true; return nil }
func (c *fakeConn) LocalAddr() net.Addr                { return nil }
func (c *fakeConn) RemoteAddr() net.Addr               { return nil }
func (c *fakeConn) SetDeadline(t time.Time) error      { return nil }
func (c *fakeConn) SetReadDeadline(t time.Time) error  { return nil }
func (c *fakeConn) SetWriteDeadline(t time.Time) error { return nil }

// verifTCPConn registers a fake TCP connection operating on database db, as handleConnection does.
func verifTCPConn(s *SugarDB, db int) *net.Conn {
	var c net.Conn = &fakeConn{}
	conn := &c
	s.connInfo.tcpClients[conn] = internal.ConnectionInfo{Id: 1, Name: "", Protocol: 2, Database: db}
	if s.acl != nil {
		s.acl.RegisterConnection(conn)
	}
	return conn
}

func verifRunTCP(s *SugarDB, conn *net.Conn, argv ...string) (reply []byte, err error, panicked bool) {
	defer func() {
		if r := recover(); r != nil {
			panicked = true
		}
	}()
	reply, err = s.handleCommand(context.Background(), internal.EncodeCommand(argv), conn, false, false)
	return
}

func symDB(name string) int {
	db := vr.Int(name)
	vr.Assume(db >= 0 && db <= 1000)
	return db
}

// volatileIndexHas reports whether key k is listed in the volatile index of db.
func volatileIndexHas(s *SugarDB, db int, k string) bool {
	for _, x := range s.keysWithExpiry.keys[db] {
		if x == k {
			return true
		}
	}
	return false
}

// c20Module: any data command executed with database i selected (embedded caller) leaves the
// same-named keys of database j exactly as they were.
func c20Module(module string, preferKind int) {
	gConcreteScores = true
	s := verifServer()
	i, j := symDB("i"), symDB("j")
	vr.Assume(i != j)
	k1, k2 := vr.Tok("k1"), vr.Tok("k2")
	vr.Assume(k1 != k2)
	// database j: both names hold something; k1 has a deadline
	pj1 := gSym("pj1", preferKind, 1)
	pj2 := gSym("pj2", gStr, 1)
	gStoreIn(s, j, k1, pj1)
	gStoreIn(s, j, k2, pj2)
	dl := time.UnixMilli(2_000_000_000_000)
	verifPresetExpiry(s, j, k1, dl)
	// database i: k1 may exist with the module's type
	if vr.Choose("pi1", 2) == 1 {
		gStoreIn(s, i, k1, gSym("pi1v", preferKind, 1))
	}
	if err := s.SelectDB(i); err != nil {
		panic("verif: SelectDB")
	}
	cmds := c13Commands(s, module)
	c := cmds[vr.Choose("cmd", len(cmds))]
	x := vr.Tok("x")
	if gByteStrings > 0 {
		x = gBytes("xb", 2)
	}
	n := vr.Int("n")
	vr.Assume(n >= -2 && n <= 2)
	var argv []string
	switch vr.Choose("shape", 5) {
	case 0:
		argv = []string{c.Command, k1}
	case 1:
		argv = []string{c.Command, k1, k2}
	case 2:
		argv = []string{c.Command, k1, x}
	case 3:
		argv = []string{c.Command, k1, strconv.Itoa(n), x}
	case 4:
		argv = []string{c.Command, k1, x, x}
	}
	_, err, panicked := verifRun(s, argv...)
	vr.Assert(!panicked, "C20."+module+".nopanic")
	if panicked {
		return
	}
	if c.Command == "flushall" && err == nil {
		vr.Assert(len(s.store[j]) == 0, "C20.flushall_empties_other_databases")
		vr.Reach("end")
		return
	}
	vr.Assert(gHoldsIn(s, j, k1, pj1) && gHoldsIn(s, j, k2, pj2) && len(s.store[j]) == 2, "C20."+module+".other_database_data_untouched")
	e := s.store[j][k1]
	vr.Assert(e.ExpireAt == dl && volatileIndexHas(s, j, k1) && !volatileIndexHas(s, j, k2), "C20."+module+".other_database_deadlines_untouched")
	vr.Reach("end")
}

func Verif_C20_Generic()     { c20Module(constants.GenericModule, gStr) }
func Verif_C20_String()      { gByteStrings = 2; c20Module(constants.StringModule, gStr) }
func Verif_C20_Hash()        { c20Module(constants.HashModule, gHash) }
func Verif_C20_List()        { c20Module(constants.ListModule, gList) }
func Verif_C20_Set()         { c20Module(constants.SetModule, gSet) }
func Verif_C20_SortedSet_A() { gCmdPart, gCmdParts = 0, 2; c20Module(constants.SortedSetModule, gZSet) }
func Verif_C20_SortedSet_B() { gCmdPart, gCmdParts = 1, 2; c20Module(constants.SortedSetModule, gZSet) }

// Verif_C20_Flush: FLUSHDB empties only the selected database, FLUSHALL empties all.
func Verif_C20_Flush() {
	s := verifServer()
	i, j := symDB("i"), symDB("j")
	vr.Assume(i != j)
	k := vr.Tok("k")
	vi, vj := vr.Tok("vi"), vr.Tok("vj")
	verifPreset(s, i, k, vi)
	verifPreset(s, j, k, vj)
	verifPresetExpiry(s, i, k, time.UnixMilli(2_000_000_000_000))
	verifPresetExpiry(s, j, k, time.UnixMilli(2_000_000_000_000))
	s.SelectDB(i)
	all := vr.Choose("all", 2) == 1
	cmd := "FLUSHDB"
	if all {
		cmd = "FLUSHALL"
	}
	reply, err, panicked := verifRun(s, cmd)
	vr.Assert(!panicked && err == nil && isOK(reply), "C20.flush.reply")
	if panicked || err != nil {
		return
	}
	vr.Assert(len(s.store[i]) == 0 && len(s.keysWithExpiry.keys[i]) == 0, "C20.flush.selected_emptied")
	if all {
		vr.Assert(len(s.store[j]) == 0 && len(s.keysWithExpiry.keys[j]) == 0, "C20.flushall.other_emptied")
	} else {
		vr.Assert(gHoldsIn(s, j, k, gVal{kind: gStr, str: vj}) && volatileIndexHas(s, j, k), "C20.flushdb.other_untouched")
	}
	vr.Reach("end")
}

// Verif_C20_Select: SELECT affects only the issuing TCP connection; data is untouched; the next
// command of that connection runs in the selected database.
func Verif_C20_Select() {
	s := verifServer()
	a, b, n := symDB("a"), symDB("b"), symDB("n")
	c1 := verifTCPConn(s, a)
	c2 := verifTCPConn(s, b)
	k := vr.Tok("k")
	va := vr.Tok("va")
	verifPreset(s, a, k, va)
	reply, err, panicked := verifRunTCP(s, c1, "SELECT", strconv.Itoa(n))
	vr.Assert(!panicked && err == nil && isOK(reply), "C20.select.reply")
	if panicked || err != nil {
		return
	}
	vr.Assert(s.connInfo.tcpClients[c1].Database == n, "C20.select.issuer_moved")
	vr.Assert(s.connInfo.tcpClients[c2].Database == b, "C20.select.other_connection_unaffected")
	vr.Assert(s.connInfo.embedded.Database == 0, "C20.select.embedded_unaffected")
	vr.Assert(gHoldsIn(s, a, k, gVal{kind: gStr, str: va}), "C20.select.data_untouched")
	w := vr.Tok("w")
	_, err, panicked = verifRunTCP(s, c1, "SET", k, w)
	vr.Assert(!panicked && err == nil, "C20.select.then_set")
	if n != a {
		vr.Assert(gHoldsIn(s, n, k, gVal{kind: gStr, str: w}) && gHoldsIn(s, a, k, gVal{kind: gStr, str: va}), "C20.select.write_lands_in_selected_database")
	} else {
		vr.Assert(gHoldsIn(s, n, k, gVal{kind: gStr, str: w}), "C20.select.write_lands_in_selected_database")
	}
	vr.Reach("end")
}

// Verif_C20_SwapDB: SWAPDB a b exchanges the two databases as seen by every TCP connection;
// connections on other databases, the embedded caller and the data are untouched.
func Verif_C20_SwapDB() {
	s := verifServer()
	a, b, c := symDB("a"), symDB("b"), symDB("c")
	vr.Assume(c != a && c != b)
	ca := verifTCPConn(s, a)
	cb := verifTCPConn(s, b)
	cc := verifTCPConn(s, c)
	k := vr.Tok("k")
	va, vc := vr.Tok("va"), vr.Tok("vc")
	verifPreset(s, a, k, va)
	verifPreset(s, c, k, vc)
	reply, err, panicked := verifRunTCP(s, ca, "SWAPDB", strconv.Itoa(a), strconv.Itoa(b))
	vr.Assert(!panicked && err == nil && isOK(reply), "C20.swapdb.reply")
	if panicked || err != nil {
		return
	}
	vr.Assert(s.connInfo.tcpClients[ca].Database == b && s.connInfo.tcpClients[cb].Database == a, "C20.swapdb.exchanged")
	vr.Assert(s.connInfo.tcpClients[cc].Database == c, "C20.swapdb.bystander_unaffected")
	vr.Assert(s.connInfo.embedded.Database == 0, "C20.swapdb.embedded_unaffected")
	vr.Assert(gHoldsIn(s, a, k, gVal{kind: gStr, str: va}) && gHoldsIn(s, c, k, gVal{kind: gStr, str: vc}), "C20.swapdb.data_untouched")
	// the connection that was on b now reads what is stored in a
	g, err, panicked := verifRunTCP(s, cb, "GET", k)
	vr.Assert(!panicked && err == nil && isStringReply(g, va), "C20.swapdb.sees_other_database")
	vr.Reach("end")
}

// Verif_C20_SelectLeavesBookkeepingAlone: SELECT j or HELLO issued by a connection never changes
// anything in any database — not only the keys but also the deadlines' index and the eviction
// bookkeeping of database j (already populated) and of a third database.
func Verif_C20_SelectLeavesBookkeepingAlone() {
	s := c08Server(constants.AllKeysLFU)
	s.config.MaxMemory = 1 << 50
	i, j, o := symDB("i"), symDB("j"), symDB("o")
	vr.Assume(o != j)
	conn := verifTCPConn(s, i)
	k, v := vr.Tok("k"), vr.Tok("v")
	for _, db := range []int{j, o} {
		verifPreset(s, db, k, v)
		verifPresetExpiry(s, db, k, time.UnixMilli(3_000_000_000_000))
		vr.Quiesce()
		if _, err := s.updateKeysInCache(verifCtx(db), []string{k}); err != nil {
			panic("verif: updateKeysInCache failed under the limit")
		}
	}
	count := func(db int) int {
		c, err := s.lfuCache.cache[db].GetCount(k)
		if err != nil {
			return -1
		}
		return c
	}
	cj, co := count(j), count(o)
	vr.Assert(cj > 0 && co > 0 && volatileIndexHas(s, j, k) && volatileIndexHas(s, o, k), "C20.select_bookkeeping.pre_state_listed")
	var err error
	var panicked bool
	switch vr.Choose("cmd", 3) {
	case 0:
		_, err, panicked = verifRunTCP(s, conn, "SELECT", strconv.Itoa(j))
	case 1:
		s.connInfo.tcpClients[conn] = internal.ConnectionInfo{Id: 1, Protocol: 2, Database: j}
		_, err, panicked = verifRunTCP(s, conn, "HELLO", "3")
	case 2:
		_ = s.SelectDB(j)
	}
	vr.Assert(!panicked && err == nil, "C20.select_bookkeeping.noerror")
	vr.Assert(gHoldsIn(s, j, k, gVal{kind: gStr, str: v}) && gHoldsIn(s, o, k, gVal{kind: gStr, str: v}), "C20.select_bookkeeping.data_untouched")
	vr.Assert(volatileIndexHas(s, j, k) && volatileIndexHas(s, o, k), "C20.select_bookkeeping.volatile_index_untouched")
	vr.Assert(count(j) == cj && count(o) == co, "C20.select_bookkeeping.eviction_bookkeeping_untouched")
	vr.Reach("end")
}
