package sugardb

// Shared harness helpers (package sugardb): real constructor, pre-state installation through the
// repo's own keyspace writers, command execution through the real dispatcher.

import (
	"context"
	"strconv"
	"time"

	"github.com/echovault/sugardb/internal"
	"github.com/echovault/sugardb/internal/config"
	"github.com/echovault/sugardb/internal/constants"
	vr "github.com/echovault/sugardb/internal/verifrt"
)

// verifClock implements clock.Clock; Now() is a harness-controlled instant.
type verifClock struct{ now *time.Time }

func (c verifClock) Now() time.Time                         { return *c.now }
func (c verifClock) After(d time.Duration) <-chan time.Time { return make(chan time.Time) }

// verifServer builds a standalone in-memory server with the real constructor.
func verifServer() *SugarDB {
	s, err := NewSugarDB(WithConfig(config.Config{
		DataDir:        "",
		EvictionPolicy: constants.NoEviction,
	}))
	if err != nil {
		panic("verif: constructor failed: " + err.Error())
	}
	return s
}

func verifCtx(db int) context.Context {
	return context.WithValue(context.Background(), "Database", db)
}

// verifPreset stores value under key in database db through setValues (+ setExpiry when a
// deadline is given), exactly as the repo's test helper presetValue does.
func verifPreset(s *SugarDB, db int, key string, value interface{}) {
	verifHistory(s, db, key)
	if err := s.setValues(verifCtx(db), map[string]interface{}{key: value}); err != nil {
		panic("verif: preset failed")
	}
}

// verifPresets counts the pre-state installations of one harness run; gNoHistory switches the
// history variants off for harnesses whose subject is the bookkeeping itself.
var (
	verifPresets int
	gNoHistory   bool
)

// verifHistory (thorough tier): the same abstract pre-state reached through different histories of the
// key, so that bookkeeping that depends on the past (volatile-key index, eviction lists, accounted
// memory) is whatever the real code left behind - the first key a harness installs was, by a named
// choice, never seen before / held a value of another type that was deleted / held a longer value
// that is now overwritten / had a deadline that was cleared again.
func verifHistory(s *SugarDB, db int, key string) {
	verifPresets++
	if vr.Tier() == 0 || gNoHistory || verifPresets != 1 {
		return
	}
	ctx := verifCtx(db)
	switch vr.Choose("history", 4) {
	case 1:
		if err := s.setValues(ctx, map[string]interface{}{key: []string{"old", "list"}}); err != nil {
			panic("verif: history failed")
		}
		s.storeLock.Lock()
		_ = s.deleteKey(ctx, key)
		s.storeLock.Unlock()
	case 2:
		if err := s.setValues(ctx, map[string]interface{}{key: "an older and longer value"}); err != nil {
			panic("verif: history failed")
		}
	case 3:
		if err := s.setValues(ctx, map[string]interface{}{key: "volatile once"}); err != nil {
			panic("verif: history failed")
		}
		s.setExpiry(ctx, key, time.UnixMilli(4_000_000_000_000), false)
		s.setExpiry(ctx, key, time.Time{}, false)
	}
	// the history is about the state it leaves behind, not about goroutines still in flight: the
	// asynchronous bookkeeping the writes above started has finished before the harness goes on
	// (otherwise an access-count update of the *earlier* value lands on the preset that follows)
	vr.Quiesce()
}

func verifPresetExpiry(s *SugarDB, db int, key string, at time.Time) {
	s.setExpiry(verifCtx(db), key, at, false)
}

// verifRun executes one command through the real dispatcher as the embedded caller and
// converts a panic inside the server into panicked=true.
func verifRun(s *SugarDB, argv ...string) (reply []byte, err error, panicked bool) {
	defer func() {
		if r := recover(); r != nil {
			panicked = true
		}
	}()
	reply, err = s.handleCommand(context.Background(), internal.EncodeCommand(argv), nil, false, true)
	return
}

func itoa(i int) string { return strconv.Itoa(i) }

// encBulkArray is the reference RESP encoding of an array of bulk strings.
func encBulkArray(l []string) string {
	s := "*" + strconv.Itoa(len(l)) + "\r\n"
	for _, e := range l {
		s += "$" + strconv.Itoa(len(e)) + "\r\n" + e + "\r\n"
	}
	return s
}

func encBulk(e string) string { return "$" + strconv.Itoa(len(e)) + "\r\n" + e + "\r\n" }

func encInt(n int) string { return ":" + strconv.Itoa(n) + "\r\n" }

// symList returns a list of length 0..maxLen (a symbolic choice) of arbitrary tokens.
func symList(name string, maxLen int) []string {
	n := vr.Choose(name+"_len", maxLen+1)
	l := make([]string, 0, n)
	for i := 0; i < n; i++ {
		l = append(l, vr.Tok(name+"_"+strconv.Itoa(i)))
	}
	return l
}

func listEq(a, b []string) bool {
	if len(a) != len(b) {
		return false
	}
	for i := range a {
		if a[i] != b[i] {
			return false
		}
	}
	return true
}

// storedList reads the list stored under key in db directly from the store.
func storedList(s *SugarDB, db int, key string) ([]string, bool) {
	e, ok := s.store[db][key]
	if !ok {
		return nil, false
	}
	l, ok := e.Value.([]string)
	return l, ok
}

// sharesBacking reports whether two slices end in the same backing array element.
func sharesBacking(a, b []string) bool {
	if cap(a) == 0 || cap(b) == 0 {
		return false
	}
	return &a[:cap(a)][cap(a)-1] == &b[:cap(b)][cap(b)-1]
}
