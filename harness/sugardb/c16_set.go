package sugardb

// C16 — set commands implement mathematical sets.

import (
	"strconv"
	"strings"

	"github.com/echovault/sugardb/internal/modules/set"
	vr "github.com/echovault/sugardb/internal/verifrt"
)

const kSet = kList

type c16Pre struct {
	kind    int
	members []string
	str     string
}

func c16Max() int {
	if vr.Tier() > 0 {
		return 3
	}
	return 2
}

func c16Preset(s *SugarDB, k, name string, kinds int) c16Pre {
	p := c16Pre{kind: vr.Choose(name+"_kind", kinds)}
	switch p.kind {
	case kSet:
		n := vr.Choose(name+"_n", c16Max()+1)
		for i := 0; i < n; i++ {
			m := vr.Tok(name + "_m" + strconv.Itoa(i))
			for _, x := range p.members {
				vr.Assume(x != m)
			}
			p.members = append(p.members, m)
		}
		verifPreset(s, 0, k, set.NewSet(append([]string{}, p.members...)))
	case kOther:
		p.str = vr.Tok(name + "_str")
		verifPreset(s, 0, k, p.str)
	}
	return p
}

func contains(l []string, x string) bool {
	for _, e := range l {
		if e == x {
			return true
		}
	}
	return false
}

// c16Holds asserts that key k holds exactly the model (set with these members / absent / other).
func c16Holds(s *SugarDB, k string, p c16Pre, ob string) {
	e, ok := s.store[0][k]
	switch p.kind {
	case kAbsent:
		vr.Assert(!ok, ob)
	case kOther:
		v, is := e.Value.(string)
		vr.Assert(ok && is && v == p.str, ob)
	case kSet:
		st, is := e.Value.(*set.Set)
		if !ok || !is {
			vr.Assert(len(p.members) == 0 && !ok, ob)
			return
		}
		good := st.Cardinality() == len(p.members) && len(st.GetAll()) == len(p.members)
		for _, m := range p.members {
			good = good && st.Contains(m)
		}
		vr.Assert(good && setEnumOK(st, p.members), ob)
	}
}

// matchStrs: the reply elements are exactly want (pairwise distinct), in any order.
func matchStrs(elems []vr.Resp, want []string) bool {
	if len(elems) != len(want) {
		return false
	}
	used := make([]bool, len(want))
	for _, e := range elems {
		if !e.OK || e.Null {
			return false
		}
		found := false
		for j, w := range want {
			if !used[j] && e.Str == w {
				used[j] = true
				found = true
				break
			}
		}
		if !found {
			return false
		}
	}
	return true
}

func arrayReply(reply []byte) (vr.Resp, bool) {
	r := vr.Decode(reply)
	return r, r.OK && r.Kind == '*' && !r.Null
}

func Verif_C16_SAdd() {
	s := verifServer()
	k := vr.Tok("k")
	p := c16Preset(s, k, "a", 3)
	m1, m2 := vr.Tok("m1"), vr.Tok("m2")
	reply, err, panicked := verifRun(s, "SADD", k, m1, m2)
	vr.Assert(!panicked, "C16.sadd.nopanic")
	if panicked {
		return
	}
	if p.kind == kOther {
		vr.Assert(err != nil, "C16.sadd.wrongtype")
		c16Holds(s, k, p, "C16.sadd.wrongtype_unchanged")
		vr.Reach("end")
		return
	}
	post := c16Pre{kind: kSet, members: append([]string{}, p.members...)}
	added := 0
	for _, m := range []string{m1, m2} {
		if !contains(post.members, m) {
			post.members = append(post.members, m)
			added++
		}
	}
	vr.Assert(err == nil && isIntReply(reply, added), "C16.sadd.reply")
	c16Holds(s, k, post, "C16.sadd.post")
	vr.Reach("end")
}

func Verif_C16_SRem() {
	s := verifServer()
	k := vr.Tok("k")
	p := c16Preset(s, k, "a", 3)
	m1, m2 := vr.Tok("m1"), vr.Tok("m2")
	reply, err, panicked := verifRun(s, "SREM", k, m1, m2)
	vr.Assert(!panicked, "C16.srem.nopanic")
	if panicked {
		return
	}
	if p.kind == kOther {
		vr.Assert(err != nil, "C16.srem.wrongtype")
		c16Holds(s, k, p, "C16.srem.wrongtype_unchanged")
		vr.Reach("end")
		return
	}
	post := c16Pre{kind: p.kind}
	removed := 0
	for _, x := range p.members {
		if x == m1 || x == m2 {
			removed++
		} else {
			post.members = append(post.members, x)
		}
	}
	vr.Assert(err == nil && isIntReply(reply, removed), "C16.srem.reply")
	c16Holds(s, k, post, "C16.srem.post")
	vr.Reach("end")
}

func Verif_C16_Readers() {
	s := verifServer()
	k := vr.Tok("k")
	p := c16Preset(s, k, "a", 3)
	m1, m2 := vr.Tok("m1"), vr.Tok("m2")
	which := vr.Choose("cmd", 4)
	var reply []byte
	var err error
	var panicked bool
	switch which {
	case 0:
		reply, err, panicked = verifRun(s, "SCARD", k)
	case 1:
		reply, err, panicked = verifRun(s, "SISMEMBER", k, m1)
	case 2:
		reply, err, panicked = verifRun(s, "SMISMEMBER", k, m1, m2)
	case 3:
		reply, err, panicked = verifRun(s, "SMEMBERS", k)
	}
	vr.Assert(!panicked, "C16.readers.nopanic")
	if panicked {
		return
	}
	if p.kind == kOther {
		vr.Assert(err != nil, "C16.readers.wrongtype")
	} else {
		vr.Assert(err == nil, "C16.readers.noerror")
		if err == nil {
			b := func(x bool) int {
				if x {
					return 1
				}
				return 0
			}
			switch which {
			case 0:
				vr.Assert(isIntReply(reply, len(p.members)), "C16.scard.reply")
			case 1:
				vr.Assert(isIntReply(reply, b(contains(p.members, m1))), "C16.sismember.reply")
			case 2:
				r, ok := arrayReply(reply)
				vr.Assert(ok && len(r.Elems) == 2, "C16.smismember.shape")
				if ok && len(r.Elems) == 2 {
					vr.Assert(r.Elems[0].Kind == ':' && r.Elems[0].Int == int64(b(contains(p.members, m1))) && r.Elems[1].Kind == ':' && r.Elems[1].Int == int64(b(contains(p.members, m2))), "C16.smismember.reply")
				}
			case 3:
				r, ok := arrayReply(reply)
				vr.Assert(ok, "C16.smembers.wellformed")
				if ok {
					vr.Assert(matchStrs(r.Elems, p.members), "C16.smembers.reply")
				}
			}
		}
	}
	c16Holds(s, k, p, "C16.readers.unchanged")
	vr.Reach("end")
}

func refUnion(a, b []string) []string {
	out := append([]string{}, a...)
	for _, x := range b {
		if !contains(out, x) {
			out = append(out, x)
		}
	}
	return out
}

func refInter(a, b []string) []string {
	var out []string
	for _, x := range a {
		if contains(b, x) {
			out = append(out, x)
		}
	}
	return out
}

func refDiff(a, b []string) []string {
	var out []string
	for _, x := range a {
		if !contains(b, x) {
			out = append(out, x)
		}
	}
	return out
}

// c16Algebra: SUNION / SINTER / SDIFF (+STORE, +SINTERCARD) over two operand keys.
func c16Algebra(op string, store bool) {
	s := verifServer()
	k1, k2 := vr.Tok("k1"), vr.Tok("k2")
	vr.Assume(k1 != k2)
	p1 := c16Preset(s, k1, "a", 2)
	p2 := c16Preset(s, k2, "b", 2)
	var want []string
	switch op {
	case "SUNION":
		want = refUnion(p1.members, p2.members)
	case "SINTER", "SINTERCARD":
		want = refInter(p1.members, p2.members)
	case "SDIFF":
		want = refDiff(p1.members, p2.members)
	}
	var reply []byte
	var err error
	var panicked bool
	dst := ""
	pd := c16Pre{}
	if store {
		dstIs := vr.Choose("dst", 3) // 0 fresh key, 1 = k1, 2 = k2
		switch dstIs {
		case 0:
			dst = vr.Tok("dst")
			vr.Assume(dst != k1 && dst != k2)
			pd = c16Preset(s, dst, "d", 3)
		case 1:
			dst, pd = k1, p1
		case 2:
			dst, pd = k2, p2
		}
		reply, err, panicked = verifRun(s, op+"STORE", dst, k1, k2)
	} else if op == "SINTERCARD" {
		vr.Assume(!strings.EqualFold(k1, "limit") && !strings.EqualFold(k2, "limit"))
		if vr.Choose("withlimit", 2) == 1 {
			limit := vr.Int("limit")
			vr.Assume(limit >= 0 && limit <= 3)
			if limit > 0 && len(want) > limit {
				want = want[:limit]
			}
			reply, err, panicked = verifRun(s, op, k1, k2, "LIMIT", strconv.Itoa(limit))
		} else {
			reply, err, panicked = verifRun(s, op, k1, k2)
		}
	} else {
		reply, err, panicked = verifRun(s, op, k1, k2)
	}
	vr.Assert(!panicked, "C16."+op+".nopanic")
	if panicked {
		return
	}
	if op == "SDIFF" && p1.kind == kAbsent {
		// the repository documents an error when the base set does not exist; an empty result is
		// what the reference set algebra gives. Either way nothing may change.
		if err == nil {
			if store {
				vr.Assert(isIntReply(reply, 0), "C16."+op+".absent_base_reply")
			} else {
				r, ok := arrayReply(reply)
				vr.Assert(ok && len(r.Elems) == 0, "C16."+op+".absent_base_reply")
			}
		}
	} else {
		vr.Assert(err == nil, "C16."+op+".noerror")
		if err == nil {
			if store || op == "SINTERCARD" {
				vr.Assert(isIntReply(reply, len(want)), "C16."+op+".card_reply")
			} else {
				r, ok := arrayReply(reply)
				vr.Assert(ok, "C16."+op+".wellformed")
				if ok {
					vr.Assert(matchStrs(r.Elems, want), "C16."+op+".members")
				}
			}
		}
	}
	// operands are never changed by the algebra (unless one of them is the destination)
	if dst != k1 {
		c16Holds(s, k1, p1, "C16."+op+".operand1_unchanged")
	}
	if dst != k2 {
		c16Holds(s, k2, p2, "C16."+op+".operand2_unchanged")
	}
	if store && err == nil && !(op == "SDIFF" && p1.kind == kAbsent) {
		if len(want) == 0 {
			// an empty result either removes the destination or stores an empty set
			e, ok := s.store[0][dst]
			st, is := e.Value.(*set.Set)
			vr.Assert(!ok || (is && st.Cardinality() == 0), "C16."+op+".store_empty")
		} else {
			c16Holds(s, dst, c16Pre{kind: kSet, members: want}, "C16."+op+".store_post")
		}
		// the destination must not share its set object with a source
		if dst != k1 && dst != k2 {
			d := s.store[0][dst].Value
			vr.Assert(p1.kind != kSet || d != s.store[0][k1].Value, "C16."+op+".store_noalias1")
			vr.Assert(p2.kind != kSet || d != s.store[0][k2].Value, "C16."+op+".store_noalias2")
		}
	}
	_ = pd
	vr.Reach("end")
}

func Verif_C16_SUnion()      { c16Algebra("SUNION", false) }
func Verif_C16_SInter()      { c16Algebra("SINTER", false) }
func Verif_C16_SDiff()       { c16Algebra("SDIFF", false) }
func Verif_C16_SInterCard()  { c16Algebra("SINTERCARD", false) }
func Verif_C16_SUnionStore() { c16Algebra("SUNION", true) }
func Verif_C16_SInterStore() { c16Algebra("SINTER", true) }
func Verif_C16_SDiffStore()  { c16Algebra("SDIFF", true) }

func Verif_C16_SMove() {
	s := verifServer()
	src := vr.Tok("src")
	same := vr.Choose("same", 2) == 1
	dst := src
	ps := c16Preset(s, src, "a", 3)
	pd := ps
	if !same {
		dst = vr.Tok("dst")
		vr.Assume(src != dst)
		pd = c16Preset(s, dst, "b", 3)
	}
	m := vr.Tok("m")
	reply, err, panicked := verifRun(s, "SMOVE", src, dst, m)
	vr.Assert(!panicked, "C16.smove.nopanic")
	if panicked {
		return
	}
	if ps.kind == kOther || (pd.kind == kOther && ps.kind == kSet) {
		vr.Assert(err != nil, "C16.smove.wrongtype")
		c16Holds(s, src, ps, "C16.smove.wrongtype_src_unchanged")
		c16Holds(s, dst, pd, "C16.smove.wrongtype_dst_unchanged")
		vr.Reach("end")
		return
	}
	if ps.kind == kAbsent || !contains(ps.members, m) {
		vr.Assert(err != nil || isIntReply(reply, 0), "C16.smove.notmember_reply")
		c16Holds(s, src, ps, "C16.smove.notmember_src_unchanged")
		c16Holds(s, dst, pd, "C16.smove.notmember_dst_unchanged")
		vr.Reach("end")
		return
	}
	if pd.kind == kAbsent {
		// moving into a key that does not exist yet: outside the claim (the repository rejects it)
		vr.Reach("end")
		return
	}
	vr.Assert(err == nil && isIntReply(reply, 1), "C16.smove.reply")
	if same {
		c16Holds(s, src, ps, "C16.smove.same_unchanged")
	} else {
		c16Holds(s, src, c16Pre{kind: kSet, members: refDiff(ps.members, []string{m})}, "C16.smove.src_post")
		c16Holds(s, dst, c16Pre{kind: kSet, members: refUnion(pd.members, []string{m})}, "C16.smove.dst_post")
	}
	vr.Reach("end")
}

// SPOP / SRANDMEMBER: correctly sized selections of current members (SPOP removes them).
func c16Random(cmd string, pop bool) {
	s := verifServer()
	k := vr.Tok("k")
	p := c16Preset(s, k, "a", 3)
	withCount := vr.Choose("withcount", 2) == 1
	count := 1
	argv := []string{cmd, k}
	if withCount {
		count = vr.Int("count")
		if pop {
			vr.Assume(count >= 0 && count <= 4)
		} else {
			vr.Assume(count >= -4 && count <= 4)
		}
		argv = append(argv, strconv.Itoa(count))
	}
	reply, err, panicked := verifRun(s, argv...)
	vr.Assert(!panicked, "C16."+cmd+".nopanic")
	if panicked {
		return
	}
	if p.kind == kOther {
		vr.Assert(err != nil, "C16."+cmd+".wrongtype")
		c16Holds(s, k, p, "C16."+cmd+".wrongtype_unchanged")
		vr.Reach("end")
		return
	}
	vr.Assert(err == nil, "C16."+cmd+".noerror")
	if err != nil {
		return
	}
	n := len(p.members)
	wantLen := 0
	switch {
	case n == 0 || count == 0:
		wantLen = 0
	case count > 0:
		wantLen = count
		if wantLen > n {
			wantLen = n
		}
	default:
		wantLen = -count
	}
	r := vr.Decode(reply)
	vr.Assert(r.OK && (r.Kind == '*' || r.Kind == '$' || r.Kind == '+' || r.Null), "C16."+cmd+".wellformed")
	if !r.OK {
		return
	}
	elems := r.Elems
	if r.Kind != '*' && !r.Null {
		elems = []vr.Resp{r}
	}
	vr.Assert(len(elems) == wantLen, "C16."+cmd+".size")
	all := true
	for _, e := range elems {
		all = all && e.OK && !e.Null && contains(p.members, e.Str)
	}
	vr.Assert(all, "C16."+cmd+".subset")
	if count > 0 {
		distinct := true
		for i := range elems {
			for j := i + 1; j < len(elems); j++ {
				distinct = distinct && elems[i].Str != elems[j].Str
			}
		}
		vr.Assert(distinct, "C16."+cmd+".distinct")
	}
	if pop {
		var rest []string
		for _, m := range p.members {
			gone := false
			for _, e := range elems {
				if e.Str == m {
					gone = true
				}
			}
			if !gone {
				rest = append(rest, m)
			}
		}
		if p.kind == kAbsent {
			c16Holds(s, k, p, "C16."+cmd+".absent_unchanged")
		} else {
			c16Holds(s, k, c16Pre{kind: kSet, members: rest}, "C16."+cmd+".post")
		}
	} else {
		c16Holds(s, k, p, "C16."+cmd+".unchanged")
	}
	vr.Reach("end")
}

func Verif_C16_SPop()        { c16Random("SPOP", true) }
func Verif_C16_SRandMember() { c16Random("SRANDMEMBER", false) }

// ---- three operands (the third possibly the same key as the second) ----
//
// SUNION / SINTER / SDIFF and their STORE forms over base, s1, s2 with members that may be shared
// between any of the operands (a base member subtracted twice, a member present in all three): the
// reply and the stored destination - its members *and* its cardinality - are those of the reference
// algebra folded over the operands, and the operands are unchanged.
func c16Three(op string, store bool) {
	s := verifServer()
	k1, k2 := vr.Tok("k1"), vr.Tok("k2")
	vr.Assume(k1 != k2)
	p1 := c16Preset(s, k1, "a", 2)
	p2 := c16Preset(s, k2, "b", 2)
	k3, p3 := k2, p2
	if vr.Choose("third_is_second", 2) == 0 {
		k3 = vr.Tok("k3")
		vr.Assume(k3 != k1 && k3 != k2)
		p3 = c16Pre{kind: vr.Choose("c_kind", 2)}
		if p3.kind == kSet {
			if vr.Choose("c_n", 2) == 1 {
				p3.members = []string{vr.Tok("c_m0")}
			}
			verifPreset(s, 0, k3, set.NewSet(append([]string{}, p3.members...)))
		}
	}
	if op == "SDIFF" {
		vr.Assume(p1.kind == kSet) // an absent base set is an error in the repository: covered by the two-operand harness
	}
	var want []string
	switch op {
	case "SUNION":
		want = refUnion(refUnion(p1.members, p2.members), p3.members)
	case "SINTER":
		want = refInter(refInter(p1.members, p2.members), p3.members)
	case "SDIFF":
		want = refDiff(refDiff(p1.members, p2.members), p3.members)
	}
	var reply []byte
	var err error
	var panicked bool
	dst := ""
	if store {
		dst = vr.Tok("dst")
		vr.Assume(dst != k1 && dst != k2 && dst != k3)
		reply, err, panicked = verifRun(s, op+"STORE", dst, k1, k2, k3)
	} else {
		reply, err, panicked = verifRun(s, op, k1, k2, k3)
	}
	ob := "C16." + op + "_three"
	vr.Assert(!panicked, ob+".nopanic")
	if panicked {
		return
	}
	vr.Assert(err == nil, ob+".noerror")
	if err != nil {
		return
	}
	if store {
		vr.Assert(isIntReply(reply, len(want)), ob+".card_reply")
		if len(want) == 0 {
			e, ok := s.store[0][dst]
			st, is := e.Value.(*set.Set)
			vr.Assert(!ok || (is && st.Cardinality() == 0 && len(st.GetAll()) == 0), ob+".store_empty")
		} else {
			c16Holds(s, dst, c16Pre{kind: kSet, members: want}, ob+".store_post")
		}
	} else {
		r, ok := arrayReply(reply)
		vr.Assert(ok && matchStrs(r.Elems, want), ob+".members")
	}
	c16Holds(s, k1, p1, ob+".operand_unchanged")
	c16Holds(s, k2, p2, ob+".operand_unchanged")
	c16Holds(s, k3, p3, ob+".operand_unchanged")
	vr.Reach("end")
}

func Verif_C16_SUnionThree()     { c16Three("SUNION", vr.Choose("store", 2) == 1) }
func Verif_C16_SInterThree()     { c16Three("SINTER", vr.Choose("store", 2) == 1) }
func Verif_C16_SDiffThree()      { c16Three("SDIFF", false) }
func Verif_C16_SDiffStoreThree() { c16Three("SDIFF", true) }
