package sugardb

// C09 — log rewrite (REWRITEAOF) is transparent and crash-atomic. The real server, the real AOF
// engine, preamble store and log store run over in-memory files with os.File semantics (offset,
// append mode, holes, durability watermark). A crash is injected before the k-th file operation of
// the rewrite for every k; the image left on "disk" is restored by a fresh server through the
// real engine and compared with the acknowledged dataset.

import (
	"fmt"
	"io"
	"strconv"
	"strings"
	"time"

	"github.com/echovault/sugardb/internal/config"
	"github.com/echovault/sugardb/internal/constants"
	"github.com/echovault/sugardb/internal/modules/set"
	"github.com/echovault/sugardb/internal/modules/sorted_set"
	vr "github.com/echovault/sugardb/internal/verifrt"
)

type c09Disk struct {
	ops     int
	crashAt int // the operation with this number does not happen: the process dies first (0 = never)
}

// c09File is an in-memory file behind the ReadWriter seams of the preamble and the log store.
type c09File struct {
	disk       *c09Disk
	appendMode bool
	data       []byte
	synced     int // bytes known to be durable
	pos        int
}

func (f *c09File) step() {
	if f.disk == nil {
		return
	}
	f.disk.ops++
	if f.disk.ops == f.disk.crashAt {
		panic("verif: crash")
	}
}

func (f *c09File) Read(b []byte) (int, error) {
	if f.pos >= len(f.data) {
		return 0, io.EOF
	}
	n := copy(b, f.data[f.pos:])
	f.pos += n
	return n, nil
}

func (f *c09File) Write(b []byte) (int, error) {
	f.step()
	if f.appendMode {
		f.pos = len(f.data)
	}
	for len(f.data) < f.pos {
		f.data = append(f.data, 0) // a hole reads back as NUL bytes
	}
	if f.pos < f.synced {
		f.synced = f.pos
	}
	f.data = append(f.data[:f.pos], b...)
	f.pos += len(b)
	return len(b), nil
}

func (f *c09File) Seek(offset int64, whence int) (int64, error) {
	switch whence {
	case 0:
		f.pos = int(offset)
	case 1:
		f.pos += int(offset)
	case 2:
		f.pos = len(f.data) + int(offset)
	}
	return int64(f.pos), nil
}

func (f *c09File) Close() error { return nil }

// VerifContent: what a reader positioned at the current offset gets.
func (f *c09File) VerifContent() []byte {
	if f.pos >= len(f.data) {
		return nil
	}
	return f.data[f.pos:]
}

func (f *c09File) Truncate(size int64) error {
	f.step()
	if int(size) < len(f.data) {
		f.data = f.data[:size]
	}
	for len(f.data) < int(size) {
		f.data = append(f.data, 0)
	}
	if f.synced > len(f.data) {
		f.synced = len(f.data)
	}
	return nil
}

func (f *c09File) Sync() error {
	f.step()
	f.synced = len(f.data)
	return nil
}

// image is what a restart finds: everything synced, and of the bytes written since the last sync
// an arbitrary prefix (chosen by the solver among none / half / all in the quick tier, every cut
// in the thorough tier).
func (f *c09File) image(name string) *c09File {
	cut := len(f.data)
	if f.synced < len(f.data) {
		if vr.Tier() == 0 {
			switch vr.Choose(name+"_unsynced", 3) {
			case 0:
				cut = f.synced
			case 1:
				cut = f.synced + (len(f.data)-f.synced)/2
			}
		} else {
			cut = f.synced + vr.Choose(name+"_unsynced", len(f.data)-f.synced+1)
		}
	}
	return &c09File{appendMode: f.appendMode, data: append([]byte{}, f.data[:cut]...), synced: cut}
}

// c09Write issues one write of the chosen kind on key k and returns the command family name.
func c09Kinds() []string { return []string{"string", "int", "list", "set", "zset", "hash", "volatile", "float_inf"} }

func c09Write(s *SugarDB, kind int, k, v string) {
	switch c09Kinds()[kind] {
	case "string":
		c05Run(s, "SET", k, v)
	case "int":
		c05Run(s, "SET", k, "12")
	case "list":
		c05Run(s, "RPUSH", k, "a", "b")
	case "set":
		c05Run(s, "SADD", k, "a", "b")
	case "zset":
		c05Run(s, "ZADD", k, "1", "a", "2", "b")
	case "hash":
		c05Run(s, "HSET", k, "f", "a", "g", "7")
	case "float_inf":
		// AdaptType stores the float64 +Inf, which encoding/json refuses: the rewrite must fail
		// and leave everything as it was
		if k == "k1" {
			c05Run(s, "SET", k, v)
		} else {
			c05Run(s, "SET", k, "inf")
		}
	case "volatile":
		c05Run(s, "SET", k, v)
		c05Run(s, "PEXPIREAT", k, "4000000000000")
	}
}

// c09Digest renders key k of database db: type, value and deadline.
func c09Digest(s *SugarDB, db int, k string) string {
	e, ok := s.store[db][k]
	if !ok {
		return "<absent>"
	}
	out := ""
	switch v := e.Value.(type) {
	case string:
		out = "s:" + v
	case int:
		out = "i:" + itoa(v)
	case float64:
		out = "f:" + strconv.FormatFloat(v, 'g', -1, 64)
	case []string:
		out = "l:" + strings.Join(v, ",")
	case *set.Set:
		out = "set:" + strings.Join(c05Sorted(v.GetAll()), ",")
	case *sorted_set.SortedSet:
		var ms []string
		for _, m := range v.GetAll() {
			ms = append(ms, string(m.Value)+"="+strconv.FormatFloat(float64(m.Score), 'f', -1, 64))
		}
		out = "z:" + strings.Join(c05Sorted(ms), ",")
	case map[string]interface{}:
		var fs []string
		for f, x := range v {
			fs = append(fs, f+"="+fmt.Sprint(x))
		}
		out = "h:" + strings.Join(c05Sorted(fs), ",")
	default:
		out = fmt.Sprintf("other(%T)", v)
	}
	if e.ExpireAt != (time.Time{}) {
		out += "@" + strconv.FormatInt(e.ExpireAt.UnixMilli(), 10)
	}
	return out
}

// c09Token: the symbolic operand. In the thorough tier files are cut at every byte offset, so the
// operand is three separate symbolic bytes rather than one opaque three-byte token.
func c09Token() string {
	if vr.Tier() == 1 {
		return gBytes("v", 3)
	}
	return vr.TokN("v", 3)
}

// c09Scenario: [first write] [optional earlier rewrite] [second write on another key] REWRITEAOF
// with a crash before its k-th file operation (or none), restart, compare.
func c09Scenario(tag string, kind int, earlier bool, crash bool) {
	disk := &c09Disk{}
	logF := &c09File{disk: disk, appendMode: true}
	preF := &c09File{disk: disk}
	s := verifAOFServer(logF, preF, "always")
	// the client works in database 0 or in another one
	dbChoice := []int{0, 5}
	db := dbChoice[vr.Choose("db", 2)]
	_ = s.SelectDB(db)
	k1, k2, k3 := "k1", "k2", "k3"
	v := c09Token()
	c09Write(s, kind, k1, v)
	if earlier {
		r := c05Run(s, "REWRITEAOF")
		vr.Assert(r == "+OK\r\n", tag+".earlier_rewrite_replies_ok")
	}
	c09Write(s, kind, k2, v)
	// the rewrite under test
	base := disk.ops
	if crash {
		n := vr.Int("crash_before_op")
		vr.Assume(n >= 1 && n <= 8)
		disk.crashAt = base + n
	}
	crashed := false
	reply := ""
	func() {
		defer func() {
			if x := recover(); x != nil {
				if fmt.Sprint(x) != "verif: crash" {
					panic(x)
				}
				crashed = true
			}
		}()
		reply = c05Run(s, "REWRITEAOF")
	}()
	if crash && !crashed {
		// the rewrite has fewer file operations than the chosen crash point
		vr.Assume(false)
	}
	if !crashed && c09Kinds()[kind] != "float_inf" {
		vr.Assert(reply == "+OK\r\n", tag+".rewrite_replies_ok")
	}
	disk.crashAt = 0
	if !crashed && c09Kinds()[kind] != "float_inf" {
		// life goes on after the rewrite: a further acknowledged write in the same database
		c05Run(s, "SET", k3, "after")
	}
	dbs := []int{0, 5}
	want := c07View(s, dbs, k1, k2, k3)
	// restart on what is on disk
	s2 := verifAOFServer(logF.image("log"), preF.image("preamble"), "always")
	_ = s2.aofEngine.Restore() // start-up only logs a restore error; what counts is the dataset served
	vr.Assert(c07View(s2, dbs, k1, k2, k3) == want, tag+".restore_equals_acknowledged_dataset")
	vr.Reach("end")
}

func c09All(tag string, kind int) {
	earlier := vr.Choose("earlier_rewrite", 2) == 1
	crash := vr.Choose("crash", 2) == 1
	c09Scenario(tag, kind, earlier, crash)
}

func Verif_C09_Rewrite_String()   { c09All("C09.rewrite_string", 0) }
func Verif_C09_Rewrite_Int()      { c09All("C09.rewrite_int", 1) }
func Verif_C09_Rewrite_List()     { c09All("C09.rewrite_list", 2) }
func Verif_C09_Rewrite_Set()      { c09All("C09.rewrite_set", 3) }
func Verif_C09_Rewrite_ZSet()     { c09All("C09.rewrite_zset", 4) }
func Verif_C09_Rewrite_Hash()     { c09All("C09.rewrite_hash", 5) }
func Verif_C09_Rewrite_Volatile() { c09All("C09.rewrite_volatile", 6) }
func Verif_C09_Rewrite_Failing()  { c09All("C09.rewrite_failing", 7) }

// The same scenarios without a crash belong to C02 as well: what a restart serves from preamble +
// log equals the acknowledged writes, also when a rewrite failed or ran twice.
func c02Rewrite(tag string, kind int) {
	c09Scenario(tag, kind, vr.Choose("earlier_rewrite", 2) == 1, false)
}
func Verif_C02_Rewrite_String()   { c02Rewrite("C02.rewrite_string", 0) }
func Verif_C02_Rewrite_Hash()     { c02Rewrite("C02.rewrite_hash", 5) }
func Verif_C02_Rewrite_Volatile() { c02Rewrite("C02.rewrite_volatile", 6) }
func Verif_C02_Rewrite_Failing()  { c02Rewrite("C02.rewrite_failing", 7) }

// A writer racing with the rewrite (pre-emption at every lock acquisition, bounded): whatever the
// interleaving, the acknowledged write is in what a restart serves.
func Verif_C09_Rewrite_ConcurrentWriter() {
	tag := "C09.rewrite_concurrent"
	logF := &c09File{appendMode: true}
	preF := &c09File{}
	s := verifAOFServer(logF, preF, "always")
	v := vr.TokN("v", 3)
	c05Run(s, "SET", "k1", v)
	if vr.Choose("earlier_rewrite", 2) == 1 {
		c05Run(s, "REWRITEAOF")
	}
	c05Run(s, "SET", "k2", v)
	vr.PreemptAtLocks(c05Bound())
	var r1, r2 string
	crashed := ""
	for round := 0; round < vr.Rounds(2000) && crashed == ""; round++ {
		func() {
			defer func() {
				if x := recover(); x != nil {
					crashed = fmt.Sprint(x)
				}
			}()
			vr.Go(func() { r2 = c05Run(s, "SET", "k3", v) })
			r1 = c05Run(s, "REWRITEAOF")
			vr.Join()
		}()
	}
	vr.Assert(!strings.Contains(crashed, "deadlock"), tag+".nodeadlock")
	if crashed != "" {
		vr.Reach("end")
		return
	}
	vr.Assert(r1 == "+OK\r\n" && r2 == "+OK\r\n", tag+".both_acknowledged")
	s2 := verifAOFServer(logF.image("log"), preF.image("preamble"), "always")
	_ = s2.aofEngine.Restore()
	ok := true
	for _, k := range []string{"k1", "k2", "k3"} {
		if c09Digest(s2, 0, k) != c09Digest(s, 0, k) {
			ok = false
		}
	}
	vr.Assert(ok, tag+".restore_equals_acknowledged_dataset")
	vr.Reach("end")
}

// Verif_C09_Rewrite_AfterShrinking: a rewrite after the dataset has shrunk — keys deleted, a database
// flushed, every database emptied — since the previous rewrite. What a restart serves is the dataset
// at the last rewrite plus the later writes: nothing deleted comes back from an older preamble.
func Verif_C09_Rewrite_AfterShrinking() {
	tag := "C09.rewrite_after_shrinking"
	logF := &c09File{appendMode: true}
	preF := &c09File{}
	s := verifAOFServer(logF, preF, "always")
	v := vr.TokN("v", 3)
	_ = s.SelectDB(0)
	c05Run(s, "SET", "k1", v)
	if vr.Choose("second_db", 2) == 1 {
		_ = s.SelectDB(5)
		c05Run(s, "SET", "k2", v)
		_ = s.SelectDB(0)
	}
	vr.Assert(c05Run(s, "REWRITEAOF") == "+OK\r\n", tag+".first_rewrite_replies_ok")
	switch vr.Choose("shrink", 5) {
	case 0:
		c05Run(s, "DEL", "k1")
	case 1:
		c05Run(s, "FLUSHALL")
	case 2:
		c05Run(s, "FLUSHDB")
	case 3:
		c05Run(s, "DEL", "k1")
		_ = s.SelectDB(5)
		c05Run(s, "DEL", "k2")
		_ = s.SelectDB(0)
	case 4:
		c05Run(s, "RENAME", "k1", "k3")
	}
	vr.Assert(c05Run(s, "REWRITEAOF") == "+OK\r\n", tag+".second_rewrite_replies_ok")
	if vr.Choose("write_after", 2) == 1 {
		c05Run(s, "SET", "k4", "after")
	}
	dbs := []int{0, 5}
	want := c07View(s, dbs, "k1", "k2", "k3", "k4")
	s2 := verifAOFServer(logF.image("log"), preF.image("preamble"), "always")
	_ = s2.aofEngine.Restore()
	vr.Assert(c07View(s2, dbs, "k1", "k2", "k3", "k4") == want, tag+".restore_equals_acknowledged_dataset")
	vr.Reach("end")
}

// ---- the same through the real constructor: its own wiring of the AOF engine (state copy, key
// restore and replay closures) over the data directory (modelled file system; a temporary directory
// natively) ----

func c09RealServer(dir string, restore bool) *SugarDB {
	s, err := NewSugarDB(WithConfig(config.Config{
		DataDir:           dir,
		EvictionPolicy:    constants.NoEviction,
		RestoreAOF:        restore,
		AOFSyncStrategy:   "always",
		SnapShotThreshold: 1000,
	}))
	if err != nil {
		panic("verif: constructor failed: " + err.Error())
	}
	return s
}

// c09RealScenario: writes in database 0 (and optionally 5), REWRITEAOF, a change that may shrink the
// dataset (also to nothing), optionally a second REWRITEAOF and a later write, then a restart with AOF
// restore through the real constructor: the restarted server shows what the first one showed.
func c09RealScenario(tag string) {
	dir := vr.FSReset()
	s := c09RealServer(dir, false)
	v := "val"
	_ = s.SelectDB(0)
	c05Run(s, "SET", "k1", v)
	c05Run(s, "HSET", "h", "f", v)
	if vr.Choose("second_db", 2) == 1 {
		_ = s.SelectDB(5)
		c05Run(s, "SET", "k2", v)
		_ = s.SelectDB(0)
	}
	if vr.Choose("first_rewrite", 2) == 1 {
		vr.Assert(c05Run(s, "REWRITEAOF") == "+OK\r\n", tag+".first_rewrite_replies_ok")
	}
	switch vr.Choose("change", 7) {
	case 0:
		c05Run(s, "DEL", "k1")
	case 1:
		c05Run(s, "FLUSHALL")
	case 2:
		c05Run(s, "FLUSHDB")
	case 3:
		c05Run(s, "DEL", "k1", "h")
		_ = s.SelectDB(5)
		c05Run(s, "DEL", "k2")
		_ = s.SelectDB(0)
	case 4:
		c05Run(s, "RENAME", "k1", "k3")
	case 5:
		c05Run(s, "PEXPIREAT", "k1", "4000000000000")
	case 6:
		c05Run(s, "APPEND", "k1", "+more")
	}
	if vr.Choose("second_rewrite", 2) == 1 {
		vr.Assert(c05Run(s, "REWRITEAOF") == "+OK\r\n", tag+".second_rewrite_replies_ok")
	}
	if vr.Choose("write_after", 2) == 1 {
		_ = s.SelectDB(5)
		c05Run(s, "SET", "k4", "after")
		_ = s.SelectDB(0)
	}
	dbs := []int{0, 5}
	want := c07View(s, dbs, "k1", "k2", "k3", "k4", "h")
	s2 := c09RealServer(dir, true)
	vr.Assert(c07View(s2, dbs, "k1", "k2", "k3", "k4", "h") == want, tag+".restart_serves_the_acknowledged_dataset")
	vr.Reach("end")
}

func Verif_C09_RealServer_RewriteAndRestart() { c09RealScenario("C09.real_server") }
func Verif_C02_RealServer_RewriteAndRestart() { c09RealScenario("C02.real_server") }

// c09RealRewriteFirst: a rewrite as the very first thing a process does with its log - on a fresh data
// directory, or right after a restart that restored earlier writes - followed by acknowledged writes and
// another restart: the writes made after that rewrite are served.
func c09RealRewriteFirst(tag string) {
	dir := vr.FSReset()
	dbs := []int{0, 5}
	db := dbs[vr.Choose("db", 2)]
	if vr.Choose("earlier_lifetime", 2) == 1 {
		s0 := c09RealServer(dir, false)
		_ = s0.SelectDB(db)
		c05Run(s0, "SET", "k1", "old")
		c05Run(s0, "SET", "k0", "kept")
	}
	s := c09RealServer(dir, true)
	vr.Assert(c05Run(s, "REWRITEAOF") == "+OK\r\n", tag+".rewrite_replies_ok")
	_ = s.SelectDB(db)
	c05Run(s, "SET", "k1", "new")
	c05Run(s, "SET", "k2", "v2")
	if vr.Choose("other_db_too", 2) == 1 {
		_ = s.SelectDB(0)
		c05Run(s, "SET", "k3", "v3")
	}
	want := c07View(s, dbs, "k0", "k1", "k2", "k3")
	s2 := c09RealServer(dir, true)
	vr.Assert(c07View(s2, dbs, "k0", "k1", "k2", "k3") == want, tag+".restart_serves_the_acknowledged_dataset")
	vr.Reach("end")
}

func Verif_C09_RealServer_RewriteFirst() { c09RealRewriteFirst("C09.real_server_rewrite_first") }
func Verif_C02_RealServer_RewriteFirst() { c09RealRewriteFirst("C02.real_server_rewrite_first") }
