package sugardb

// C12 — wire protocol: one well-formed reply per command, no crash on any argument vector,
// stored bytes (CR, LF, NUL, empty) come back without frame injection.

import (
	"strconv"
	"strings"

	"github.com/echovault/sugardb/internal/constants"
	"github.com/echovault/sugardb/internal/modules/sorted_set"
	vr "github.com/echovault/sugardb/internal/verifrt"
)

// c12Module: every command of a module with argument vectors of length 1..5 made of the two
// keys, arbitrary strings (NOT assumed free of CR/LF), small integers; arbitrary typed pre-state.
// The handler returns an error, or bytes that parse as exactly one strict RESP value.
func c12Module(module string, preferKind int) {
	gConcreteScores = true
	s := verifServer()
	cmds := c13Commands(s, module)
	c := cmds[vr.Choose("cmd", len(cmds))]
	k1, k2 := vr.Tok("k1"), vr.Tok("k2")
	vr.Assume(k1 != k2)
	kind := func(name string) int {
		switch vr.Choose(name, 3) {
		case 0:
			return gAbsent
		case 1:
			return preferKind
		}
		if preferKind == gStr {
			return gList
		}
		return gStr
	}
	gStoreIn(s, 0, k1, gSym("p1", kind("p1kind"), 1))
	if vr.Choose("p2", 2) == 1 {
		gStoreIn(s, 0, k2, gSym("p2", preferKind, 1))
	}
	x, y := vr.Tok("x"), vr.Tok("y")
	if gByteStrings > 0 {
		x, y = gBytes("xb", 2), gBytes("yb", 1)
	}
	if module == constants.SortedSetModule {
		// the BYLEX forms compare members byte by byte: exercised with byte members elsewhere
		vr.Assume(!strings.EqualFold(x, "bylex") && !strings.EqualFold(y, "bylex"))
	}
	n := vr.Int("n")
	vr.Assume(n >= -2 && n <= 2)
	var argv []string
	switch vr.Choose("shape", 9) {
	case 0:
		argv = []string{c.Command}
	case 1:
		argv = []string{c.Command, k1}
	case 2:
		argv = []string{c.Command, k1, k2}
	case 3:
		argv = []string{c.Command, k1, x}
	case 4:
		argv = []string{c.Command, k1, strconv.Itoa(n)}
	case 5:
		argv = []string{c.Command, k1, strconv.Itoa(n), x}
	case 6:
		argv = []string{c.Command, k1, x, y}
	case 7:
		argv = []string{c.Command, k1, strconv.Itoa(n), strconv.Itoa(n)}
	case 8:
		argv = []string{c.Command, k1, k2, x, y}
	}
	reply, err, panicked := verifRun(s, argv...)
	vr.Assert(!panicked, "C12."+module+".no_crash")
	if panicked {
		return
	}
	if err == nil {
		r := vr.Decode(reply)
		vr.Assert(r.OK, "C12."+module+".reply_is_one_wellformed_value")
	}
	vr.Reach("end")
}

func Verif_C12_Generic()     { c12Module(constants.GenericModule, gStr) }
func Verif_C12_String()      { gByteStrings = 2; c12Module(constants.StringModule, gStr) }
func Verif_C12_Hash()        { c12Module(constants.HashModule, gHash) }
func Verif_C12_List()        { c12Module(constants.ListModule, gList) }
func Verif_C12_Set()         { c12Module(constants.SetModule, gSet) }
func Verif_C12_SortedSet_A() { gCmdPart, gCmdParts = 0, 3; c12Module(constants.SortedSetModule, gZSet) }
func Verif_C12_SortedSet_B() { gCmdPart, gCmdParts = 1, 3; c12Module(constants.SortedSetModule, gZSet) }
func Verif_C12_SortedSet_C() { gCmdPart, gCmdParts = 2, 3; c12Module(constants.SortedSetModule, gZSet) }

// Verif_C12_ByteFidelity: a stored value that may contain CR, LF or NUL (or be empty) comes back
// equal through every reader of its type.
func Verif_C12_ByteFidelity() {
	s := verifServer()
	k := vr.Tok("k")
	v := vr.Tok("v") // arbitrary bytes: nothing assumed
	which := vr.Choose("reader", 8)
	var reply []byte
	var err error
	var panicked bool
	switch which {
	case 0:
		verifPreset(s, 0, k, v)
		reply, err, panicked = verifRun(s, "GET", k)
	case 1:
		verifPreset(s, 0, k, v)
		reply, err, panicked = verifRun(s, "MGET", k)
	case 2:
		verifPreset(s, 0, k, []string{v})
		reply, err, panicked = verifRun(s, "LRANGE", k, "0", "-1")
	case 3:
		verifPreset(s, 0, k, []string{v})
		reply, err, panicked = verifRun(s, "LINDEX", k, "0")
	case 4:
		verifPreset(s, 0, k, map[string]interface{}{"f": v})
		reply, err, panicked = verifRun(s, "HGET", k, "f")
	case 5:
		verifPreset(s, 0, k, map[string]interface{}{"f": v})
		reply, err, panicked = verifRun(s, "HVALS", k)
	case 6:
		verifPreset(s, 0, k, v)
		reply, err, panicked = verifRun(s, "GETDEL", k)
	case 7:
		verifPreset(s, 0, k, []string{v})
		reply, err, panicked = verifRun(s, "LPOP", k)
	}
	vr.Assert(!panicked && err == nil, "C12.fidelity.noerror")
	if panicked || err != nil {
		return
	}
	r := vr.Decode(reply)
	vr.Assert(r.OK, "C12.fidelity.wellformed")
	if r.OK {
		if r.Kind == '*' && len(r.Elems) == 1 {
			r = r.Elems[0]
		}
		vr.Assert(!r.Null && r.Str == v, "C12.fidelity.bytes_come_back_equal")
	}
	vr.Reach("end")
}

// Verif_C12_ChunkedWrite: the real connection loop (handleConnection) is run on a fake connection
// that delivers one GET; the stored value is 1017 + 1024*(q-1) + r opaque bytes (q = 1..3,
// r arbitrary in 0..1023), so the reply is 1024*q + r + 2 bytes and exercises every alignment of
// the 1 KB chunking arithmetic. The bytes written to the connection must be the reply, once.
func Verif_C12_ChunkedWrite() {
	s := verifServer()
	q := 1 + vr.Choose("q", 3)
	v := vr.TokN("a0", 1017) // "$dddd\r\n" is 7 bytes: the first kilobyte ends with a0
	for i := 1; i < q; i++ {
		v += vr.TokN("a"+strconv.Itoa(i), 1024)
	}
	r := vr.Tok("r")
	vr.Assume(len(r) <= 1023)
	v += r
	vr.Assume(len(v) >= 1000 && len(v) <= 9999) // four-digit bulk length
	verifPreset(s, 0, "k", v)
	fc := &fakeConn{input: [][]byte{[]byte("*2\r\n$3\r\nGET\r\n$1\r\nk\r\n")}}
	s.handleConnection(fc)
	want := "$" + strconv.Itoa(len(v)) + "\r\n" + v + "\r\n"
	vr.Assert(string(fc.written) == want, "C12.chunked_write.reply_written_exactly_once")
	vr.Assert(fc.closed, "C12.chunked_write.connection_closed_on_eof")
	vr.Reach("end")
}

// Verif_C12_ChunkBoundaries: replies whose total length sits on, just below and just above the
// multiples of the 1024-byte write chunk reach the client complete, once, and are followed by the
// next reply (concrete contents, so that any way of cutting the reply into writes can be followed).
func Verif_C12_ChunkBoundaries() { verifChunkBoundaries("C12") }

// Verif_C01_LongValuesOverTheWire: the same scenario under C01 - a long value read back by a TCP client
// arrives byte for byte, whatever its length relative to the 1 KB pieces replies are sent in.
func Verif_C01_LongValuesOverTheWire() { verifChunkBoundaries("C01") }

func verifChunkBoundaries(tag string) {
	s := verifServer()
	lengths := []int{1023, 1024, 1025, 1026, 2047, 2048, 2049, 2050, 3072, 3073, 4097, 5000}
	total := lengths[vr.Choose("reply_len", len(lengths))]
	v := strings.Repeat("v", total-9) // "$dddd\r\n" + value + "\r\n"
	verifPreset(s, 0, "k", v)
	fc := &fakeConn{input: [][]byte{[]byte("*2\r\n$3\r\nGET\r\n$1\r\nk\r\n"), []byte("*1\r\n$4\r\nPING\r\n")}}
	s.handleConnection(fc)
	want := "$" + strconv.Itoa(len(v)) + "\r\n" + v + "\r\n" + "+PONG\r\n"
	vr.Assert(string(fc.written) == want, tag+".chunk_boundaries.reply_complete_then_next_reply")
	vr.Reach("end")
}

// Verif_C12_Pipeline: two commands delivered in separate reads get one reply each, in order;
// an erroring command gets exactly one error reply.
func Verif_C12_Pipeline() {
	s := verifServer()
	v := vr.Tok("v")
	vr.Assume(len(v) <= 100)
	verifPreset(s, 0, "k", v)
	bad := vr.Choose("second_is_error", 2) == 1
	second := "*2\r\n$3\r\nGET\r\n$1\r\nk\r\n"
	if bad {
		second = "*1\r\n$3\r\nGET\r\n"
	}
	fc := &fakeConn{input: [][]byte{[]byte("*1\r\n$4\r\nPING\r\n"), []byte(second)}}
	s.handleConnection(fc)
	if bad {
		vr.Assert(fc.writes == 2 && len(fc.written) > 7 && string(fc.written[:7]) == "+PONG\r\n" && fc.written[7] == '-', "C12.pipeline.error_gets_one_reply")
	} else {
		vr.Assert(string(fc.written) == "+PONG\r\n"+encBulk(v), "C12.pipeline.one_reply_per_command_in_order")
	}
	vr.Reach("end")
}

// Verif_C12_Segmentation: the same two commands delivered (a) in one read, (b) with the second
// command split across two reads. Every complete command must get exactly one reply, in order.
func Verif_C12_Segmentation() {
	s := verifServer()
	verifPreset(s, 0, "k", "val")
	ping := "*1\r\n$4\r\nPING\r\n"
	get := "*2\r\n$3\r\nGET\r\n$1\r\nk\r\n"
	var fc *fakeConn
	mode := vr.Choose("mode", 2)
	if mode == 0 {
		fc = &fakeConn{input: [][]byte{[]byte(ping + get)}}
	} else {
		cut := 1 + vr.Choose("cut", len(get)-1)
		fc = &fakeConn{input: [][]byte{[]byte(ping), []byte(get[:cut]), []byte(get[cut:])}}
	}
	s.handleConnection(fc)
	if mode == 0 {
		vr.Assert(string(fc.written) == "+PONG\r\n$3\r\nval\r\n", "C12.segmentation.two_commands_in_one_write")
	} else {
		vr.Assert(string(fc.written) == "+PONG\r\n$3\r\nval\r\n", "C12.segmentation.command_split_across_writes")
	}
	vr.Reach("end")
}

// Verif_C12_Stream: a pipeline of four commands (one value with NUL bytes at both ends) is cut
// into segments at arbitrary byte offsets - one cut in the quick tier, two in the thorough tier -
// and every command gets its reply, in order, exactly once.
func Verif_C12_Stream() {
	s := verifServer()
	verifPreset(s, 0, "k", "val")
	nul := "\x00v\x00"
	stream := "*1\r\n$4\r\nPING\r\n" + "*2\r\n$3\r\nGET\r\n$1\r\nk\r\n" + string(encCmd("SET", "n", nul)) + "*2\r\n$3\r\nGET\r\n$1\r\nn\r\n"
	c1 := vr.Choose("cut1", len(stream)+1)
	c2 := len(stream)
	if vr.Tier() == 1 {
		c2 = vr.Choose("cut2", len(stream)+1)
		vr.Assume(c1 <= c2)
	}
	var in [][]byte
	for _, seg := range []string{stream[:c1], stream[c1:c2], stream[c2:]} {
		if seg != "" {
			in = append(in, []byte(seg))
		}
	}
	fc := &fakeConn{input: in}
	s.handleConnection(fc)
	vr.Assert(string(fc.written) == "+PONG\r\n$3\r\nval\r\n+OK\r\n$3\r\n"+nul+"\r\n", "C12.stream.every_command_answered_once_in_order")
	vr.Reach("end")
}

func encCmd(argv ...string) []byte {
	out := "*" + strconv.Itoa(len(argv)) + "\r\n"
	for _, a := range argv {
		out += "$" + strconv.Itoa(len(a)) + "\r\n" + a + "\r\n"
	}
	return []byte(out)
}

// Verif_C12_NumericRendering: values the server holds as numbers (hash fields and strings re-typed to
// int / float64, sorted-set scores) are rendered into replies by several hand-written formatters; with
// numbers whose renderings differ between formats (tiny, huge, negative, fractional) every reader still
// sends exactly one well-formed value — the declared bulk length is the length of what follows.
func Verif_C12_NumericRendering() {
	s := verifServer()
	k := "k"
	ints := []int{0, -7, 9223372036854775807}
	floats := []float64{1.5, 1e-7, 1e25, -0.00001, 123456789.125, -2.5e-9}
	var argv []string
	switch vr.Choose("type", 4) {
	case 0: // hash with an integer, a float and a string field
		verifPreset(s, 0, k, map[string]interface{}{
			"i": ints[vr.Choose("int", len(ints))],
			"f": floats[vr.Choose("float", len(floats))],
			"s": "text",
		})
		argv = [][]string{
			{"HGET", k, "f"}, {"HGET", k, "i"}, {"HMGET", k, "f", "i", "s", "nope"}, {"HVALS", k}, {"HGETALL", k},
			{"HKEYS", k}, {"HSTRLEN", k, "f"}, {"HSTRLEN", k, "i"}, {"HRANDFIELD", k, "3", "WITHVALUES"},
			{"HRANDFIELD", k, "-3", "WITHVALUES"}, {"HINCRBYFLOAT", k, "f", "0.5"}, {"HINCRBY", k, "f", "2"},
			{"HINCRBYFLOAT", k, "i", "1e-7"}, {"HEXISTS", k, "f"}, {"HLEN", k},
		}[vr.Choose("cmd", 15)]
	case 1: // sorted set with fractional, tiny and huge scores
		verifPreset(s, 0, k, ss17(floats[vr.Choose("float", len(floats))], floats[vr.Choose("float2", len(floats))]))
		argv = [][]string{
			{"ZSCORE", k, "a"}, {"ZMSCORE", k, "a", "b", "nope"}, {"ZRANGE", k, "-inf", "+inf", "BYSCORE", "WITHSCORES"},
			{"ZRANK", k, "a", "WITHSCORES"}, {"ZREVRANK", k, "b", "WITHSCORES"}, {"ZPOPMIN", k, "2"}, {"ZPOPMAX", k},
			{"ZMPOP", k, "MIN", "COUNT", "2"}, {"ZINCRBY", k, "0.25", "a"}, {"ZADD", k, "INCR", "1e-9", "a"},
			{"ZUNION", k, "WITHSCORES"}, {"ZINTER", k, "WEIGHTS", "3", "WITHSCORES"}, {"ZDIFF", k, "nokey", "WITHSCORES"},
			{"ZRANDMEMBER", k, "2", "WITHSCORES"}, {"ZRANDMEMBER", k, "-3", "WITHSCORES"},
		}[vr.Choose("cmd", 15)]
	case 2: // a string value the server keeps as float64
		verifPreset(s, 0, k, floats[vr.Choose("float", len(floats))])
		argv = [][]string{
			{"GET", k}, {"MGET", k}, {"GETDEL", k}, {"GETEX", k}, {"STRLEN", k}, {"GETRANGE", k, "0", "-1"},
			{"INCRBYFLOAT", k, "0.5"}, {"APPEND", k, "x"}, {"SET", k, "v", "GET"}, {"SUBSTR", k, "0", "2"},
		}[vr.Choose("cmd", 10)]
	case 3: // a string value the server keeps as int
		verifPreset(s, 0, k, ints[vr.Choose("int", len(ints))])
		argv = [][]string{
			{"GET", k}, {"MGET", k}, {"GETDEL", k}, {"GETEX", k}, {"STRLEN", k}, {"GETRANGE", k, "0", "-1"},
			{"INCRBYFLOAT", k, "0.5"}, {"APPEND", k, "x"}, {"SET", k, "v", "GET"}, {"INCR", k}, {"DECRBY", k, "3"},
		}[vr.Choose("cmd", 11)]
	}
	reply, err, panicked := verifRun(s, argv...)
	vr.Assert(!panicked, "C12.numeric.no_crash")
	if !panicked && err == nil {
		vr.Assert(vr.Decode(reply).OK, "C12.numeric.reply_is_one_wellformed_value")
	}
	vr.Reach("end")
}

// ss17: the sorted set {a: x, b: y}.
func ss17(x, y float64) *sorted_set.SortedSet {
	return sorted_set.NewSortedSet([]sorted_set.MemberParam{{Value: "a", Score: sorted_set.Score(x)}, {Value: "b", Score: sorted_set.Score(y)}})
}

// c12OtherCommands: every command and subcommand of the connection, pubsub, admin and acl modules, from
// the real table, except those that touch files or plugins (MODULE *, SAVE, REWRITEAOF, ACL LOAD/SAVE).
func c12OtherCommands(s *SugarDB, module string) [][]string {
	var out [][]string
	for _, c := range s.commands {
		if c.Module != module || c.Command == "module" || c.Command == "save" || c.Command == "rewriteaof" {
			continue
		}
		if len(c.SubCommands) == 0 {
			out = append(out, []string{c.Command})
			continue
		}
		for _, sc := range c.SubCommands {
			if c.Command == "acl" && (sc.Command == "load" || sc.Command == "save") {
				continue
			}
			out = append(out, []string{c.Command, sc.Command})
		}
	}
	return out
}

// c12Other: a command of one of those modules sent by a TCP client with arbitrary arguments (arbitrary
// strings - as channel names, patterns, user names, rules, passwords - and small integers): the server
// does not crash, and whatever it replies is one well-formed RESP value (for the subscribe family: the
// bytes written to the connection are whole values).
func c12Other(module string) {
	s := verifServer()
	cmds := c12OtherCommands(s, module)
	c := cmds[vr.Choose("cmd", len(cmds))]
	conn := verifTCPConn(s, 0)
	x, y := vr.Tok("x"), vr.Tok("y")
	n := vr.Int("n")
	vr.Assume(n >= -2 && n <= 3)
	argv := append([]string{}, c...)
	numericOK := c[0] != "auth" && c[0] != "hello" // (the digest model takes opaque passwords only)
	switch vr.Choose("shape", 7) {
	case 1:
		argv = append(argv, x)
	case 2:
		argv = append(argv, x, y)
	case 3:
		vr.Assume(numericOK)
		argv = append(argv, strconv.Itoa(n))
	case 4:
		vr.Assume(numericOK)
		argv = append(argv, x, strconv.Itoa(n))
	case 5:
		vr.Assume(numericOK)
		argv = append(argv, strconv.Itoa(n), strconv.Itoa(n))
	case 6:
		argv = append(argv, x, y, x)
	}
	reply, err, panicked := verifRunTCP(s, conn, argv...)
	vr.Quiesce()
	vr.Assert(!panicked, "C12."+module+".no_crash")
	if panicked {
		return
	}
	if err == nil && len(reply) > 0 {
		r := vr.Decode(reply)
		vr.Assert(r.OK, "C12."+module+".reply_is_one_wellformed_value")
	}
	vr.Reach("end")
}

// Verif_C12_Admin: the admin commands with concrete argument vectors (COMMAND LIST walks the whole command
// table for every filter: opaque filter operands would fork once per command).
func Verif_C12_Admin() {
	s := verifServer()
	conn := verifTCPConn(s, 0)
	argvs := [][]string{
		{"COMMANDS"}, {"COMMAND"}, {"COMMAND", "COUNT"}, {"COMMAND", "DOCS"}, {"COMMAND", "LIST"},
		{"COMMAND", "LIST", "FILTERBY"}, {"COMMAND", "LIST", "FILTERBY", "ACLCAT"}, {"COMMAND", "LIST", "FILTERBY", "ACLCAT", "fast"},
		{"COMMAND", "LIST", "FILTERBY", "PATTERN", "z*"}, {"COMMAND", "LIST", "FILTERBY", "PATTERN", "[a"},
		{"COMMAND", "LIST", "FILTERBY", "PATTERN", "{x"}, {"COMMAND", "LIST", "FILTERBY", "PATTERN", ""},
		{"COMMAND", "LIST", "FILTERBY", "MODULE", "set"}, {"COMMAND", "LIST", "FILTERBY", "MODULE"}, {"COMMAND", "LIST", "FILTERBY", "NOPE", "x"},
		{"COMMAND", "LIST", "x", "y", "z", "w"}, {"COMMAND", "NOPE"}, {"LASTSAVE"}, {"LASTSAVE", "x"}, {"COMMAND", "COUNT", "x"},
	}
	argv := argvs[vr.Choose("argv", len(argvs))]
	reply, err, panicked := verifRunTCP(s, conn, argv...)
	vr.Assert(!panicked, "C12.admin.no_crash")
	if panicked {
		return
	}
	if err == nil && len(reply) > 0 {
		vr.Assert(vr.Decode(reply).OK, "C12.admin.reply_is_one_wellformed_value")
	}
	vr.Reach("end")
}

func Verif_C12_Connection() { c12Other(constants.ConnectionModule) }
func Verif_C12_PubSub()     { c12Other(constants.PubSubModule) }

// Verif_C12_ACL: the ACL subcommands with argument vectors that exercise every branch of their parsers:
// missing and surplus arguments, empty strings, every rule prefix of ACL SETUSER alone and followed by an
// arbitrary string (also one that is not a valid pattern), unknown users and subcommands.
func Verif_C12_ACL() {
	s := verifServer()
	conn := verifTCPConn(s, 0)
	t := vr.Tok("t")
	u := "user"
	// (the SETUSER rule parser looks at its arguments byte by byte: concrete operands here)
	rt := "op:*"
	rules := []string{
		"", "~", "~" + rt, "~[", "%", "%R~", "%R~" + rt, "%W~{", "%RW~" + rt, "%RW~[", "+&", "+&" + rt, "-&[", "&", ">", ">" + rt, "<", "<" + rt,
		"#", "#" + rt, "!", "!" + rt, "+@", "+@read", "-@", "-@x", "+", "+get", "-", "-x", "@", "on", "off", "nopass", "resetpass", "nocommands",
		"resetkeys", "nokeys", "resetchannels", "allkeys", "allchannels", "allcommands", "allcategories", "reset", rt,
	}
	var argv []string
	switch vr.Choose("sub", 12) {
	case 0:
		argv = []string{"ACL"}
	case 1:
		argv = [][]string{{"ACL", "CAT"}, {"ACL", "CAT", "read"}, {"ACL", "CAT", t}, {"ACL", "CAT", "a", "b"}}[vr.Choose("v", 4)]
	case 2:
		argv = [][]string{{"ACL", "USERS"}, {"ACL", "USERS", t}}[vr.Choose("v", 2)]
	case 3:
		argv = [][]string{{"ACL", "SETUSER"}, {"ACL", "SETUSER", ""}, {"ACL", "SETUSER", u}, {"ACL", "SETUSER", "default"}}[vr.Choose("v", 4)]
	case 4:
		argv = []string{"ACL", "SETUSER", u, rules[vr.Choose("rule", len(rules))]}
	case 5:
		argv = []string{"ACL", "SETUSER", "default", rules[vr.Choose("rule", len(rules))], rules[vr.Choose("rule2", len(rules))]}
	case 6:
		argv = [][]string{{"ACL", "GETUSER"}, {"ACL", "GETUSER", "default"}, {"ACL", "GETUSER", t}, {"ACL", "GETUSER", "a", "b"}}[vr.Choose("v", 4)]
	case 7:
		argv = [][]string{{"ACL", "DELUSER"}, {"ACL", "DELUSER", "default"}, {"ACL", "DELUSER", t, "default"}}[vr.Choose("v", 3)]
	case 8:
		argv = [][]string{{"ACL", "WHOAMI"}, {"ACL", "WHOAMI", t}}[vr.Choose("v", 2)]
	case 9:
		argv = [][]string{{"ACL", "LIST"}, {"ACL", "LIST", t}}[vr.Choose("v", 2)]
	case 10:
		argv = []string{"ACL", t}
	case 11:
		// a user with rules, then listed
		// (one rule operand is an arbitrary string that may contain CR/LF: the user name itself)
		u = "user:" + vr.Tok("uname")
		verifRunTCP(s, conn, "ACL", "SETUSER", u, "on", ">"+t, "~app:*", "%R~"+rt, "+&news", "+@read", "-flushall")
		argv = [][]string{{"ACL", "GETUSER", u}, {"ACL", "LIST"}, {"ACL", "USERS"}, {"ACL", "DELUSER", u}}[vr.Choose("v", 4)]
	}
	reply, err, panicked := verifRunTCP(s, conn, argv...)
	vr.Assert(!panicked, "C12.acl.no_crash")
	if panicked {
		return
	}
	if err == nil && len(reply) > 0 {
		vr.Assert(vr.Decode(reply).OK, "C12.acl.reply_is_one_wellformed_value")
	}
	vr.Reach("end")
}

// Verif_C12_AfterOwnUserDeleted: a history on one connection - it authenticates as a user it created,
// that user is deleted (by itself, or edited/reset instead), and the connection goes on sending
// commands: every one of them is answered with a well-formed value and nothing crashes, whatever the
// deletion did to the connection's entry in the user table.
func Verif_C12_AfterOwnUserDeleted() {
	s := verifServer()
	conn := verifTCPConn(s, 0)
	u := "worker"
	_, _, p0 := verifRunTCP(s, conn, "ACL", "SETUSER", u, "on", ">pw", "allkeys", "allcommands", "allcategories", "allchannels")
	_, _, p1 := verifRunTCP(s, conn, "AUTH", u, "pw")
	vr.Assert(!p0 && !p1, "C12.deleted_user.setup")
	if p0 || p1 {
		return
	}
	var step []string
	switch vr.Choose("change", 4) {
	case 0:
		step = []string{"ACL", "DELUSER", u}
	case 1:
		step = []string{"ACL", "DELUSER", "nobody", u}
	case 2:
		step = []string{"ACL", "SETUSER", u, "off", "resetpass"}
	case 3:
		step = []string{"ACL", "SETUSER", u, "reset"}
	}
	_, _, p2 := verifRunTCP(s, conn, step...)
	vr.Assert(!p2, "C12.deleted_user.no_crash")
	if p2 {
		return
	}
	next := [][]string{{"ACL", "WHOAMI"}, {"PING"}, {"GET", "k"}, {"ACL", "LIST"}, {"ACL", "USERS"}, {"AUTH", u, "pw"}, {"HELLO"}, {"ACL", "GETUSER", u},
		{"ACL", "DELUSER", u}, {"CLIENT", "ID"}, {"SUBSCRIBE", "ch"}}[vr.Choose("next", 11)]
	reply, err, p3 := verifRunTCP(s, conn, next...)
	vr.Assert(!p3, "C12.deleted_user.no_crash")
	if p3 {
		return
	}
	if err == nil && len(reply) > 0 {
		vr.Assert(vr.Decode(reply).OK, "C12.deleted_user.reply_is_one_wellformed_value")
	}
	vr.Reach("end")
}

// Verif_C12_StreamWithErrors: a pipeline in which one command fails (unknown command, wrong arity, wrong
// type, bad number - chosen by name) between commands that succeed, delivered in one write or cut at an
// arbitrary byte offset: every command - the failing one with an error reply - is answered exactly
// once, in order; nothing that follows an error is dropped.
func Verif_C12_StreamWithErrors() {
	s := verifServer()
	verifPreset(s, 0, "k", "val")
	verifPreset(s, 0, "l", []string{"a"})
	bad := [][]string{{"NOSUCHCOMMAND", "x"}, {"GET"}, {"INCR", "k"}, {"LPUSH", "k", "v"}, {"EXPIRE", "k", "abc"}, {"GET", "l", "extra"}}[vr.Choose("bad", 6)]
	stream := string(encCmd("GET", "k")) + string(encCmd(bad...)) + string(encCmd("SET", "n", "v2")) + string(encCmd("GET", "n")) + string(encCmd("PING"))
	c1 := vr.Choose("cut", len(stream)+1)
	var in [][]byte
	for _, seg := range []string{stream[:c1], stream[c1:]} {
		if seg != "" {
			in = append(in, []byte(seg))
		}
	}
	fc := &fakeConn{input: in}
	s.handleConnection(fc)
	out := string(fc.written)
	// reply 1, an error line, replies 3..5
	pre, post := "$3\r\nval\r\n", "+OK\r\n$2\r\nv2\r\n+PONG\r\n"
	ok := len(out) >= len(pre)+len(post)+3 && out[:len(pre)] == pre && out[len(out)-len(post):] == post
	if ok {
		mid := out[len(pre) : len(out)-len(post)]
		r := vr.Decode([]byte(mid))
		ok = r.OK && r.Kind == '-'
	}
	vr.Assert(ok, "C12.stream_with_errors.every_command_answered_once_in_order")
	vr.Reach("end")
}
