package sugardb

// C14 — hash commands implement a field-to-value map.

import (
	"strconv"

	vr "github.com/echovault/sugardb/internal/verifrt"
)

const (
	hvStr = iota
	hvInt
	hvFloat
)

type c14Field struct {
	name string
	kind int
	s    string
	n    int
	f    float64
}

func (f c14Field) value() interface{} {
	switch f.kind {
	case hvInt:
		return f.n
	case hvFloat:
		return f.f
	}
	return f.s
}

// render is the byte rendering a reader returns for the field value.
func (f c14Field) render() string {
	switch f.kind {
	case hvInt:
		return strconv.Itoa(f.n)
	case hvFloat:
		return strconv.FormatFloat(f.f, 'f', -1, 64)
	}
	return f.s
}

type c14Pre struct {
	kind   int // kAbsent / kList(=hash here) / kOther
	fields []c14Field
	str    string
}

const kHash = kList

func c14MaxFields() int {
	if vr.Tier() > 0 {
		return 3
	}
	return 2
}

// c14OnlyFloat: every stored field value is a float; c14SmallInts: integer field values come from a
// small concrete menu (harnesses whose arithmetic mixes integers and doubles: the int->double
// conversion of an arbitrary 64-bit term is what makes those queries slow).
var c14OnlyFloat, c14SmallInts bool

func c14SymField(name string, kinds int) c14Field {
	f := c14Field{name: vr.Tok(name + "_f")}
	if c14OnlyFloat {
		f.kind = hvFloat
	} else {
		f.kind = vr.Choose(name+"_vk", kinds)
	}
	switch f.kind {
	case hvStr:
		f.s = vr.Tok(name + "_v")
	case hvInt:
		if c14SmallInts {
			f.n = []int{0, 7, -3}[vr.Choose(name+"_n", 3)]
		} else {
			f.n = vr.Int(name + "_n")
		}
	case hvFloat:
		f.f = vr.Float(name + "_x")
		vr.Assume(f.f == f.f) // stored values are never NaN
	}
	return f
}

func c14Preset(s *SugarDB, k, name string, kinds int) c14Pre {
	p := c14Pre{kind: vr.Choose(name+"_kind", 3)}
	switch p.kind {
	case kHash:
		n := vr.Choose(name+"_n", c14MaxFields()+1)
		m := map[string]interface{}{}
		for i := 0; i < n; i++ {
			f := c14SymField(name+strconv.Itoa(i), kinds)
			for _, g := range p.fields {
				vr.Assume(g.name != f.name)
			}
			p.fields = append(p.fields, f)
			m[f.name] = f.value()
		}
		verifPreset(s, 0, k, m)
	case kOther:
		p.str = vr.Tok(name + "_str")
		verifPreset(s, 0, k, p.str)
	}
	return p
}

func (p c14Pre) find(field string) (c14Field, bool) {
	for _, f := range p.fields {
		if f.name == field {
			return f, true
		}
	}
	return c14Field{}, false
}

// fieldHolds: stored value v equals model field f.
func fieldHolds(v interface{}, f c14Field) bool {
	switch f.kind {
	case hvInt:
		x, ok := v.(int)
		return ok && x == f.n
	case hvFloat:
		x, ok := v.(float64)
		return ok && x == f.f
	}
	x, ok := v.(string)
	return ok && x == f.s
}

// c14Holds asserts that key k holds exactly the model hash (or other pre-state).
func c14Holds(s *SugarDB, k string, p c14Pre, ob string) {
	e, ok := s.store[0][k]
	switch p.kind {
	case kAbsent:
		vr.Assert(!ok, ob)
	case kOther:
		v, is := e.Value.(string)
		vr.Assert(ok && is && v == p.str, ob)
	case kHash:
		m, is := e.Value.(map[string]interface{})
		if !ok || !is || len(m) != len(p.fields) {
			// an emptied hash may be stored empty or removed
			vr.Assert(len(p.fields) == 0 && (!ok || (is && len(m) == 0)), ob)
			return
		}
		good := true
		for _, f := range p.fields {
			v, has := m[f.name]
			good = good && has && fieldHolds(v, f)
		}
		vr.Assert(good, ob)
	}
}

// valueReply: RESP element carrying the field value (bulk/simple string, or integer for ints).
func valueReply(r vr.Resp, f c14Field) bool {
	if !r.OK || r.Null {
		return false
	}
	if f.kind == hvInt && r.Kind == ':' {
		return r.Int == int64(f.n)
	}
	return (r.Kind == '$' || r.Kind == '+') && r.Str == f.render()
}

func Verif_C14_HSet() {
	s := verifServer()
	k := vr.Tok("k")
	p := c14Preset(s, k, "h", 2)
	nx := vr.Choose("nx", 2) == 1
	cmd := "HSET"
	if nx {
		cmd = "HSETNX"
	}
	f := vr.Tok("f")
	var v string
	var want c14Field
	switch vr.Choose("vnum", 3) {
	case 1:
		n := vr.Int("vn")
		v = strconv.Itoa(n)
		want = c14Field{name: f, kind: hvInt, n: n}
	case 2:
		// integers that need more than 53 significant bits, written as a client types them
		n := []int{9007199254740993, 1234567890123456789, 9223372036854775807, -9223372036854775808, -9007199254740995}[vr.Choose("vwide", 5)]
		v = strconv.Itoa(n)
		want = c14Field{name: f, kind: hvInt, n: n}
	default:
		v = vr.Tok("v")
		want = c14Field{name: f, kind: hvStr, s: v}
	}
	reply, err, panicked := verifRun(s, cmd, k, f, v)
	vr.Assert(!panicked, "C14.hset.nopanic")
	if panicked {
		return
	}
	if p.kind == kOther {
		// the repository documents (and tests) that HSET replaces a non-hash value
		vr.Reach("end")
		return
	}
	_, had := p.find(f)
	post := c14Pre{kind: kHash}
	for _, g := range p.fields {
		if g.name == f && !nx {
			continue
		}
		post.fields = append(post.fields, g)
	}
	if !had || !nx {
		post.fields = append(post.fields, want)
	}
	vr.Assert(err == nil, "C14.hset.noerror")
	if err == nil {
		r := vr.Decode(reply)
		added := 0
		if !had {
			added = 1
		}
		if nx {
			vr.Assert(r.OK && r.Kind == ':' && r.Int == int64(added), "C14.hsetnx.reply")
		} else {
			// number of new fields (Redis) or of fields in the merged hash (what the repository's tests pin)
			vr.Assert(r.OK && r.Kind == ':' && (r.Int == int64(added) || r.Int == int64(len(post.fields)) || r.Int == 1), "C14.hset.reply")
		}
	}
	c14Holds(s, k, post, "C14.hset.post")
	vr.Reach("end")
}

func Verif_C14_HGet() {
	s := verifServer()
	k := vr.Tok("k")
	p := c14Preset(s, k, "h", 3)
	f := vr.Tok("f")
	multi := vr.Choose("cmd", 2) == 1
	cmd := "HGET"
	if multi {
		cmd = "HMGET"
	}
	reply, err, panicked := verifRun(s, cmd, k, f)
	vr.Assert(!panicked, "C14.hget.nopanic")
	if panicked {
		return
	}
	if p.kind == kOther {
		vr.Assert(err != nil, "C14.hget.wrongtype")
	} else {
		vr.Assert(err == nil, "C14.hget.noerror")
		if err == nil {
			r := vr.Decode(reply)
			if r.OK && r.Kind == '*' && len(r.Elems) == 1 {
				r = r.Elems[0]
			}
			g, has := p.find(f)
			if has {
				vr.Assert(valueReply(r, g), "C14.hget.value")
			} else {
				vr.Assert(r.OK && (r.Null || (r.Kind == '*' && len(r.Elems) == 0)), "C14.hget.absent")
			}
		}
	}
	c14Holds(s, k, p, "C14.hget.unchanged")
	vr.Reach("end")
}

func Verif_C14_HLenExists() {
	s := verifServer()
	k := vr.Tok("k")
	p := c14Preset(s, k, "h", 2)
	f := vr.Tok("f")
	which := vr.Choose("cmd", 3)
	var reply []byte
	var err error
	var panicked bool
	switch which {
	case 0:
		reply, err, panicked = verifRun(s, "HLEN", k)
	case 1:
		reply, err, panicked = verifRun(s, "HEXISTS", k, f)
	case 2:
		reply, err, panicked = verifRun(s, "HSTRLEN", k, f)
	}
	vr.Assert(!panicked, "C14.hlen.nopanic")
	if panicked {
		return
	}
	if p.kind == kOther {
		vr.Assert(err != nil, "C14.hlen.wrongtype")
	} else {
		vr.Assert(err == nil, "C14.hlen.noerror")
		if err == nil {
			r := vr.Decode(reply)
			g, has := p.find(f)
			switch which {
			case 0:
				vr.Assert(r.OK && r.Kind == ':' && r.Int == int64(len(p.fields)), "C14.hlen.reply")
			case 1:
				want := 0
				if has {
					want = 1
				}
				vr.Assert(r.OK && r.Kind == ':' && r.Int == int64(want), "C14.hexists.reply")
			case 2:
				if r.OK && r.Kind == '*' && len(r.Elems) == 1 {
					r = r.Elems[0]
				}
				want := 0
				if has {
					want = len(g.render())
				}
				if p.kind == kAbsent {
					vr.Assert(r.OK && (r.Null || (r.Kind == ':' && r.Int == 0)), "C14.hstrlen.absent")
				} else {
					vr.Assert(r.OK && r.Kind == ':' && r.Int == int64(want), "C14.hstrlen.reply")
				}
			}
		}
	}
	c14Holds(s, k, p, "C14.hlen.unchanged")
	vr.Reach("end")
}

// matchAll: the reply elements are exactly the expected renderings, each once, in any order.
func matchFields(elems []vr.Resp, fields []c14Field, names, values bool) bool {
	per := 0
	if names {
		per++
	}
	if values {
		per++
	}
	if len(elems) != per*len(fields) {
		return false
	}
	used := make([]bool, len(fields))
	for i := 0; i < len(fields); i++ {
		found := false
		for j, f := range fields {
			if used[j] {
				continue
			}
			ok := true
			idx := i * per
			if names {
				e := elems[idx]
				ok = ok && e.OK && !e.Null && e.Str == f.name
				idx++
			}
			if ok && values {
				ok = valueReply(elems[idx], f)
			}
			if ok {
				used[j] = true
				found = true
				break
			}
		}
		if !found {
			return false
		}
	}
	return true
}

func Verif_C14_HGetAllKeysVals() {
	s := verifServer()
	k := vr.Tok("k")
	p := c14Preset(s, k, "h", 2)
	which := vr.Choose("cmd", 3)
	cmd := []string{"HGETALL", "HKEYS", "HVALS"}[which]
	reply, err, panicked := verifRun(s, cmd, k)
	vr.Assert(!panicked, "C14.hgetall.nopanic")
	if panicked {
		return
	}
	if p.kind == kOther {
		vr.Assert(err != nil, "C14.hgetall.wrongtype")
	} else {
		vr.Assert(err == nil, "C14.hgetall.noerror")
		if err == nil {
			r := vr.Decode(reply)
			vr.Assert(r.OK && r.Kind == '*', "C14."+cmd+".wellformed")
			if r.OK {
				vr.Assert(matchFields(r.Elems, p.fields, which != 2, which != 1), "C14."+cmd+".content")
			}
		}
	}
	c14Holds(s, k, p, "C14.hgetall.unchanged")
	vr.Reach("end")
}

func Verif_C14_HDel() {
	s := verifServer()
	k := vr.Tok("k")
	p := c14Preset(s, k, "h", 2)
	f1, f2 := vr.Tok("f1"), vr.Tok("f2")
	reply, err, panicked := verifRun(s, "HDEL", k, f1, f2)
	vr.Assert(!panicked, "C14.hdel.nopanic")
	if panicked {
		return
	}
	if p.kind == kOther {
		vr.Assert(err != nil, "C14.hdel.wrongtype")
		c14Holds(s, k, p, "C14.hdel.wrongtype_unchanged")
		vr.Reach("end")
		return
	}
	post := c14Pre{kind: p.kind}
	removed := 0
	for _, g := range p.fields {
		if g.name == f1 || g.name == f2 {
			removed++
			continue
		}
		post.fields = append(post.fields, g)
	}
	vr.Assert(err == nil && isIntReply(reply, removed), "C14.hdel.reply")
	c14Holds(s, k, post, "C14.hdel.post")
	vr.Reach("end")
}

// Verif_C14_HIncrBy: arbitrary 64-bit increment on string / integer fields (overflow included).
func Verif_C14_HIncrBy() { c14HIncrBy(false) }

// Verif_C14_HIncrByOnFloatField: the field holds an arbitrary double; increments 1, -3, 1000.
func Verif_C14_HIncrByOnFloatField() { c14HIncrBy(true) }

func c14HIncrBy(onFloat bool) {
	s := verifServer()
	k := vr.Tok("k")
	var p c14Pre
	var delta int
	if onFloat {
		c14OnlyFloat = true
		p = c14Preset(s, k, "h", 3)
		delta = []int{1, -3, 1000}[vr.Choose("delta", 3)]
	} else {
		p = c14Preset(s, k, "h", 2)
		delta = vr.Int("delta")
	}
	f := vr.Tok("f")
	reply, err, panicked := verifRun(s, "HINCRBY", k, f, strconv.Itoa(delta))
	vr.Assert(!panicked, "C14.hincrby.nopanic")
	if panicked {
		return
	}
	if p.kind == kOther {
		vr.Assert(err != nil, "C14.hincrby.wrongtype")
		c14Holds(s, k, p, "C14.hincrby.wrongtype_unchanged")
		vr.Reach("end")
		return
	}
	g, has := p.find(f)
	if has && g.kind == hvStr {
		vr.Assert(err != nil, "C14.hincrby.notnumber")
		c14Holds(s, k, p, "C14.hincrby.notnumber_unchanged")
		vr.Reach("end")
		return
	}
	post := c14Pre{kind: kHash}
	for _, x := range p.fields {
		if x.name != f {
			post.fields = append(post.fields, x)
		}
	}
	if has && g.kind == hvFloat {
		want := g.f + float64(delta)
		post.fields = append(post.fields, c14Field{name: f, kind: hvFloat, f: want})
		vr.Assert(err == nil, "C14.hincrby.float_noerror")
		if err == nil {
			r := vr.Decode(reply)
			vr.Assert(r.OK && (r.Kind == '+' || r.Kind == '$' || r.Kind == ',') && r.Str == strconv.FormatFloat(want, 'f', -1, 64), "C14.hincrby.float_reply")
		}
		c14Holds(s, k, post, "C14.hincrby.float_post")
		vr.Reach("end")
		return
	}
	cur := 0
	if has {
		cur = g.n
	}
	want := cur + delta
	overflow := (delta > 0 && want < cur) || (delta < 0 && want > cur)
	if overflow {
		vr.Assert(err != nil, "C14.hincrby.overflow_is_error")
		c14Holds(s, k, p, "C14.hincrby.overflow_unchanged")
	} else {
		post.fields = append(post.fields, c14Field{name: f, kind: hvInt, n: want})
		vr.Assert(err == nil && isIntReply(reply, want), "C14.hincrby.reply")
		c14Holds(s, k, post, "C14.hincrby.post")
	}
	vr.Reach("end")
}

func Verif_C14_HIncrByFloat() {
	c14SmallInts = true
	s := verifServer()
	k := vr.Tok("k")
	p := c14Preset(s, k, "h", 3)
	f := vr.Tok("f")
	delta := vr.Float("delta")
	vr.Assume(delta == delta)
	reply, err, panicked := verifRun(s, "HINCRBYFLOAT", k, f, strconv.FormatFloat(delta, 'f', -1, 64))
	vr.Assert(!panicked, "C14.hincrbyfloat.nopanic")
	if panicked {
		return
	}
	if p.kind == kOther {
		vr.Assert(err != nil, "C14.hincrbyfloat.wrongtype")
		c14Holds(s, k, p, "C14.hincrbyfloat.wrongtype_unchanged")
		vr.Reach("end")
		return
	}
	g, has := p.find(f)
	if has && g.kind == hvStr {
		vr.Assert(err != nil, "C14.hincrbyfloat.notnumber")
		c14Holds(s, k, p, "C14.hincrbyfloat.notnumber_unchanged")
		vr.Reach("end")
		return
	}
	cur := 0.0
	if has && g.kind == hvInt {
		cur = float64(g.n)
	}
	if has && g.kind == hvFloat {
		cur = g.f
	}
	want := cur + delta
	if p.kind == kAbsent {
		want = delta // a new hash holds the increment itself (sign of zero included)
	}
	post := c14Pre{kind: kHash}
	for _, x := range p.fields {
		if x.name != f {
			post.fields = append(post.fields, x)
		}
	}
	post.fields = append(post.fields, c14Field{name: f, kind: hvFloat, f: want})
	if want != want {
		// Inf + -Inf: NaN is not a value a hash may hold
		vr.Reach("end")
		return
	}
	vr.Assert(err == nil, "C14.hincrbyfloat.noerror")
	if err == nil {
		r := vr.Decode(reply)
		vr.Assert(r.OK && (r.Kind == '+' || r.Kind == '$' || r.Kind == ',') && r.Str == strconv.FormatFloat(want, 'f', -1, 64), "C14.hincrbyfloat.reply")
	}
	c14Holds(s, k, post, "C14.hincrbyfloat.post")
	vr.Reach("end")
}

// HRANDFIELD: a correctly sized selection of current fields, distinct when count > 0.
func Verif_C14_HRandField() {
	s := verifServer()
	k := vr.Tok("k")
	p := c14Preset(s, k, "h", 2)
	withCount := vr.Choose("withcount", 2) == 1
	count := 1
	argv := []string{"HRANDFIELD", k}
	if withCount {
		count = vr.Int("count")
		vr.Assume(count >= -4 && count <= 4)
		argv = append(argv, strconv.Itoa(count))
	}
	reply, err, panicked := verifRun(s, argv...)
	vr.Assert(!panicked, "C14.hrandfield.nopanic")
	if panicked {
		return
	}
	if p.kind == kOther {
		vr.Assert(err != nil, "C14.hrandfield.wrongtype")
		c14Holds(s, k, p, "C14.hrandfield.unchanged")
		vr.Reach("end")
		return
	}
	vr.Assert(err == nil, "C14.hrandfield.noerror")
	if err == nil {
		r := vr.Decode(reply)
		n := len(p.fields)
		wantLen := 0
		switch {
		case n == 0 || count == 0:
			wantLen = 0
		case count > 0:
			wantLen = count
			if wantLen > n {
				wantLen = n
			}
		default:
			wantLen = -count
		}
		vr.Assert(r.OK && (r.Kind == '*' || (wantLen == 0 && r.Null) || (!withCount && wantLen == 1 && (r.Kind == '$' || r.Kind == '+'))), "C14.hrandfield.wellformed")
		if r.OK {
			elems := r.Elems
			if r.Kind != '*' && !r.Null {
				elems = []vr.Resp{r}
			}
			vr.Assert(len(elems) == wantLen, "C14.hrandfield.size")
			all := true
			for _, e := range elems {
				_, has := p.find(e.Str)
				all = all && e.OK && !e.Null && has
			}
			vr.Assert(all, "C14.hrandfield.subset")
			if count > 0 {
				distinct := true
				for i := range elems {
					for j := i + 1; j < len(elems); j++ {
						distinct = distinct && elems[i].Str != elems[j].Str
					}
				}
				vr.Assert(distinct, "C14.hrandfield.distinct")
			}
		}
	}
	c14Holds(s, k, p, "C14.hrandfield.unchanged")
	vr.Reach("end")
}

// Verif_C14_HSetTwoPairs: HSET / HSETNX with two field/value pairs whose fields may be the same one
// (for HSET; the later value wins), on a missing key or an existing hash: the
// hash afterwards is the reference map, and the count replied is a count of fields (new ones, or the
// fields of the resulting hash — the repository's tests pin the latter), never of argument pairs.
func Verif_C14_HSetTwoPairs() {
	s := verifServer()
	k := vr.Tok("k")
	p := c14Preset(s, k, "h", 2)
	if p.kind == kOther {
		vr.Reach("end")
		return
	}
	nx := vr.Choose("nx", 2) == 1
	cmd := "HSET"
	if nx {
		cmd = "HSETNX"
	}
	f1, f2 := vr.Tok("f1"), vr.Tok("f2")
	v1, v2 := vr.Tok("v1"), vr.Tok("v2")
	if nx {
		vr.Assume(f1 != f2) // HSETNX naming one field twice: which value wins is outside the claim
	}
	reply, err, panicked := verifRun(s, cmd, k, f1, v1, f2, v2)
	vr.Assert(!panicked, "C14.hset2.nopanic")
	if panicked {
		return
	}
	post := c14Pre{kind: kHash, fields: append([]c14Field{}, p.fields...)}
	added := 0
	for _, in := range []c14Field{{name: f1, kind: hvStr, s: v1}, {name: f2, kind: hvStr, s: v2}} {
		idx := -1
		for i, g := range post.fields {
			if g.name == in.name {
				idx = i
			}
		}
		switch {
		case idx < 0:
			post.fields = append(post.fields, in)
			added++
		case !nx:
			post.fields[idx] = in
		}
	}
	vr.Assert(err == nil, "C14.hset2.noerror")
	if err == nil {
		r := vr.Decode(reply)
		vr.Assert(r.OK && r.Kind == ':' && (r.Int == int64(added) || r.Int == int64(len(post.fields))), "C14.hset2.reply_counts_fields")
	}
	c14Holds(s, k, post, "C14.hset2.post")
	vr.Reach("end")
}
