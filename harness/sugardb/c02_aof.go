package sugardb

// C02 at the server level: which commands are logged, under which database, for TCP and embedded
// callers; and that a fresh server restoring the log serves the same dataset.

import (
	"context"
	"io"
	"slices"
	"strconv"

	"github.com/echovault/sugardb/internal"
	"github.com/echovault/sugardb/internal/aof"
	logstore "github.com/echovault/sugardb/internal/aof/log"
	"github.com/echovault/sugardb/internal/aof/preamble"
	"github.com/echovault/sugardb/internal/constants"
	vr "github.com/echovault/sugardb/internal/verifrt"
)

// aofFile implements both aof ReadWriter seams over memory.
type aofFile struct {
	data   []byte
	synced int
	pos    int
	writes int
}

func (m *aofFile) Read(b []byte) (int, error) {
	if m.pos >= len(m.data) {
		return 0, io.EOF
	}
	n := copy(b, m.data[m.pos:])
	m.pos += n
	return n, nil
}
func (m *aofFile) Write(b []byte) (int, error) {
	m.data = append(m.data, b...)
	m.writes++
	return len(b), nil
}
func (m *aofFile) Seek(offset int64, whence int) (int64, error) { m.pos = int(offset); return offset, nil }
func (m *aofFile) Close() error                                 { return nil }
func (m *aofFile) Truncate(size int64) error {
	m.data = m.data[:size]
	if m.synced > len(m.data) {
		m.synced = len(m.data)
	}
	return nil
}
func (m *aofFile) Sync() error          { m.synced = len(m.data); return nil }
func (m *aofFile) VerifContent() []byte { return m.data }

// verifAOFServer: a real server whose AOF engine writes to the given in-memory files.
func verifAOFServer(logFile logstore.ReadWriter, preambleFile preamble.ReadWriter, strategy string) *SugarDB {
	s := verifServer()
	engine, err := aof.NewAOFEngine(
		aof.WithClock(s.clock),
		aof.WithStrategy(strategy),
		aof.WithAppendReadWriter(logFile),
		aof.WithPreambleReadWriter(preambleFile),
		aof.WithStartRewriteFunc(s.startRewriteAOF),
		aof.WithFinishRewriteFunc(s.finishRewriteAOF),
		aof.WithGetStateFunc(func() map[int]map[string]internal.KeyData {
			state := make(map[int]map[string]internal.KeyData)
			for database, data := range s.getState() {
				state[database] = make(map[string]internal.KeyData)
				for key, value := range data {
					if keyData, ok := value.(internal.KeyData); ok {
						state[database][key] = keyData
					}
				}
			}
			return state
		}),
		aof.WithSetKeyDataFunc(func(database int, key string, value internal.KeyData) {
			ctx := context.WithValue(context.Background(), "Database", database)
			s.setValues(ctx, map[string]interface{}{key: value.Value})
			s.setExpiry(ctx, key, value.ExpireAt, false)
		}),
		aof.WithHandleCommandFunc(func(database int, command []byte) {
			ctx := context.WithValue(context.Background(), "Protocol", 2)
			ctx = context.WithValue(ctx, "Database", database)
			s.handleCommand(ctx, command, nil, true, false)
		}),
	)
	if err != nil {
		panic("verif: aof engine")
	}
	s.aofEngine = engine
	return s
}

// Verif_C02_WhatIsLogged: a command is appended to the log iff it is a write command and it
// succeeded; reads and failed commands log nothing.
func Verif_C02_WhatIsLogged() {
	gConcreteScores = true
	logFile := &aofFile{}
	s := verifAOFServer(logFile, &aofFile{}, "always")
	mods := []string{constants.GenericModule, constants.StringModule, constants.HashModule, constants.ListModule, constants.SetModule, constants.SortedSetModule}
	kinds := []int{gStr, gStr, gHash, gList, gSet, gZSet}
	mi := vr.Choose("module", len(mods))
	if mods[mi] == constants.StringModule {
		gByteStrings = 2
	}
	cmds := c13Commands(s, mods[mi])
	c := cmds[vr.Choose("cmd", len(cmds))]
	k := vr.Tok("k")
	if vr.Choose("pre", 2) == 1 {
		gStoreIn(s, 0, k, gSym("p", kinds[mi], 1))
	}
	x := vr.Tok("x")
	if mods[mi] == constants.StringModule {
		x = gBytes("xb", 2)
	}
	var argv []string
	switch vr.Choose("shape", 4) {
	case 0:
		argv = []string{c.Command, k}
	case 1:
		argv = []string{c.Command, k, x}
	case 2:
		argv = []string{c.Command, k, "1", x}
	case 3:
		argv = []string{c.Command, k, x, x}
	}
	_, err, panicked := verifRun(s, argv...)
	if panicked {
		vr.Reach("end")
		return
	}
	isWrite := slices.Contains(c.Categories, constants.WriteCategory)
	if isWrite && err == nil {
		vr.Assert(logFile.writes >= 1 && logFile.synced == len(logFile.data), "C02.logged.successful_write_is_logged_and_synced")
	} else {
		vr.Assert(logFile.writes == 0, "C02.logged.reads_and_failed_commands_are_not_logged")
	}
	vr.Reach("end")
}

// Verif_C02_RestartServesSameDataset: writes from a TCP connection and from the embedded API in
// arbitrary (also multi-digit) databases; a fresh server restoring the log holds each value in the
// database it was written to.
func Verif_C02_RestartServesSameDataset() {
	logFile := &aofFile{}
	s := verifAOFServer(logFile, &aofFile{}, "always")
	dbT, dbE := symDB("db_tcp"), symDB("db_emb")
	conn := verifTCPConn(s, dbT)
	k1, v1 := vr.Tok("k1"), vr.Tok("v1")
	k2, v2 := vr.Tok("k2"), vr.Tok("v2")
	vr.Assume(k1 != k2)
	_, err, panicked := verifRunTCP(s, conn, "SET", k1, v1)
	vr.Assert(!panicked && err == nil, "C02.restart.tcp_write")
	s.SelectDB(dbE)
	which := vr.Choose("embedded_cmd", 3)
	switch which {
	case 0:
		_, err, panicked = verifRun(s, "SET", k2, v2)
	case 1:
		_, err, panicked = verifRun(s, "RPUSH", k2, v2)
	case 2:
		_, err, panicked = verifRun(s, "SADD", k2, v2)
	}
	vr.Assert(!panicked && err == nil, "C02.restart.embedded_write")
	if panicked || err != nil {
		return
	}
	// restart: a fresh server over the same files
	s2 := verifAOFServer(&aofFile{data: logFile.data}, &aofFile{}, "always")
	rerr := s2.aofEngine.Restore()
	vr.Assert(rerr == nil, "C02.restart.restore_succeeds")
	vr.Assert(gHoldsIn(s2, dbT, k1, gVal{kind: gStr, str: v1}), "C02.restart.tcp_write_restored_in_its_database")
	var want gVal
	switch which {
	case 0:
		want = gVal{kind: gStr, str: v2}
	case 1:
		want = gVal{kind: gList, elems: []string{v2}}
	case 2:
		want = gVal{kind: gSet, elems: []string{v2}}
	}
	vr.Assert(gHoldsIn(s2, dbE, k2, want), "C02.restart.embedded_write_restored_in_its_database")
	if dbT != dbE && !(k1 == k2) {
		_, leaked := s2.store[dbE][k1]
		vr.Assert(!leaked, "C02.restart.no_key_in_a_foreign_database")
	}
	_ = strconv.Itoa
	vr.Reach("end")
}
