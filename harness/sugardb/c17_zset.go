package sugardb

// C17 — sorted-set commands implement a scored member map (first slice: ZADD with flags, ZINCRBY,
// ZSCORE, ZMSCORE, ZCARD, ZREM, ZDIFF/ZDIFFSTORE).

import (
	"strconv"
	"strings"

	ss "github.com/echovault/sugardb/internal/modules/sorted_set"
	vr "github.com/echovault/sugardb/internal/verifrt"
)

const kZSet = kList

type c17M struct {
	name  string
	score float64
}

type c17Pre struct {
	kind    int
	members []c17M
	str     string
}

func c17Max() int {
	if vr.Tier() > 0 {
		return 3
	}
	return 2
}

func c17Preset(s *SugarDB, k, name string, kinds int) c17Pre {
	p := c17Pre{kind: vr.Choose(name+"_kind", kinds)}
	switch p.kind {
	case kZSet:
		n := vr.Choose(name+"_n", c17Max()+1)
		var params []ss.MemberParam
		for i := 0; i < n; i++ {
			m := c17M{name: vr.Tok(name + "_m" + strconv.Itoa(i)), score: vr.Float(name + "_s" + strconv.Itoa(i))}
			vr.Assume(m.score == m.score) // NaN is not a score
			for _, x := range p.members {
				vr.Assume(x.name != m.name)
			}
			p.members = append(p.members, m)
			params = append(params, ss.MemberParam{Value: ss.Value(m.name), Score: ss.Score(m.score)})
		}
		verifPreset(s, 0, k, ss.NewSortedSet(params))
	case kOther:
		p.str = vr.Tok(name + "_str")
		verifPreset(s, 0, k, p.str)
	}
	return p
}

func (p c17Pre) find(m string) (c17M, bool) {
	for _, x := range p.members {
		if x.name == m {
			return x, true
		}
	}
	return c17M{}, false
}

func c17Holds(s *SugarDB, k string, p c17Pre, ob string) {
	e, ok := s.store[0][k]
	switch p.kind {
	case kAbsent:
		vr.Assert(!ok, ob)
	case kOther:
		v, is := e.Value.(string)
		vr.Assert(ok && is && v == p.str, ob)
	case kZSet:
		st, is := e.Value.(*ss.SortedSet)
		if !ok || !is {
			vr.Assert(len(p.members) == 0 && !ok, ob)
			return
		}
		good := st.Cardinality() == len(p.members)
		for _, m := range p.members {
			o := st.Get(ss.Value(m.name))
			good = good && o.Exists && float64(o.Score) == m.score
		}
		vr.Assert(good && c17EnumOK(st, p.members), ob)
	}
}

// c17EnumOK: the members the set enumerates are exactly the model's (see zsetEnumOK).
func c17EnumOK(st *ss.SortedSet, want []c17M) bool {
	names := make([]string, 0, len(want))
	scores := make([]float64, 0, len(want))
	for _, m := range want {
		names = append(names, m.name)
		scores = append(scores, m.score)
	}
	return zsetEnumOK(st, names, scores)
}

func fmtScore(f float64) string { return strconv.FormatFloat(f, 'f', -1, 64) }

func isScoreReply(r vr.Resp, f float64) bool {
	return r.OK && !r.Null && (r.Kind == '$' || r.Kind == '+' || r.Kind == ',') && r.Str == fmtScore(f)
}

// Verif_C17_ZAdd: ZADD k [NX|XX] [GT|LT] [CH] score member on an arbitrary sorted set.
func Verif_C17_ZAdd() {
	s := verifServer()
	k := vr.Tok("k")
	p := c17Preset(s, k, "z", 3)
	policy := vr.Choose("policy", 3) // none NX XX
	comp := vr.Choose("comp", 3)     // none GT LT
	ch := vr.Choose("ch", 2) == 1
	n := []int{-3, 0, 2}[vr.Choose("score", 3)] // stored scores are arbitrary doubles: every order relation occurs
	score := float64(n)
	m := vr.Tok("m")
	// option words are case-insensitive: upper, lower and mixed spellings
	sp := vr.Choose("spelling", 3)
	argv := []string{"ZADD", k}
	if policy == 1 {
		argv = append(argv, []string{"NX", "nx", "Nx"}[sp])
	}
	if policy == 2 {
		argv = append(argv, []string{"XX", "xx", "xX"}[sp])
	}
	if comp == 1 {
		argv = append(argv, []string{"GT", "gt", "Gt"}[sp])
	}
	if comp == 2 {
		argv = append(argv, []string{"LT", "lt", "lT"}[sp])
	}
	if ch {
		argv = append(argv, []string{"CH", "ch", "cH"}[sp])
	}
	argv = append(argv, strconv.Itoa(n), m)
	reply, err, panicked := verifRun(s, argv...)
	vr.Assert(!panicked, "C17.zadd.nopanic")
	if panicked {
		return
	}
	if p.kind == kOther {
		vr.Assert(err != nil, "C17.zadd.wrongtype")
		c17Holds(s, k, p, "C17.zadd.wrongtype_unchanged")
		vr.Reach("end")
		return
	}
	if policy == 1 && comp != 0 {
		vr.Assert(err != nil, "C17.zadd.nx_with_gtlt_is_error")
		c17Holds(s, k, p, "C17.zadd.nx_with_gtlt_unchanged")
		vr.Reach("end")
		return
	}
	old, had := p.find(m)
	post := c17Pre{kind: kZSet}
	for _, x := range p.members {
		if x.name != m {
			post.members = append(post.members, x)
		}
	}
	added, changed := 0, 0
	switch {
	case !had && policy != 2:
		post.members = append(post.members, c17M{m, score})
		added = 1
	case !had:
		// XX: not added
	case policy == 1:
		post.members = append(post.members, old) // NX: existing member untouched
	default:
		ns := score
		if comp == 1 && !(score > old.score) {
			ns = old.score
		}
		if comp == 2 && !(score < old.score) {
			ns = old.score
		}
		if ns != old.score {
			changed = 1
		}
		post.members = append(post.members, c17M{m, ns})
	}
	vr.Assert(err == nil, "C17.zadd.noerror")
	if err == nil {
		want := added
		if ch {
			want = added + changed
		}
		vr.Assert(isIntReply(reply, want), "C17.zadd.reply")
	}
	c17Holds(s, k, post, "C17.zadd.post")
	vr.Reach("end")
}

func Verif_C17_ZIncrBy() {
	s := verifServer()
	k := vr.Tok("k")
	p := c17Preset(s, k, "z", 3)
	n := []int{-3, 0, 2}[vr.Choose("incr", 3)]
	m := vr.Tok("m")
	reply, err, panicked := verifRun(s, "ZINCRBY", k, strconv.Itoa(n), m)
	vr.Assert(!panicked, "C17.zincrby.nopanic")
	if panicked {
		return
	}
	if p.kind == kOther {
		vr.Assert(err != nil, "C17.zincrby.wrongtype")
		c17Holds(s, k, p, "C17.zincrby.wrongtype_unchanged")
		vr.Reach("end")
		return
	}
	old, had := p.find(m)
	want := float64(n)
	if had {
		want = old.score + float64(n)
	}
	if had && (old.score > 1.7e308 || old.score < -1.7e308) {
		// incrementing an infinite score: the repository rejects it; NaN must never be stored
		vr.Reach("end")
		return
	}
	post := c17Pre{kind: kZSet}
	for _, x := range p.members {
		if x.name != m {
			post.members = append(post.members, x)
		}
	}
	post.members = append(post.members, c17M{m, want})
	vr.Assert(err == nil, "C17.zincrby.noerror")
	if err == nil {
		vr.Assert(isScoreReply(vr.Decode(reply), want), "C17.zincrby.reply")
	}
	c17Holds(s, k, post, "C17.zincrby.post")
	vr.Reach("end")
}

func Verif_C17_Readers() {
	s := verifServer()
	k := vr.Tok("k")
	p := c17Preset(s, k, "z", 3)
	m1, m2 := vr.Tok("m1"), vr.Tok("m2")
	which := vr.Choose("cmd", 3)
	var reply []byte
	var err error
	var panicked bool
	switch which {
	case 0:
		reply, err, panicked = verifRun(s, "ZCARD", k)
	case 1:
		reply, err, panicked = verifRun(s, "ZSCORE", k, m1)
	case 2:
		reply, err, panicked = verifRun(s, "ZMSCORE", k, m1, m2)
	}
	vr.Assert(!panicked, "C17.readers.nopanic")
	if panicked {
		return
	}
	if p.kind == kOther {
		vr.Assert(err != nil, "C17.readers.wrongtype")
	} else {
		vr.Assert(err == nil, "C17.readers.noerror")
		if err == nil {
			switch which {
			case 0:
				vr.Assert(isIntReply(reply, len(p.members)), "C17.zcard.reply")
			case 1:
				r := vr.Decode(reply)
				if x, has := p.find(m1); has {
					vr.Assert(isScoreReply(r, x.score), "C17.zscore.reply")
				} else {
					vr.Assert(r.OK && r.Null, "C17.zscore.absent")
				}
			case 2:
				r, ok := arrayReply(reply)
				if p.kind == kAbsent && (!ok || len(r.Elems) == 0) {
					if ok {
						break // empty array for a missing key
					}
					// a missing key may also be answered with a single nil
					rr := vr.Decode(reply)
					vr.Assert(rr.OK && rr.Null, "C17.zmscore.absent_key")
					break
				}
				vr.Assert(ok && len(r.Elems) == 2, "C17.zmscore.shape")
				if ok && len(r.Elems) == 2 {
					for i, m := range []string{m1, m2} {
						if x, has := p.find(m); has {
							vr.Assert(isScoreReply(r.Elems[i], x.score), "C17.zmscore.reply")
						} else {
							vr.Assert(r.Elems[i].OK && r.Elems[i].Null, "C17.zmscore.absent")
						}
					}
				}
			}
		}
	}
	c17Holds(s, k, p, "C17.readers.unchanged")
	vr.Reach("end")
}

func Verif_C17_ZRem() {
	s := verifServer()
	k := vr.Tok("k")
	p := c17Preset(s, k, "z", 3)
	m1, m2 := vr.Tok("m1"), vr.Tok("m2")
	reply, err, panicked := verifRun(s, "ZREM", k, m1, m2)
	vr.Assert(!panicked, "C17.zrem.nopanic")
	if panicked {
		return
	}
	if p.kind == kOther {
		vr.Assert(err != nil, "C17.zrem.wrongtype")
		c17Holds(s, k, p, "C17.zrem.wrongtype_unchanged")
		vr.Reach("end")
		return
	}
	post := c17Pre{kind: p.kind}
	removed := 0
	for _, x := range p.members {
		if x.name == m1 || x.name == m2 {
			removed++
		} else {
			post.members = append(post.members, x)
		}
	}
	vr.Assert(err == nil && isIntReply(reply, removed), "C17.zrem.reply")
	c17Holds(s, k, post, "C17.zrem.post")
	vr.Reach("end")
}

// ZDIFF / ZDIFFSTORE over a base and one subtrahend.
func Verif_C17_ZDiffStore() {
	s := verifServer()
	k1, k2 := vr.Tok("k1"), vr.Tok("k2")
	vr.Assume(k1 != k2)
	// a key spelled like the WITHSCORES modifier is parsed as the modifier: outside the claim
	vr.Assume(!strings.EqualFold(k1, "withscores") && !strings.EqualFold(k2, "withscores"))
	p1 := c17Preset(s, k1, "a", 2)
	p2 := c17Preset(s, k2, "b", 2)
	var want []c17M
	for _, x := range p1.members {
		if _, in := p2.find(x.name); !in {
			want = append(want, x)
		}
	}
	store := vr.Choose("store", 2) == 1
	if !store {
		reply, err, panicked := verifRun(s, "ZDIFF", k1, k2)
		vr.Assert(!panicked && err == nil, "C17.zdiff.noerror")
		if panicked || err != nil {
			return
		}
		r, ok := arrayReply(reply)
		vr.Assert(ok && len(r.Elems) == len(want), "C17.zdiff.size")
		if ok && len(r.Elems) == len(want) {
			var names []string
			for _, x := range want {
				names = append(names, x.name)
			}
			var flat []vr.Resp
			for _, e := range r.Elems {
				if e.Kind == '*' && len(e.Elems) >= 1 {
					flat = append(flat, e.Elems[0])
				} else {
					flat = append(flat, e)
				}
			}
			vr.Assert(matchStrs(flat, names), "C17.zdiff.members")
		}
		c17Holds(s, k1, p1, "C17.zdiff.operand1_unchanged")
		c17Holds(s, k2, p2, "C17.zdiff.operand2_unchanged")
		vr.Reach("end")
		return
	}
	dst := vr.Tok("dst")
	vr.Assume(dst != k1 && dst != k2)
	reply, err, panicked := verifRun(s, "ZDIFFSTORE", dst, k1, k2)
	vr.Assert(!panicked && err == nil, "C17.zdiffstore.noerror")
	if panicked || err != nil {
		return
	}
	vr.Assert(isIntReply(reply, len(want)), "C17.zdiffstore.reply")
	if p1.kind == kZSet {
		c17Holds(s, dst, c17Pre{kind: kZSet, members: want}, "C17.zdiffstore.post")
		vr.Assert(s.store[0][dst].Value != s.store[0][k1].Value, "C17.zdiffstore.noalias")
	}
	c17Holds(s, k1, p1, "C17.zdiffstore.operand1_unchanged")
	c17Holds(s, k2, p2, "C17.zdiffstore.operand2_unchanged")
	vr.Reach("end")
}
