package acl

// C06(a) — the authorization decision procedure against the declarative policy of the property:
// a command is allowed iff every category, the command itself, every channel, every key read and
// every key written is covered by the user's rules.

import (
	"github.com/gobwas/glob"
	"net"
	"strconv"
	"strings"
	"time"

	"github.com/echovault/sugardb/internal"
	"github.com/echovault/sugardb/internal/config"
	"github.com/echovault/sugardb/internal/constants"
	vr "github.com/echovault/sugardb/internal/verifrt"
)

type fakeConn struct{ deadlineSet bool }

func (c *fakeConn) Read(b []byte) (int, error)         { return 0, nil }
func (c *fakeConn) Write(b []byte) (int, error)        { return len(b), nil }
func (c *fakeConn) Close() error                       { return nil }
func (c *fakeConn) LocalAddr() net.Addr                { return nil }
func (c *fakeConn) RemoteAddr() net.Addr               { return nil }
func (c *fakeConn) SetDeadline(t time.Time) error      { return nil }
func (c *fakeConn) SetReadDeadline(t time.Time) error  { c.deadlineSet = true; return nil }
func (c *fakeConn) SetWriteDeadline(t time.Time) error { return nil }

func newConn() *net.Conn {
	var c net.Conn = &fakeConn{}
	return &c
}

// symRules: a rule list of 0..max entries, each "*" or an arbitrary token.
func symRules(name string, max int) []string {
	n := vr.Choose(name+"_n", max+1)
	var out []string
	for i := 0; i < n; i++ {
		if vr.Choose(name+"_star"+strconv.Itoa(i), 2) == 1 {
			out = append(out, "*")
		} else {
			out = append(out, verifValid(vr.Tok(name+"_"+strconv.Itoa(i))))
		}
	}
	return out
}

func has(l []string, x string) bool {
	for _, e := range l {
		if e == x {
			return true
		}
	}
	return false
}

// covered: key matches at least one pattern of the (normalised) rule list.
func covered(a *ACL, patterns []string, key string) bool {
	for _, p := range patterns {
		if a.GlobPatterns[p].Match(key) {
			return true
		}
	}
	return false
}

// catName: a one-byte category name ('a'..'d'), so that the repository's byte-wise CompareLex (used
// to sort the error message) runs on real bytes.
func catName(name string) string {
	b := vr.Bytes(name, 1)
	vr.Assume(b[0] >= 'a' && b[0] <= 'd')
	return b
}

func symCatRules(name string, max int) []string {
	n := vr.Choose(name+"_n", max+1)
	var out []string
	for i := 0; i < n; i++ {
		if vr.Choose(name+"_star"+strconv.Itoa(i), 2) == 1 {
			out = append(out, "*")
		} else {
			out = append(out, catName(name+"_"+strconv.Itoa(i)))
		}
	}
	return out
}

func Verif_C06_Decision_Categories() { c06Decision(0) }
func Verif_C06_Decision_Commands()   { c06Decision(1) }
func Verif_C06_Decision_ReadKeys()   { c06KeyFamily = 0; c06Decision(2) }
func Verif_C06_Decision_WriteKeys()  { c06KeyFamily = 1; c06Decision(2) }

var c06KeyFamily int

func Verif_C06_Decision_Channels() { c06Decision(3) }

// c06Decision: arbitrary user rules of one family (the other families allow everything) x
// arbitrary command shape.
func c06Decision(which int) {
	a := NewACL(config.Config{RequirePass: true, Password: "pw"})
	u := CreateUser("u")
	u.Enabled = true
	u.NoKeys = which == 2 && vr.Choose("nokeys", 2) == 1
	switch which {
	case 0:
		u.IncludedCategories = symCatRules("ic", 2)
		u.ExcludedCategories = symCatRules("ec", 1)
	case 1:
		u.IncludedCommands = symRules("icmd", 2)
		u.ExcludedCommands = symRules("ecmd", 1)
	case 2:
		// one family symbolic at a time; the other one allows every key
		if c06KeyFamily == 0 {
			u.IncludedReadKeys = symRules("rk", 2)
		} else {
			u.IncludedWriteKeys = symRules("wk", 2)
		}
	case 3:
		u.IncludedPubSubChannels = symRules("ich", 2)
		u.ExcludedPubSubChannels = symRules("ech", 1)
	}
	u.Normalise()
	// ACL SETUSER on an existing user appends to its rule lists without normalising them again: a rule
	// that is granted a second time is then listed twice (the decision must not depend on that)
	if which == 0 && vr.Choose("regrant", 2) == 1 {
		for _, c := range u.IncludedCategories {
			if c != "*" {
				u.IncludedCategories = append(u.IncludedCategories, c)
				break
			}
		}
	}
	if which == 1 && vr.Choose("regrant", 2) == 1 {
		for _, c := range u.IncludedCommands {
			if c != "*" {
				u.IncludedCommands = append(u.IncludedCommands, c)
				break
			}
		}
	}
	a.Users = append(a.Users, u)
	a.CompileGlobs()
	conn := newConn()
	authenticated := vr.Choose("authenticated", 2) == 1
	a.Connections[conn] = Connection{Authenticated: authenticated, User: u}

	// the command: name, 1..2 categories, read keys, write keys, channels
	name := vr.Tok("cmdname")
	for _, exempt := range []string{"ack", "ping", "echo", "hello", "auth"} {
		vr.Assume(!strings.EqualFold(name, exempt))
	}
	var cats []string
	pubsub := which == 3
	if pubsub {
		cats = []string{constants.PubSubCategory}
	} else {
		cats = []string{catName("cat0")}
		if which == 0 && vr.Choose("ncat", 2) == 1 {
			cats = append(cats, catName("cat1"))
		}
	}
	var reads, writes, chans []string
	if which == 2 {
		nr, nw := 3, 2
		if c06KeyFamily == 1 {
			nr, nw = 2, 3
		}
		for i := 0; i < vr.Choose("nread", nr); i++ {
			reads = append(reads, vr.Tok("r"+strconv.Itoa(i)))
		}
		for i := 0; i < vr.Choose("nwrite", nw); i++ {
			writes = append(writes, vr.Tok("w"+strconv.Itoa(i)))
		}
	}
	if pubsub {
		for i := 0; i < 1+vr.Choose("nchan", 2); i++ {
			chans = append(chans, vr.Tok("ch"+strconv.Itoa(i)))
		}
	}
	command := internal.Command{
		Command:    name,
		Categories: cats,
		KeyExtractionFunc: func(cmd []string) (internal.KeyExtractionFuncResult, error) {
			return internal.KeyExtractionFuncResult{Channels: chans, ReadKeys: reads, WriteKeys: writes}, nil
		},
	}
	err := a.AuthorizeConnection(conn, []string{name}, command, internal.SubCommand{})

	// ---- the policy, as worded in the property ----
	allowed := authenticated
	for _, c := range cats {
		allowed = allowed && (has(u.IncludedCategories, "*") || has(u.IncludedCategories, c))
		allowed = allowed && !has(u.ExcludedCategories, "*") && !has(u.ExcludedCategories, c)
	}
	allowed = allowed && (has(u.IncludedCommands, "*") || has(u.IncludedCommands, name))
	allowed = allowed && !has(u.ExcludedCommands, "*") && !has(u.ExcludedCommands, name)
	for _, ch := range chans {
		allowed = allowed && covered(a, u.IncludedPubSubChannels, ch) && !covered(a, u.ExcludedPubSubChannels, ch)
	}
	if !pubsub {
		if len(reads)+len(writes) > 0 {
			allowed = allowed && !u.NoKeys
		}
		for _, k := range reads {
			allowed = allowed && covered(a, u.IncludedReadKeys, k)
		}
		for _, k := range writes {
			allowed = allowed && covered(a, u.IncludedWriteKeys, k)
		}
	}
	if allowed {
		vr.Assert(err == nil, "C06.decision.allows_what_the_rules_allow")
	} else {
		vr.Assert(err != nil, "C06.decision.denies_what_the_rules_do_not_allow")
	}
	vr.Reach("end")
}

// verifValid: p is a syntactically valid glob (the handlers refuse the others before they get here).
func verifValid(p string) string {
	_, err := glob.Compile(p)
	vr.Assume(err == nil)
	return p
}
