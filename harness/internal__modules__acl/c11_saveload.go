package acl

// C11 — ACL SAVE followed by ACL LOAD or a restart reproduces the same users and rules (JSON
// config file; the file lives in the modelled file system, encoding/json is modelled).

import (
	"context"
	"reflect"

	"github.com/echovault/sugardb/internal"
	"github.com/echovault/sugardb/internal/config"
	vr "github.com/echovault/sugardb/internal/verifrt"
)

func c11SymUser(name string) *User {
	u := CreateUser(name)
	u.Enabled = vr.Choose(name+"_enabled", 2) == 1
	u.NoPassword = vr.Choose(name+"_nopass", 2) == 1
	u.NoKeys = vr.Choose(name+"_nokeys", 2) == 1
	u.Passwords = symPasswords(name+"_pw", 1)
	if vr.Choose(name+"_rules", 2) == 1 {
		u.IncludedCategories = []string{"read", "fast"}
		u.ExcludedCommands = []string{"flushall"}
		u.IncludedReadKeys = []string{verifValid(vr.Tok(name + "_rk")), "cache:*"}
		u.IncludedWriteKeys = []string{"app:*"}
		u.ExcludedPubSubChannels = []string{"private"}
	}
	u.Normalise()
	return u
}

func c11Handler(a *ACL, argv ...string) ([]byte, error) {
	var h internal.HandlerFunc
	for _, c := range Commands() {
		if c.Command != "acl" {
			continue
		}
		for _, sc := range c.SubCommands {
			if len(argv) > 1 && sc.Command == argv[1] {
				h = sc.HandlerFunc
			}
		}
	}
	if h == nil {
		panic("verif: no such ACL sub-command")
	}
	return h(internal.HandlerFuncParams{
		Context: context.Background(),
		Command: argv,
		GetACL:  func() interface{} { return a },
	})
}

func c11SameUsers(x, y []*User) bool {
	if len(x) != len(y) {
		return false
	}
	for i := range x {
		if !reflect.DeepEqual(*x[i], *y[i]) {
			return false
		}
	}
	return true
}

func Verif_C11_SaveThenRestartOrLoad() {
	dir := vr.FSReset()
	cfg := config.Config{AclConfig: dir + "/acl.json", RequirePass: true, Password: "pw"}
	a := NewACL(cfg)
	a.Users = append(a.Users, c11SymUser("alice"))
	if vr.Choose("two_users", 2) == 1 {
		bob := CreateUser("bob")
		bob.Passwords = []Password{{PasswordType: PasswordSHA256, PasswordValue: shaHex("secret")}}
		bob.NoPassword = false
		bob.ExcludedCategories = []string{"dangerous"}
		bob.Normalise()
		a.Users = append(a.Users, bob)
	}
	reply, err := c11Handler(a, "ACL", "save")
	vr.Assert(err == nil && string(reply) == "+OK\r\n", "C11.save.replies_ok")
	switch vr.Choose("then", 3) {
	case 0: // restart
		b := NewACL(cfg)
		vr.Assert(c11SameUsers(a.Users, b.Users), "C11.save.restart_reproduces_users_and_rules")
	case 1: // LOAD REPLACE over edited users
		a2 := NewACL(config.Config{AclConfig: cfg.AclConfig, RequirePass: true, Password: "other"})
		// the running table differs: alice is disabled and has lost her rules
		for _, u := range a2.Users {
			if u.Username == "alice" {
				u.Enabled = !u.Enabled
				u.IncludedReadKeys = []string{"zzz"}
			}
		}
		// a connection that is already bound to alice when the file is loaded
		conn := newConn()
		a2.RegisterConnection(conn)
		for _, u := range a2.Users {
			if u.Username == "alice" {
				a2.Connections[conn] = Connection{Authenticated: true, User: u}
			}
		}
		_, lerr := c11Handler(a2, "ACL", "load", "replace")
		vr.Assert(lerr == nil, "C11.load.replies_ok")
		vr.Assert(c11SameUsers(a.Users, a2.Users), "C11.save.load_replace_reproduces_users_and_rules")
		// the loaded rules govern every later decision, also for that connection: it is bound to the
		// user that is in the table now, not to a copy that was left behind
		bound := a2.Connections[conn].User
		inTable := false
		for _, u := range a2.Users {
			if u == bound {
				inTable = true
			}
		}
		vr.Assert(inTable && bound != nil && bound.Username == "alice", "C11.load.bound_connections_follow_the_loaded_user")
	case 2: // saving twice and restarting is the same as saving once
		_, err2 := c11Handler(a, "ACL", "save")
		b := NewACL(cfg)
		vr.Assert(err2 == nil && c11SameUsers(a.Users, b.Users), "C11.save.second_save_overwrites_the_first")
	}
	vr.Reach("end")
}
