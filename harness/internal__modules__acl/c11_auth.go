package acl

// C11 — authentication and user lifecycle follow the stored credentials.

import (
	"context"
	"crypto/sha256"
	"encoding/hex"
	"net"
	"strconv"

	"github.com/echovault/sugardb/internal/config"
	vr "github.com/echovault/sugardb/internal/verifrt"
)

func shaHex(s string) string {
	h := sha256.New()
	h.Write([]byte(s))
	return hex.EncodeToString(h.Sum(nil))
}

func symPasswords(name string, max int) []Password {
	n := vr.Choose(name+"_n", max+1)
	var out []Password
	for i := 0; i < n; i++ {
		t := PasswordPlainText
		if vr.Choose(name+"_t"+strconv.Itoa(i), 2) == 1 {
			t = PasswordSHA256
		}
		out = append(out, Password{PasswordType: t, PasswordValue: vr.Tok(name + "_v" + strconv.Itoa(i))})
	}
	return out
}

// credentialOK: the stored credentials accept password pw.
func credentialOK(u *User, pw string) bool {
	if !u.Enabled {
		return false
	}
	if u.NoPassword {
		return true
	}
	ok := false
	for _, p := range u.Passwords {
		if p.PasswordType == PasswordPlainText && p.PasswordValue == pw {
			ok = true
		}
		if p.PasswordType == PasswordSHA256 && p.PasswordValue == shaHex(pw) {
			ok = true
		}
	}
	return ok
}

// Verif_C11_Authenticate: AUTH [user] password against an arbitrary user table; success exactly
// when the credentials say so; a failed attempt leaves the connection's identity untouched.
func Verif_C11_Authenticate() { verifAuthenticate("C11") }

// The same scenario decides which user's rules every later command of the connection is
// authorized against (C06): only a successful AUTH may change that.
func Verif_C06_AuthDecidesWhoseRulesApply() { verifAuthenticate("C06") }

func verifAuthenticate(tag string) {
	a := NewACL(config.Config{RequirePass: true, Password: "pw"})
	def := a.Users[0]
	def.Enabled = vr.Bool("def_enabled")
	def.NoPassword = vr.Bool("def_nopass")
	def.Passwords = symPasswords("dp", 2)
	uname := vr.Tok("uname")
	vr.Assume(uname != "default")
	u := CreateUser(uname)
	u.Enabled = vr.Bool("u_enabled")
	u.NoPassword = vr.Bool("u_nopass")
	u.Passwords = symPasswords("up", 2)
	a.Users = append(a.Users, u)

	conn := newConn()
	prevUser := def
	if vr.Choose("prev_user", 2) == 1 {
		prevUser = u
	}
	prevAuth := vr.Bool("prev_auth")
	a.Connections[conn] = Connection{Authenticated: prevAuth, User: prevUser}
	other := newConn()
	a.Connections[other] = Connection{Authenticated: true, User: u}

	pw := vr.Tok("pw")
	var cmd []string
	var target *User
	switch vr.Choose("form", 4) {
	case 0:
		cmd = []string{"AUTH", pw}
		target = def
	case 1:
		cmd = []string{"AUTH", "default", pw}
		target = def
	case 2:
		cmd = []string{"AUTH", uname, pw}
		target = u
	case 3:
		ghost := vr.Tok("ghost")
		vr.Assume(ghost != "default" && ghost != uname)
		cmd = []string{"AUTH", ghost, pw}
		target = nil
	}
	err := a.AuthenticateConnection(context.Background(), conn, cmd)
	want := target != nil && credentialOK(target, pw)
	if want {
		vr.Assert(err == nil, tag+".auth.succeeds_when_credentials_match")
		c := a.Connections[conn]
		vr.Assert(c.Authenticated && c.User == target, tag+".auth.success_binds_connection_to_user")
	} else {
		vr.Assert(err != nil, tag+".auth.fails_when_credentials_do_not_match")
		c := a.Connections[conn]
		vr.Assert(c.User == prevUser && c.Authenticated == prevAuth, tag+".auth.failure_leaves_identity_unchanged")
	}
	o := a.Connections[other]
	vr.Assert(o.User == u && o.Authenticated, tag+".auth.other_connections_unaffected")
	vr.Reach("end")
}

// Verif_C11_Register: a new connection starts as the default user, authenticated only if that
// user needs no password.
func Verif_C11_Register() {
	a := NewACL(config.Config{RequirePass: vr.Choose("requirepass", 2) == 1, Password: "pw"})
	def := a.Users[0]
	if vr.Choose("override", 2) == 1 {
		def.NoPassword = vr.Bool("def_nopass")
	}
	// the user table of a server whose ACL file lists another user before "default" (NewACL keeps the
	// order of the file): the default user is found by name, not by position
	if vr.Choose("default_not_first", 2) == 1 {
		admin := CreateUser("admin")
		admin.NoPassword = vr.Bool("admin_nopass")
		admin.Normalise()
		a.Users = append([]*User{admin}, a.Users...)
	}
	var c net.Conn = &fakeConn{}
	conn := &c
	a.RegisterConnection(conn)
	got := a.Connections[conn]
	vr.Assert(got.User == def, "C11.register.default_user")
	vr.Assert(got.Authenticated == def.NoPassword, "C11.register.authenticated_iff_nopass")
	vr.Reach("end")
}

// Verif_C11_SetUserThenAuth: one SETUSER rule edit changes exactly what later AUTH attempts see.
func Verif_C11_SetUserThenAuth() {
	a := NewACL(config.Config{RequirePass: true, Password: "pw"})
	// UpdateUser inspects every argument byte by byte, the user name included: a 3-letter name
	name := vr.Bytes("name", 3)
	for i := 0; i < 3; i++ {
		vr.Assume(name[i] >= 'a' && name[i] <= 'z')
	}
	vr.Assume(name != "off" && name != "on")
	p1, p2 := vr.Tok("p1"), vr.Tok("p2")
	vr.Assume(p1 != p2)
	// create: on, password p1
	vr.Assert(a.SetUser([]string{name, "on", ">" + p1}) == nil, "C11.setuser.create")
	conn := newConn()
	a.RegisterConnection(conn)
	ctx := context.Background()
	vr.Assert(a.AuthenticateConnection(ctx, conn, []string{"AUTH", name, p1}) == nil, "C11.setuser.new_user_can_authenticate")
	vr.Assert(a.AuthenticateConnection(ctx, conn, []string{"AUTH", name, p2}) != nil, "C11.setuser.wrong_password_is_rejected")
	edit := vr.Choose("edit", 12)
	probe := newConn()
	a.RegisterConnection(probe)
	switch edit {
	case 0: // add a second plaintext password
		vr.Assert(a.SetUser([]string{name, ">" + p2}) == nil, "C11.setuser.edit")
		vr.Assert(a.AuthenticateConnection(ctx, probe, []string{"AUTH", name, p2}) == nil, "C11.setuser.added_password_works")
		vr.Assert(a.AuthenticateConnection(ctx, probe, []string{"AUTH", name, p1}) == nil, "C11.setuser.old_password_still_works")
	case 1: // remove the password
		vr.Assert(a.SetUser([]string{name, "<" + p1}) == nil, "C11.setuser.edit")
		vr.Assert(a.AuthenticateConnection(ctx, probe, []string{"AUTH", name, p1}) != nil, "C11.setuser.removed_password_is_rejected")
	case 2: // disable
		vr.Assert(a.SetUser([]string{name, "off"}) == nil, "C11.setuser.edit")
		vr.Assert(a.AuthenticateConnection(ctx, probe, []string{"AUTH", name, p1}) != nil, "C11.setuser.disabled_user_cannot_authenticate")
	case 3: // nopass
		vr.Assert(a.SetUser([]string{name, "nopass"}) == nil, "C11.setuser.edit")
		vr.Assert(a.AuthenticateConnection(ctx, probe, []string{"AUTH", name, p2}) == nil, "C11.setuser.nopass_accepts_any_password")
	case 4: // resetpass
		vr.Assert(a.SetUser([]string{name, "resetpass"}) == nil, "C11.setuser.edit")
		vr.Assert(a.AuthenticateConnection(ctx, probe, []string{"AUTH", name, p1}) != nil, "C11.setuser.resetpass_removes_passwords")
	case 5: // hashed password
		vr.Assert(a.SetUser([]string{name, "#" + shaHex(p2)}) == nil, "C11.setuser.edit")
		vr.Assert(a.AuthenticateConnection(ctx, probe, []string{"AUTH", name, p2}) == nil, "C11.setuser.hashed_password_works")
	case 7: // a hashed password added and then removed with the !<hash> spelling
		vr.Assert(a.SetUser([]string{name, "#" + shaHex(p2)}) == nil, "C11.setuser.edit")
		vr.Assert(a.SetUser([]string{name, "!" + shaHex(p2)}) == nil, "C11.setuser.edit")
		vr.Assert(a.AuthenticateConnection(ctx, probe, []string{"AUTH", name, p2}) != nil, "C11.setuser.removed_hash_is_rejected")
		vr.Assert(a.AuthenticateConnection(ctx, probe, []string{"AUTH", name, p1}) == nil, "C11.setuser.other_password_survives_hash_removal")
	case 8: // !<x> names a hash entry: a plaintext password spelled x is not removed by it
		vr.Assert(a.SetUser([]string{name, "!" + p1}) == nil, "C11.setuser.edit")
		vr.Assert(a.AuthenticateConnection(ctx, probe, []string{"AUTH", name, p1}) == nil, "C11.setuser.hash_removal_leaves_plaintext_password")
	case 9: // <p removes the plaintext entry only: the same password stored as a hash still works
		vr.Assert(a.SetUser([]string{name, "#" + shaHex(p1)}) == nil, "C11.setuser.edit")
		vr.Assert(a.SetUser([]string{name, "<" + p1}) == nil, "C11.setuser.edit")
		vr.Assert(a.AuthenticateConnection(ctx, probe, []string{"AUTH", name, p1}) == nil, "C11.setuser.plaintext_removal_leaves_hash_entry")
		vr.Assert(a.SetUser([]string{name, "!" + shaHex(p1)}) == nil, "C11.setuser.edit")
		vr.Assert(a.AuthenticateConnection(ctx, probe, []string{"AUTH", name, p1}) != nil, "C11.setuser.removed_password_is_rejected")
	case 10: // off then on again
		vr.Assert(a.SetUser([]string{name, "off"}) == nil, "C11.setuser.edit")
		vr.Assert(a.SetUser([]string{name, "on"}) == nil, "C11.setuser.edit")
		vr.Assert(a.AuthenticateConnection(ctx, probe, []string{"AUTH", name, p1}) == nil, "C11.setuser.reenabled_user_can_authenticate")
		vr.Assert(a.AuthenticateConnection(ctx, probe, []string{"AUTH", name, p2}) != nil, "C11.setuser.wrong_password_is_rejected")
	case 11: // nopass and then a password again: the password is required once more
		vr.Assert(a.SetUser([]string{name, "nopass"}) == nil, "C11.setuser.edit")
		vr.Assert(a.SetUser([]string{name, ">" + p2}) == nil, "C11.setuser.edit")
		vr.Assert(a.AuthenticateConnection(ctx, probe, []string{"AUTH", name, p2}) == nil, "C11.setuser.added_password_works")
		q := vr.Tok("q")
		vr.Assume(q != p1 && q != p2)
		vr.Assert(a.AuthenticateConnection(ctx, probe, []string{"AUTH", name, q}) != nil, "C11.setuser.wrong_password_is_rejected")
	case 6: // delete the user; default survives deletion
		vr.Assert(a.DeleteUser(ctx, []string{name, "default"}) == nil, "C11.deluser")
		vr.Assert(a.AuthenticateConnection(ctx, probe, []string{"AUTH", name, p1}) != nil, "C11.deluser.deleted_user_cannot_authenticate")
		hasDefault := false
		for _, x := range a.Users {
			if x.Username == "default" {
				hasDefault = true
			}
		}
		vr.Assert(hasDefault, "C11.deluser.default_cannot_be_deleted")
	}
	vr.Reach("end")
}

// Verif_C11_ReplaceMerge: ACL LOAD applies the stored profile to an existing user with
// User.Replace (REPLACE mode) or User.Merge (MERGE mode). After Replace the in-memory user must
// authenticate exactly as the stored profile does; after Merge the flags are the stored ones and
// the stored passwords are accepted.
func Verif_C11_ReplaceMerge() {
	cur := CreateUser("svc")
	cur.Enabled = vr.Bool("cur_enabled")
	cur.NoPassword = vr.Bool("cur_nopass")
	cur.NoKeys = vr.Bool("cur_nokeys")
	cur.Passwords = symPasswords("cp", 1)
	stored := CreateUser("svc")
	stored.Enabled = vr.Bool("st_enabled")
	stored.NoPassword = vr.Bool("st_nopass")
	stored.NoKeys = vr.Bool("st_nokeys")
	stored.Passwords = symPasswords("sp", 2)
	pw := vr.Tok("pw")
	want := credentialOK(stored, pw)
	if vr.Choose("mode", 2) == 0 {
		cur.Replace(stored)
		vr.Assert(cur.Enabled == stored.Enabled && cur.NoPassword == stored.NoPassword && cur.NoKeys == stored.NoKeys, "C11.load_replace.flags")
		vr.Assert(credentialOK(cur, pw) == want, "C11.load_replace.authenticates_as_stored")
	} else {
		cur.Merge(stored)
		vr.Assert(cur.Enabled == stored.Enabled && cur.NoPassword == stored.NoPassword && cur.NoKeys == stored.NoKeys, "C11.load_merge.flags")
		if want {
			vr.Assert(credentialOK(cur, pw), "C11.load_merge.stored_credentials_accepted")
		}
	}
	vr.Reach("end")
}
