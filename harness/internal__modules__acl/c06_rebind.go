package acl

// C06 — every decision is taken on the *current* rules of the user the connection is bound to.
// A connection authenticates as alice, then alice's rules are replaced by one of the ways the server
// offers (ACL LOAD REPLACE from a file saved earlier, ACL SETUSER, LOAD REPLACE followed by SETUSER):
// the next command of that same connection is judged by the rules that are in force now - what the
// reloaded or edited user is denied is denied to the bound connection too.

import (
	"github.com/echovault/sugardb/internal"
	"github.com/echovault/sugardb/internal/config"
	vr "github.com/echovault/sugardb/internal/verifrt"
)

func Verif_C06_BoundConnectionFollowsRuleChanges() {
	dir := vr.FSReset()
	cfg := config.Config{AclConfig: dir + "/acl.json", RequirePass: true, Password: "pw"}
	// the file holds a tight alice: every command except SET
	a := NewACL(cfg)
	tight := CreateUser("alice")
	tight.NoPassword = true
	tight.ExcludedCommands = []string{"set"}
	tight.Normalise()
	a.Users = append(a.Users, tight)
	_, err := c11Handler(a, "ACL", "save")
	vr.Assert(err == nil, "C06.rebind.save")
	// the running server knows a permissive alice
	b := NewACL(cfg)
	var alice *User
	for _, u := range b.Users {
		if u.Username == "alice" {
			u.ExcludedCommands = []string{}
			u.Normalise()
			alice = u
		}
	}
	if alice == nil {
		return
	}
	conn := newConn()
	b.RegisterConnection(conn)
	b.Connections[conn] = Connection{Authenticated: true, User: alice}
	probe := func(name string) error {
		command := internal.Command{
			Command:    name,
			Categories: []string{"write"},
			KeyExtractionFunc: func(cmd []string) (internal.KeyExtractionFuncResult, error) {
				return internal.KeyExtractionFuncResult{WriteKeys: []string{"k"}}, nil
			},
		}
		return b.AuthorizeConnection(conn, []string{name, "k", "v"}, command, internal.SubCommand{})
	}
	vr.Assert(probe("set") == nil, "C06.rebind.permissive_rules_allow")
	how := vr.Choose("how", 4)
	switch how {
	case 0:
		_, err = c11Handler(b, "ACL", "load", "replace")
	case 1:
		_, err = c11Handler(b, "ACL", "setuser", "alice", "-set")
	case 2:
		_, err = c11Handler(b, "ACL", "load", "replace")
		if err == nil {
			_, err = c11Handler(b, "ACL", "setuser", "alice", "-del")
		}
	case 3:
		_, err = c11Handler(b, "ACL", "load", "merge")
	}
	vr.Assert(err == nil, "C06.rebind.rule_change_accepted")
	if err != nil {
		return
	}
	if how != 3 {
		vr.Assert(probe("set") != nil, "C06.rebind.bound_connection_is_judged_by_the_current_rules")
	}
	if how == 2 {
		vr.Assert(probe("del") != nil, "C06.rebind.later_edit_reaches_the_bound_connection")
	}
	vr.Assert(probe("get") == nil, "C06.rebind.still_allowed_what_the_rules_allow")
	vr.Reach("end")
}
