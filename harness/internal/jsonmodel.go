package internal

// Translator validation for the encoding/json model: fixed inputs whose real encoding/json output
// was recorded from the native library are pushed through the model (the symbolic executor) and
// through the real library (native replay runs the same function); both must agree with the
// recorded bytes and typing.

import (
	"encoding/json"
	"time"

	vr "github.com/echovault/sugardb/internal/verifrt"
)

type verifHidden struct{ members map[string]bool }

type verifManifest struct {
	LatestSnapshotMilliseconds int64
	LatestSnapshotHash         [16]byte
}

func verifJSONModel(tag string) {
	st := map[int]map[string]KeyData{
		10: {"b": {Value: "x<y>&\"q\"", ExpireAt: time.Unix(1700000000, 5000000).UTC()}, "a": {Value: 12}},
		2: {"l": {Value: []string{"p", "q"}}, "f": {Value: 1.5}, "h": {Value: map[string]interface{}{"f": "1", "g": 2}},
			"s": {Value: &verifHidden{map[string]bool{"m": true}}}, "n": {Value: nil}},
	}
	o, err := json.Marshal(SnapshotObject{State: st, LatestSnapshotMilliseconds: 77})
	vr.Assert(err == nil, tag+".jsonmodel.marshal_ok")
	want := `{"State":{"10":{"a":{"Value":12,"ExpireAt":"0001-01-01T00:00:00Z"},"b":{"Value":"x\u003cy\u003e\u0026\"q\"","ExpireAt":"2023-11-14T22:13:20.005Z"}},"2":{"f":{"Value":1.5,"ExpireAt":"0001-01-01T00:00:00Z"},"h":{"Value":{"f":"1","g":2},"ExpireAt":"0001-01-01T00:00:00Z"},"l":{"Value":["p","q"],"ExpireAt":"0001-01-01T00:00:00Z"},"n":{"Value":null,"ExpireAt":"0001-01-01T00:00:00Z"},"s":{"Value":{},"ExpireAt":"0001-01-01T00:00:00Z"}}},"LatestSnapshotMilliseconds":77}`
	vr.Assert(string(o) == want, tag+".jsonmodel.marshal_bytes")
	m, _ := json.Marshal(verifManifest{5, [16]byte{1, 2, 255}})
	vr.Assert(string(m) == `{"LatestSnapshotMilliseconds":5,"LatestSnapshotHash":[1,2,255,0,0,0,0,0,0,0,0,0,0,0,0,0]}`, tag+".jsonmodel.manifest_bytes")
	r, _ := json.Marshal(ApplyRequest{Type: "command", Database: 3, CMD: []string{"SET", "k", "v"}})
	vr.Assert(string(r) == `{"Type":"command","ServerID":"","ConnectionID":"","Protocol":0,"Database":3,"CMD":["SET","k","v"],"Key":""}`, tag+".jsonmodel.request_bytes")

	var back SnapshotObject
	vr.Assert(json.Unmarshal(o, &back) == nil, tag+".jsonmodel.unmarshal_ok")
	a := back.State[10]["a"]
	f, isF := a.Value.(float64)
	vr.Assert(isF && f == 12 && a.ExpireAt.IsZero(), tag+".jsonmodel.int_becomes_float64")
	b := back.State[10]["b"]
	bs, isS := b.Value.(string)
	vr.Assert(isS && bs == "x<y>&\"q\"" && b.ExpireAt.UnixNano() == 1700000000005000000, tag+".jsonmodel.string_and_time")
	l, isL := back.State[2]["l"].Value.([]interface{})
	vr.Assert(isL && len(l) == 2 && l[0] == "p" && l[1] == "q", tag+".jsonmodel.list_becomes_slice_of_interface")
	h, isH := back.State[2]["h"].Value.(map[string]interface{})
	vr.Assert(isH && len(h) == 2 && h["f"] == "1" && h["g"] == float64(2), tag+".jsonmodel.hash_map")
	s, isM := back.State[2]["s"].Value.(map[string]interface{})
	vr.Assert(isM && len(s) == 0, tag+".jsonmodel.unexported_fields_are_dropped")
	vr.Assert(back.State[2]["n"].Value == nil && back.LatestSnapshotMilliseconds == 77, tag+".jsonmodel.null")
	var mb verifManifest
	vr.Assert(json.Unmarshal(m, &mb) == nil && mb.LatestSnapshotMilliseconds == 5 && mb.LatestSnapshotHash == [16]byte{1, 2, 255}, tag+".jsonmodel.manifest_back")
	var tmp SnapshotObject
	vr.Assert(json.Unmarshal(append(append([]byte{}, m...), '1'), &mb) != nil, tag+".jsonmodel.trailing_rejected")
	vr.Assert(json.Unmarshal([]byte(`{"LatestSnapshotMilliseconds":1.5}`), &tmp) != nil, tag+".jsonmodel.fraction_into_int_rejected")
	var ci SnapshotObject
	vr.Assert(json.Unmarshal([]byte(`{"latestsnapshotmilliseconds":9,"State":null,"Other":[1,{"x":true}]}`), &ci) == nil && ci.LatestSnapshotMilliseconds == 9 && ci.State == nil, tag+".jsonmodel.case_insensitive_and_unknown_fields")

	vr.Reach("end")
}

func verifJSONModelPrefix(tag string) {
	st := map[int]map[string]KeyData{
		10: {"b": {Value: "xy", ExpireAt: time.Unix(1700000000, 5000000).UTC()}, "a": {Value: 12}},
		2:  {"l": {Value: []string{"p", "q"}}, "n": {Value: nil}},
	}
	o, _ := json.Marshal(SnapshotObject{State: st, LatestSnapshotMilliseconds: 77})
	// every proper prefix of the document is rejected, and so is trailing garbage
	cut := vr.Int("cut")
	vr.Assume(cut >= 0 && cut < len(o))
	var tmp SnapshotObject
	vr.Assert(json.Unmarshal(o[:cut], &tmp) != nil, tag+".jsonmodel.prefix_rejected")
	vr.Reach("end")
}

func verifJSONModelSymbolic(tag string) {
	// symbolic leaves: token strings, symbolic integers and instants survive the round trip
	k, v := vr.Tok("k"), vr.Tok("v")
	n := vr.Int("n")
	ms := vr.Int64("ms")
	vr.Assume(ms >= 1_000_000_000_000 && ms <= 4_000_000_000_000)
	db := vr.Int("db")
	vr.Assume(db >= 0 && db <= 1000)
	st2 := map[int]map[string]KeyData{db: {k: {Value: v, ExpireAt: time.UnixMilli(ms)}}, db + 1: {"i": {Value: n}}}
	o2, _ := json.Marshal(st2)
	back2 := map[int]map[string]KeyData{}
	vr.Assert(json.Unmarshal(o2, &back2) == nil, tag+".jsonmodel.symbolic_unmarshal_ok")
	e := back2[db][k]
	es, isS2 := e.Value.(string)
	vr.Assert(isS2 && es == v && e.ExpireAt.UnixMilli() == ms, tag+".jsonmodel.symbolic_string_and_time")
	nf, isF2 := back2[db+1]["i"].Value.(float64)
	vr.Assert(isF2 && nf == float64(n), tag+".jsonmodel.symbolic_int_becomes_float64")
	vr.Reach("end")
}

func Verif_C09_JSONModel()         { verifJSONModel("C09") }
func Verif_C09_JSONModelPrefix()   { verifJSONModelPrefix("C09") }
func Verif_C09_JSONModelSymbolic() { verifJSONModelSymbolic("C09") }
