package internal

// FilterExpiredKeys is the expired-key filter used by snapshots (take and restore), the AOF
// preamble (create and restore) and the raft snapshot. It must drop exactly the entries whose own
// deadline has passed, database by database.

import (
	"time"

	vr "github.com/echovault/sugardb/internal/verifrt"
)

func verifFilterExpiredKeys(tag string) {
	vr.MapOrderND(true)
	nowMs := vr.Int64("now")
	vr.Assume(nowMs >= 1_000_000_000_000 && nowMs <= 4_000_000_000_000)
	now := time.UnixMilli(nowMs)
	a, b := vr.Int("a"), vr.Int("b")
	vr.Assume(a >= 0 && a <= 1000 && b >= 0 && b <= 1000 && a != b)
	k, k2 := vr.Tok("k"), vr.Tok("k2")
	vr.Assume(k != k2)
	mk := func(name string) (KeyData, bool, bool) {
		kd := KeyData{Value: vr.Tok(name + "_v")}
		switch vr.Choose(name+"_dl", 3) {
		case 0:
			return kd, false, false // no deadline
		case 1:
			ms := vr.Int64(name + "_ms")
			vr.Assume(ms >= 1_000_000_000_000 && ms <= 4_000_000_000_000)
			kd.ExpireAt = time.UnixMilli(ms)
			return kd, true, ms < nowMs
		}
		return kd, false, false
	}
	ka, _, expA := mk("ka")
	kb, _, expB := mk("kb")
	k2a, _, exp2A := mk("k2a")
	state := map[int]map[string]KeyData{
		a: {k: ka, k2: k2a},
		b: {k: kb},
	}
	out := FilterExpiredKeys(now, state)
	_, hasA := out[a][k]
	_, hasB := out[b][k]
	_, has2A := out[a][k2]
	vr.Assert(hasA == !expA, tag+".filter.db_a_key")
	vr.Assert(hasB == !expB, tag+".filter.db_b_same_name_key")
	vr.Assert(has2A == !exp2A, tag+".filter.db_a_other_key")
	vr.Reach("end")
}

func Verif_C20_FilterExpiredKeys() { verifFilterExpiredKeys("C20") }

// The same filter decides what a log rewrite writes into the preamble (C09) and what a snapshot
// captures and restores (C03).
func Verif_C09_FilterExpiredKeys() { verifFilterExpiredKeys("C09") }
func Verif_C03_FilterExpiredKeys() { verifFilterExpiredKeys("C03") }

// Removing an entry here is a removal "by expiry" (C04: keys whose deadline has not passed, and keys
// without one, are never removed by expiry), and the raft snapshot of a node goes through it too (C07).
func Verif_C04_FilterExpiredKeys() { verifFilterExpiredKeys("C04") }
func Verif_C07_FilterExpiredKeys() { verifFilterExpiredKeys("C07") }
