package verifrt

// Native twin of the engine's file system model: the same operations of package os, counted the
// same way, around a real temporary directory. Source files of packages that call package os
// directly are compiled for replay with their "os." selectors pointed here (see the replay
// builder), so that a crash found symbolically ("before the n-th mutating operation") can be
// re-enacted against the real code.

import (
	"os"
	"path/filepath"
	"sort"
	"strings"
	"time"
)

type FileMode = os.FileMode

const (
	ModePerm = os.ModePerm
	O_RDONLY = os.O_RDONLY
	O_WRONLY = os.O_WRONLY
	O_RDWR   = os.O_RDWR
	O_APPEND = os.O_APPEND
	O_CREATE = os.O_CREATE
	O_EXCL   = os.O_EXCL
	O_SYNC   = os.O_SYNC
	O_TRUNC  = os.O_TRUNC
)

var Stdout, Stderr = os.Stdout, os.Stderr

var vfs struct {
	root    string
	ops     int
	crashAt int
	synced  map[string]int64
	dirty   map[string]bool
}

func fsStep() {
	vfs.ops++
	if vfs.crashAt != 0 && vfs.ops == vfs.crashAt {
		panic("verif: crash")
	}
}

// FSReset starts from an empty directory and returns its path.
func FSReset() string {
	if vfs.root != "" {
		os.RemoveAll(vfs.root)
	}
	d, err := os.MkdirTemp("", "verif-fs-")
	if err != nil {
		panic(err)
	}
	vfs.root, vfs.ops, vfs.crashAt = d, 0, 0
	vfs.synced, vfs.dirty = map[string]int64{}, map[string]bool{}
	return d
}

// FSCrashBefore: the n-th mutating file operation from now on does not happen - the process
// "dies" (panic "verif: crash") just before it. 0 switches crashes off.
func FSCrashBefore(n int) {
	if n <= 0 {
		vfs.crashAt = 0
		return
	}
	vfs.crashAt = vfs.ops + n
}

func FSOps() int { return vfs.ops }

func fsSafe(p string) string {
	out := []byte(p)
	for k, c := range out {
		if !(c >= 'a' && c <= 'z' || c >= 'A' && c <= 'Z' || c >= '0' && c <= '9') {
			out[k] = '_'
		}
	}
	return string(out)
}

// FSReboot: what a restart finds. Metadata operations are durable at once; of the bytes written
// to a file since its last Sync a prefix chosen by the replayed counterexample survives.
func FSReboot() {
	vfs.crashAt = 0
	var names []string
	for p := range vfs.dirty {
		names = append(names, p)
	}
	sort.Strings(names)
	for _, p := range names {
		if !vfs.dirty[p] {
			continue
		}
		st, err := os.Stat(p)
		if err != nil {
			continue
		}
		l, s := st.Size(), vfs.synced[p]
		if l > s {
			name := "fs_keep" + fsSafe(strings.TrimPrefix(p, vfs.root))
			cut := l
			if Tier() == 0 {
				switch Choose(name, 3) {
				case 0:
					cut = s
				case 1:
					cut = s + (l-s)/2
				}
			} else {
				cut = s + int64(Choose(name, int(l-s)+1))
			}
			os.Truncate(p, cut)
			vfs.synced[p] = cut
		}
		vfs.dirty[p] = false
	}
}

// FireTickers lets the tickers of the code under test fire at least once.
func FireTickers(wait time.Duration) { time.Sleep(wait) }

type File struct {
	f    *os.File
	path string
}

func existingAncestorIsFile(p string) bool {
	for q := filepath.Clean(p); q != "/" && q != "."; q = filepath.Dir(q) {
		if st, err := os.Stat(q); err == nil {
			return !st.IsDir()
		}
	}
	return false
}

func MkdirAll(p string, perm os.FileMode) error {
	if st, err := os.Stat(p); err == nil && st.IsDir() {
		return nil
	}
	if !existingAncestorIsFile(p) {
		fsStep()
	}
	return os.MkdirAll(p, perm)
}

func Mkdir(p string, perm os.FileMode) error {
	if _, err := os.Stat(p); err != nil {
		if st, perr := os.Stat(filepath.Dir(p)); perr == nil && st.IsDir() {
			fsStep()
		}
	}
	return os.Mkdir(p, perm)
}

func Open(p string) (*File, error) { return OpenFile(p, os.O_RDONLY, 0) }

func Create(p string) (*File, error) { return OpenFile(p, os.O_RDWR|os.O_CREATE|os.O_TRUNC, 0o666) }

func OpenFile(p string, flag int, perm os.FileMode) (*File, error) {
	p = filepath.Clean(p)
	st, err := os.Stat(p)
	if err != nil {
		if flag&os.O_CREATE != 0 {
			if pst, perr := os.Stat(filepath.Dir(p)); perr == nil && pst.IsDir() {
				fsStep()
			}
		}
	} else if flag&os.O_TRUNC != 0 && !st.IsDir() && !(flag&os.O_CREATE != 0 && flag&os.O_EXCL != 0) {
		fsStep()
		vfs.synced[p] = 0
	}
	f, err := os.OpenFile(p, flag, perm)
	if err != nil {
		return nil, err
	}
	return &File{f: f, path: p}, nil
}

func (f *File) Write(b []byte) (int, error) {
	fsStep()
	if pos, err := f.f.Seek(0, 1); err == nil && pos < vfs.synced[f.path] {
		vfs.synced[f.path] = pos
	}
	vfs.dirty[f.path] = true
	return f.f.Write(b)
}

func (f *File) WriteString(s string) (int, error) { return f.Write([]byte(s)) }

func (f *File) Sync() error {
	fsStep()
	err := f.f.Sync()
	if st, serr := f.f.Stat(); serr == nil {
		vfs.synced[f.path] = st.Size()
	}
	vfs.dirty[f.path] = false
	return err
}

func (f *File) Truncate(size int64) error {
	fsStep()
	if vfs.synced[f.path] > size {
		vfs.synced[f.path] = size
	}
	return f.f.Truncate(size)
}

func (f *File) Read(b []byte) (int, error)                { return f.f.Read(b) }
func (f *File) Seek(o int64, whence int) (int64, error)   { return f.f.Seek(o, whence) }
func (f *File) Close() error                              { return f.f.Close() }
func (f *File) Name() string                              { return f.f.Name() }
func (f *File) Stat() (os.FileInfo, error)                { return f.f.Stat() }
func (f *File) ReadAt(b []byte, off int64) (int, error)   { return f.f.ReadAt(b, off) }

func Remove(p string) error {
	if _, err := os.Stat(p); err == nil {
		fsStep()
	}
	return os.Remove(p)
}

func RemoveAll(p string) error {
	if _, err := os.Stat(p); err == nil {
		fsStep()
	}
	return os.RemoveAll(p)
}

func Rename(a, b string) error {
	if _, err := os.Stat(a); err == nil {
		fsStep()
	}
	return os.Rename(a, b)
}

func ReadFile(p string) ([]byte, error)  { return os.ReadFile(p) }
func Stat(p string) (os.FileInfo, error) { return os.Stat(p) }
func ReadDir(p string) ([]os.DirEntry, error) { return os.ReadDir(p) }
func IsNotExist(err error) bool          { return os.IsNotExist(err) }

func WriteFile(p string, b []byte, perm os.FileMode) error {
	f, err := OpenFile(p, os.O_WRONLY|os.O_CREATE|os.O_TRUNC, perm)
	if err != nil {
		return err
	}
	defer f.Close()
	_, err = f.Write(b)
	return err
}
