// Package verifrt is the harness runtime of /verif. It is injected into the repository by
// build overlay only (never written to /repo). Under the symbolic executor (symgo) every function
// here is intercepted; the bodies below are the *native* twins used when a counterexample is
// replayed with `go test -overlay`: inputs are read from the JSON file named by VERIF_REPLAY.
package verifrt

import (
	"encoding/json"
	"runtime"
	"fmt"
	"math"
	"os"
	"strconv"
	"strings"
	"time"
)

type replayFile struct {
	Harness    string            `json:"harness"`
	Obligation string            `json:"obligation"`
	Values     map[string]string `json:"values"`
	Tier       int               `json:"tier"`
}

var (
	loaded   bool
	rf       replayFile
	Failures []string
	Log      []string
)

type assumeFailed struct{}

func load() {
	if loaded {
		return
	}
	loaded = true
	p := os.Getenv("VERIF_REPLAY")
	if p == "" {
		return
	}
	b, err := os.ReadFile(p)
	if err != nil {
		panic(err)
	}
	if err := json.Unmarshal(b, &rf); err != nil {
		panic(err)
	}
}

func val(prefix, name string) (string, bool) {
	load()
	v, ok := rf.Values[prefix+name]
	return v, ok
}

// Tier is 0 for the quick tier and 1 for the thorough tier.
func Tier() int {
	load()
	return rf.Tier
}

func Int(name string) int { return int(Int64(name)) }

func Int64(name string) int64 {
	v, ok := val("i_", name)
	if !ok {
		return 0
	}
	u, _ := strconv.ParseUint(v, 10, 64)
	return int64(u)
}

func Uint64(name string) uint64 { return uint64(Int64(name)) }

func Byte(name string) byte {
	v, ok := val("y_", name)
	if !ok {
		return 0
	}
	u, _ := strconv.ParseUint(v, 10, 8)
	return byte(u)
}

func Bool(name string) bool {
	v, _ := val("b_", name)
	return v == "true"
}

func Float(name string) float64 {
	v, ok := val("f_", name)
	if !ok {
		return 0
	}
	switch v {
	case "+Inf":
		return math.Inf(1)
	case "-Inf":
		return math.Inf(-1)
	case "NaN":
		return math.NaN()
	}
	f, _ := strconv.ParseFloat(v, 64)
	return f
}

// Tok is an arbitrary string that the code under test may only compare, copy and measure.
func Tok(name string) string {
	v, _ := val("s_", name)
	return v
}

// TokN is an arbitrary string of exactly n bytes.
func TokN(name string, n int) string {
	v, _ := val("s_", name)
	for len(v) < n {
		v += "x"
	}
	return v[:n]
}

// Bytes is a string of n arbitrary bytes.
func Bytes(name string, n int) string {
	b := make([]byte, n)
	for i := range b {
		b[i] = Byte(fmt.Sprintf("%s_%d", name, i))
	}
	return string(b)
}

// Choose is an arbitrary integer in 0..n-1.
func Choose(name string, n int) int {
	v, ok := val("c_", name)
	if !ok {
		return 0
	}
	u, _ := strconv.ParseUint(v, 10, 64)
	if int(u) >= n {
		return 0
	}
	return int(u)
}

func Assume(c bool) {
	if !c {
		panic(assumeFailed{})
	}
}

func Assert(c bool, obligation string) {
	if !c {
		Failures = append(Failures, obligation)
		fmt.Printf("VERIF-ASSERT-FAIL %s\n", obligation)
	}
}

func Reach(label string) {}

func Observe(label string, v any) {
	Log = append(Log, fmt.Sprintf("%s=%v", label, v))
	fmt.Printf("VERIF-OBSERVE %s=%q\n", label, fmt.Sprint(v))
}

func Clean(s string) bool { return !strings.ContainsAny(s, "\r\n") }

// Symbolic reports whether the harness runs under the symbolic executor.
func Symbolic() bool { return false }

// Quiesce waits until the goroutines started by the code under test have had time to finish.
func Quiesce() {
	for i := 0; i < 20; i++ {
		runtime.Gosched()
		time.Sleep(2 * time.Millisecond)
	}
}

func MapOrderND(on bool) {}

// ScheduleND: under the symbolic executor every scheduling point forks over the runnable threads.
func ScheduleND(on bool) {}

// Yield is a voluntary scheduling point.
func Yield() { runtime.Gosched() }

func RawEqual(a, b string) bool { return a == b }

// Non-short-circuit boolean connectives (no forking under the symbolic executor).
func And(a, b bool) bool     { return a && b }
func Or(a, b bool) bool      { return a || b }
func Not(a bool) bool        { return !a }
func Implies(a, b bool) bool { return !a || b }
func StrEq(a, b string) bool { return a == b }

// Resp is one strictly parsed RESP value.
type Resp struct {
	OK    bool
	Err   string
	Kind  byte
	Null  bool
	Int   int64
	Str   string
	Bool  bool
	Elems []Resp
}

// Decode parses b as exactly one RESP value (strict: exact bulk lengths, CRLF terminators,
// no CR/LF inside simple lines, no trailing bytes).
func Decode(b []byte) Resp {
	r, n, err := parse(b, 0)
	if err != "" {
		return Resp{Err: err}
	}
	if n != len(b) {
		return Resp{Err: "trailing bytes after value"}
	}
	return r
}

func readLine(b []byte, i int) (string, int, string) {
	for j := i; j < len(b); j++ {
		if b[j] == '\r' || b[j] == '\n' {
			if b[j] == '\r' && j+1 < len(b) && b[j+1] == '\n' {
				return string(b[i:j]), j + 2, ""
			}
			return "", 0, "bare CR or LF inside a line"
		}
	}
	return "", 0, "unterminated line"
}

func parse(b []byte, i int) (Resp, int, string) {
	if i >= len(b) {
		return Resp{}, 0, "empty input"
	}
	t := b[i]
	i++
	switch t {
	case '+', '-', ',', '(':
		s, n, err := readLine(b, i)
		if err != "" {
			return Resp{}, 0, err
		}
		return Resp{OK: true, Kind: t, Str: s}, n, ""
	case ':':
		s, n, err := readLine(b, i)
		if err != "" {
			return Resp{}, 0, err
		}
		v, e := strconv.ParseInt(s, 10, 64)
		if e != nil {
			return Resp{}, 0, "invalid integer"
		}
		return Resp{OK: true, Kind: t, Int: v}, n, ""
	case '_':
		if i+1 < len(b) && b[i] == '\r' && b[i+1] == '\n' {
			return Resp{OK: true, Kind: t, Null: true}, i + 2, ""
		}
		return Resp{}, 0, "null not terminated"
	case '#':
		if i+2 < len(b)+0 && (b[i] == 't' || b[i] == 'f') && b[i+1] == '\r' && b[i+2] == '\n' {
			return Resp{OK: true, Kind: t, Bool: b[i] == 't'}, i + 3, ""
		}
		return Resp{}, 0, "bad boolean"
	case '$':
		s, n, err := readLine(b, i)
		if err != "" {
			return Resp{}, 0, err
		}
		l, e := strconv.ParseInt(s, 10, 64)
		if e != nil {
			return Resp{}, 0, "invalid integer"
		}
		if l == -1 {
			return Resp{OK: true, Kind: t, Null: true}, n, ""
		}
		if l < 0 {
			return Resp{}, 0, "negative bulk length"
		}
		if n+int(l)+2 > len(b) {
			return Resp{}, 0, "bulk payload shorter than declared"
		}
		if b[n+int(l)] != '\r' || b[n+int(l)+1] != '\n' {
			return Resp{}, 0, "bulk payload not followed by CRLF"
		}
		return Resp{OK: true, Kind: t, Str: string(b[n : n+int(l)])}, n + int(l) + 2, ""
	case '*', '~', '%', '>':
		s, n, err := readLine(b, i)
		if err != "" {
			return Resp{}, 0, err
		}
		l, e := strconv.ParseInt(s, 10, 64)
		if e != nil {
			return Resp{}, 0, "invalid integer"
		}
		if l == -1 {
			return Resp{OK: true, Kind: t, Null: true}, n, ""
		}
		if l < 0 {
			return Resp{}, 0, "negative array length"
		}
		if t == '%' {
			l *= 2
		}
		r := Resp{OK: true, Kind: t}
		for k := int64(0); k < l; k++ {
			ch, m, err := parse(b, n)
			if err != "" {
				return Resp{}, 0, err
			}
			r.Elems = append(r.Elems, ch)
			n = m
		}
		return r, n, ""
	}
	return Resp{}, 0, "unknown type byte"
}

// RunReplay runs the named harness natively and reports which assertions failed.
// It returns the list of failed obligations; skipped is true when an Assume was violated
// (the replay input does not satisfy the harness preconditions).
func RunReplay(h map[string]func()) (failed []string, skipped bool, panicked string) {
	load()
	f, ok := h[rf.Harness]
	if !ok {
		return nil, false, "no such harness " + rf.Harness
	}
	Failures = nil
	func() {
		defer func() {
			if r := recover(); r != nil {
				if _, ok := r.(assumeFailed); ok {
					skipped = true
					return
				}
				panicked = fmt.Sprint(r)
			}
		}()
		f()
	}()
	return Failures, skipped, panicked
}
