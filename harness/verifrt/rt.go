// Package verifrt is the harness runtime of /verif. It is injected into the repository by
// build overlay only (never written to /repo). Under the symbolic executor (symgo) every function
// here is intercepted; the bodies below are the *native* twins used when a counterexample is
// replayed with `go test -overlay`: inputs are read from the JSON file named by VERIF_REPLAY.
package verifrt

import (
	"encoding/json"
	"runtime"
	"fmt"
	"math"
	"os"
	"strconv"
	"strings"
	"time"
)

type replayFile struct {
	Harness    string            `json:"harness"`
	Obligation string            `json:"obligation"`
	Values     map[string]string `json:"values"`
	Tier       int               `json:"tier"`
}

var (
	loaded   bool
	rf       replayFile
	Failures []string
	Log      []string
)

type assumeFailed struct{}

func load() {
	if loaded {
		return
	}
	loaded = true
	p := os.Getenv("VERIF_REPLAY")
	if p == "" {
		return
	}
	b, err := os.ReadFile(p)
	if err != nil {
		panic(err)
	}
	if err := json.Unmarshal(b, &rf); err != nil {
		panic(err)
	}
}

func val(prefix, name string) (string, bool) {
	load()
	v, ok := rf.Values[prefix+name]
	return v, ok
}

// Tier is 0 for the quick tier and 1 for the thorough tier.
func Tier() int {
	load()
	return rf.Tier
}

func Int(name string) int { return int(Int64(name)) }

func Int64(name string) int64 {
	v, ok := val("i_", name)
	if !ok {
		return 0
	}
	u, _ := strconv.ParseUint(v, 10, 64)
	return int64(u)
}

func Uint64(name string) uint64 { return uint64(Int64(name)) }

func Byte(name string) byte {
	v, ok := val("y_", name)
	if !ok {
		return 0
	}
	u, _ := strconv.ParseUint(v, 10, 8)
	return byte(u)
}

func Bool(name string) bool {
	v, _ := val("b_", name)
	return v == "true"
}

func Float(name string) float64 {
	v, ok := val("f_", name)
	if !ok {
		return 0
	}
	switch v {
	case "+Inf":
		return math.Inf(1)
	case "-Inf":
		return math.Inf(-1)
	case "NaN":
		return math.NaN()
	}
	f, _ := strconv.ParseFloat(v, 64)
	return f
}

// Tok is an arbitrary string that the code under test may only compare, copy and measure.
func Tok(name string) string {
	v, _ := val("s_", name)
	return v
}

// TokN is an arbitrary string of exactly n bytes.
func TokN(name string, n int) string {
	v, _ := val("s_", name)
	for len(v) < n {
		v += "x"
	}
	return v[:n]
}

// Bytes is a string of n arbitrary bytes.
func Bytes(name string, n int) string {
	b := make([]byte, n)
	for i := range b {
		b[i] = Byte(fmt.Sprintf("%s_%d", name, i))
	}
	return string(b)
}

// Choose is an arbitrary integer in 0..n-1.
func Choose(name string, n int) int {
	v, ok := val("c_", name)
	if !ok {
		return 0
	}
	u, _ := strconv.ParseUint(v, 10, 64)
	if int(u) >= n {
		return 0
	}
	return int(u)
}

func Assume(c bool) {
	if !c {
		panic(assumeFailed{})
	}
}

func Assert(c bool, obligation string) {
	if !c {
		Failures = append(Failures, obligation)
		fmt.Printf("VERIF-ASSERT-FAIL %s\n", obligation)
	}
}

func Reach(label string) {}

func Observe(label string, v any) {
	Log = append(Log, fmt.Sprintf("%s=%v", label, v))
	fmt.Printf("VERIF-OBSERVE %s=%q\n", label, fmt.Sprint(v))
}

func Clean(s string) bool { return !strings.ContainsAny(s, "\r\n") }

// Symbolic reports whether the harness runs under the symbolic executor.
func Symbolic() bool { return false }

// Quiesce waits until the goroutines started by the code under test have had time to finish.
func Quiesce() {
	for i := 0; i < 20; i++ {
		runtime.Gosched()
		time.Sleep(2 * time.Millisecond)
	}
}

func MapOrderND(on bool) {}

// ScheduleND: under the symbolic executor every scheduling point forks over the runnable threads.
func ScheduleND(on bool) {}

// ---- harness threads (two-thread cooperative runtime for schedule replay) ----
//
// Go starts f as the second harness thread. Exactly one of the two threads holds the baton and
// runs; the baton moves only at a Yield (as the replayed schedule says), when a thread finishes,
// or in Join. A thread that blocks inside a real lock cannot hand the baton back: the other side
// notices after a timeout, takes the baton back and goes on (this mirrors the symbolic scheduler,
// where a thread that finds a lock taken lets the other run); when the lock is released the stuck
// thread runs up to its next Yield and waits there for the baton.

var co struct {
	live    bool
	gid     [2]uint64 // goroutine ids: 0 main, 1 child
	baton   [2]chan struct{}
	holder  int
	done    [2]bool
	stuck   [2]bool // believed to be blocked in a lock
	joining bool
	free    bool // free-running mode (PreemptAtLocks)
	freeDone chan struct{}
	sched   int
	mu      chanMutex
}

// chanMutex protects the small scheduler state without using package sync (which the harnessed
// code may be instrumenting).
type chanMutex struct{ c chan struct{} }

func (m *chanMutex) lock() {
	if m.c == nil {
		panic("verifrt: scheduler not initialised")
	}
	m.c <- struct{}{}
}
func (m *chanMutex) unlock() { <-m.c }

func goid() uint64 {
	var buf [64]byte
	n := runtime.Stack(buf[:], false)
	f := strings.Fields(string(buf[:n]))
	if len(f) < 2 {
		return 0
	}
	id, _ := strconv.ParseUint(f[1], 10, 64)
	return id
}

func coMe() int {
	if goid() == co.gid[1] {
		return 1
	}
	return 0
}

const coStuckAfter = 400 * time.Millisecond

// PreemptAtLocks: the symbolic scheduler also switches threads at mutex acquisitions (at most n
// pre-emptions per path). Native code has no seam at a lock, so natively the two threads run
// freely under the Go scheduler and the harness repeats the scenario Rounds(n) times.
func PreemptAtLocks(n int) { co.free = true }

// Rounds is 1 under the symbolic executor and n natively.
func Rounds(n int) int { return n }

func Go(f func()) {
	if co.free {
		co.freeDone = make(chan struct{})
		co.live = true
		d := co.freeDone
		start := make(chan struct{})
		go func() {
			defer close(d)
			<-start
			f()
		}()
		close(start)
		for n := co.sched % 7; n > 0; n-- {
			runtime.Gosched()
		}
		co.sched++
		return
	}
	co.mu = chanMutex{c: make(chan struct{}, 1)}
	co.baton = [2]chan struct{}{make(chan struct{}, 1), make(chan struct{}, 1)}
	co.holder = 0
	co.done = [2]bool{}
	co.stuck = [2]bool{}
	co.joining = false
	co.live = true
	co.gid[0] = goid()
	started := make(chan struct{})
	go func() {
		co.gid[1] = goid()
		close(started)
		<-co.baton[1]
		defer func() {
			r := recover()
			co.mu.lock()
			co.done[1] = true
			co.stuck[1] = false
			had := co.holder == 1
			if had {
				co.holder = 0
			}
			co.mu.unlock()
			if had {
				co.baton[0] <- struct{}{}
			}
			if r != nil {
				panic(r)
			}
		}()
		f()
	}()
	<-started
}

// coHandOver gives the baton to the other thread and waits until it comes back; if the other
// thread does not give it back in time it is taken to be blocked in a lock.
func coHandOver(me int) {
	other := 1 - me
	co.mu.lock()
	co.holder = other
	co.mu.unlock()
	co.baton[other] <- struct{}{}
	select {
	case <-co.baton[me]:
	case <-time.After(coStuckAfter):
		co.mu.lock()
		if co.holder == other && !co.done[other] {
			co.stuck[other] = true
			co.holder = me
			select {
			case <-co.baton[other]:
			default:
			}
			co.mu.unlock()
			return
		}
		co.mu.unlock()
		<-co.baton[me]
	}
}

// Yield is a scheduling point: the replayed schedule says whether the other thread takes over.
func Yield() {
	if !co.live {
		return
	}
	if co.free {
		runtime.Gosched()
		return
	}
	me := coMe()
	other := 1 - me
	co.mu.lock()
	co.stuck[me] = false
	mine := co.holder == me
	co.mu.unlock()
	if !mine {
		// woke up from a lock while the other thread was running: wait for the baton
		<-co.baton[me]
	}
	co.mu.lock()
	if co.stuck[other] {
		// the lock it waits for may have been released meanwhile: give it a moment to get going
		co.mu.unlock()
		time.Sleep(30 * time.Millisecond)
		co.mu.lock()
	}
	runnable := !co.done[other] && !co.stuck[other] && !(other == 0 && co.joining)
	co.mu.unlock()
	if !runnable {
		return
	}
	name := "sched_" + strconv.Itoa(co.sched)
	co.sched++
	if Choose(name, 2) != 1 {
		return
	}
	coHandOver(me)
}

// Join waits for the thread started with Go.
func Join() {
	if !co.live {
		return
	}
	if co.free {
		<-co.freeDone
		co.live = false
		return
	}
	co.mu.lock()
	co.joining = true
	co.mu.unlock()
	for {
		co.mu.lock()
		d := co.done[1]
		co.mu.unlock()
		if d {
			break
		}
		coHandOver(0)
	}
	co.live = false
}

func RawEqual(a, b string) bool { return a == b }

// Non-short-circuit boolean connectives (no forking under the symbolic executor).
func And(a, b bool) bool     { return a && b }
func Or(a, b bool) bool      { return a || b }
func Not(a bool) bool        { return !a }
func Implies(a, b bool) bool { return !a || b }
func StrEq(a, b string) bool { return a == b }

// Resp is one strictly parsed RESP value.
type Resp struct {
	OK    bool
	Err   string
	Kind  byte
	Null  bool
	Int   int64
	Str   string
	Bool  bool
	Elems []Resp
}

// Decode parses b as exactly one RESP value (strict: exact bulk lengths, CRLF terminators,
// no CR/LF inside simple lines, no trailing bytes).
func Decode(b []byte) Resp {
	r, n, err := parse(b, 0)
	if err != "" {
		return Resp{Err: err}
	}
	if n != len(b) {
		return Resp{Err: "trailing bytes after value"}
	}
	return r
}

func readLine(b []byte, i int) (string, int, string) {
	for j := i; j < len(b); j++ {
		if b[j] == '\r' || b[j] == '\n' {
			if b[j] == '\r' && j+1 < len(b) && b[j+1] == '\n' {
				return string(b[i:j]), j + 2, ""
			}
			return "", 0, "bare CR or LF inside a line"
		}
	}
	return "", 0, "unterminated line"
}

func parse(b []byte, i int) (Resp, int, string) {
	if i >= len(b) {
		return Resp{}, 0, "empty input"
	}
	t := b[i]
	i++
	switch t {
	case '+', '-', ',', '(':
		s, n, err := readLine(b, i)
		if err != "" {
			return Resp{}, 0, err
		}
		return Resp{OK: true, Kind: t, Str: s}, n, ""
	case ':':
		s, n, err := readLine(b, i)
		if err != "" {
			return Resp{}, 0, err
		}
		v, e := strconv.ParseInt(s, 10, 64)
		if e != nil {
			return Resp{}, 0, "invalid integer"
		}
		return Resp{OK: true, Kind: t, Int: v}, n, ""
	case '_':
		if i+1 < len(b) && b[i] == '\r' && b[i+1] == '\n' {
			return Resp{OK: true, Kind: t, Null: true}, i + 2, ""
		}
		return Resp{}, 0, "null not terminated"
	case '#':
		if i+2 < len(b)+0 && (b[i] == 't' || b[i] == 'f') && b[i+1] == '\r' && b[i+2] == '\n' {
			return Resp{OK: true, Kind: t, Bool: b[i] == 't'}, i + 3, ""
		}
		return Resp{}, 0, "bad boolean"
	case '$':
		s, n, err := readLine(b, i)
		if err != "" {
			return Resp{}, 0, err
		}
		l, e := strconv.ParseInt(s, 10, 64)
		if e != nil {
			return Resp{}, 0, "invalid integer"
		}
		if l == -1 {
			return Resp{OK: true, Kind: t, Null: true}, n, ""
		}
		if l < 0 {
			return Resp{}, 0, "negative bulk length"
		}
		if n+int(l)+2 > len(b) {
			return Resp{}, 0, "bulk payload shorter than declared"
		}
		if b[n+int(l)] != '\r' || b[n+int(l)+1] != '\n' {
			return Resp{}, 0, "bulk payload not followed by CRLF"
		}
		return Resp{OK: true, Kind: t, Str: string(b[n : n+int(l)])}, n + int(l) + 2, ""
	case '*', '~', '%', '>':
		s, n, err := readLine(b, i)
		if err != "" {
			return Resp{}, 0, err
		}
		l, e := strconv.ParseInt(s, 10, 64)
		if e != nil {
			return Resp{}, 0, "invalid integer"
		}
		if l == -1 {
			return Resp{OK: true, Kind: t, Null: true}, n, ""
		}
		if l < 0 {
			return Resp{}, 0, "negative array length"
		}
		if t == '%' {
			l *= 2
		}
		r := Resp{OK: true, Kind: t}
		for k := int64(0); k < l; k++ {
			ch, m, err := parse(b, n)
			if err != "" {
				return Resp{}, 0, err
			}
			r.Elems = append(r.Elems, ch)
			n = m
		}
		return r, n, ""
	}
	return Resp{}, 0, "unknown type byte"
}

// RunReplay runs the named harness natively and reports which assertions failed.
// It returns the list of failed obligations; skipped is true when an Assume was violated
// (the replay input does not satisfy the harness preconditions).
func RunReplay(h map[string]func()) (failed []string, skipped bool, panicked string) {
	load()
	f, ok := h[rf.Harness]
	if !ok {
		return nil, false, "no such harness " + rf.Harness
	}
	Failures = nil
	func() {
		defer func() {
			if r := recover(); r != nil {
				if _, ok := r.(assumeFailed); ok {
					skipped = true
					return
				}
				panicked = fmt.Sprint(r)
			}
		}()
		f()
	}()
	return Failures, skipped, panicked
}
