package log

// C02 — the append-only log store: what is written can be restored, in order, in the right
// database; crash images restore to a prefix; acknowledged writes survive under "always".

import (
	"io"
	"strconv"

	vr "github.com/echovault/sugardb/internal/verifrt"
)

// memRW implements ReadWriter over an in-memory append-only file with a durability watermark.
type memRW struct {
	data   []byte // everything written (the file is opened O_APPEND: writes go to the end)
	synced int    // number of leading bytes known to be on disk
	marks  []int  // len(data) after every Write call (record boundaries)
	pos    int    // read cursor
}

func (m *memRW) Read(b []byte) (int, error) {
	if m.pos >= len(m.data) {
		return 0, io.EOF
	}
	n := copy(b, m.data[m.pos:])
	m.pos += n
	return n, nil
}
func (m *memRW) Write(b []byte) (int, error) {
	m.data = append(m.data, b...)
	m.marks = append(m.marks, len(m.data))
	return len(b), nil
}
func (m *memRW) Seek(offset int64, whence int) (int64, error) {
	m.pos = int(offset)
	return offset, nil
}
func (m *memRW) Close() error { return nil }
func (m *memRW) Truncate(size int64) error {
	m.data = m.data[:size]
	if m.synced > len(m.data) {
		m.synced = len(m.data)
	}
	m.marks = nil
	return nil
}
func (m *memRW) Sync() error { m.synced = len(m.data); return nil }

// VerifContent: what a reader positioned at the start of the file sees.
func (m *memRW) VerifContent() []byte { return m.data }

type replayed struct {
	db  int
	cmd string
}

func bulk(s string) string { return "$" + strconv.Itoa(len(s)) + "\r\n" + s + "\r\n" }

// symCommand: the wire form of a two-argument write command with arbitrary arguments.
func symCommand(name string) string {
	return "*3\r\n" + bulk("SET") + bulk(vr.Tok(name+"_k")) + bulk(vr.Tok(name+"_v"))
}

func symDB(name string) int {
	db := vr.Int(name)
	vr.Assume(db >= 0 && db <= 1000)
	return db
}

func strategyOf(i int) string { return []string{"always", "everysec", "no"}[i] }

// Verif_C02_LogRoundTrip: 1..2 logged commands in arbitrary databases are restored in order, each
// in the database it was logged under, for every sync strategy.
func Verif_C02_LogRoundTrip() {
	rw := &memRW{}
	var got []replayed
	st, err := NewAppendStore(WithReadWriter(rw), WithStrategy(strategyOf(vr.Choose("strategy", 3))),
		WithHandleCommandFunc(func(database int, command []byte) { got = append(got, replayed{database, string(command)}) }))
	vr.Assert(err == nil, "C02.log.new")
	n := 1 + vr.Choose("n", 2)
	var want []replayed
	for i := 0; i < n; i++ {
		db := symDB("db" + strconv.Itoa(i))
		cmd := symCommand("c" + strconv.Itoa(i))
		vr.Assert(st.Write(db, []byte(cmd)) == nil, "C02.log.write_acknowledged")
		want = append(want, replayed{db, cmd})
	}
	rerr := st.Restore()
	vr.Assert(rerr == nil, "C02.log.restore_succeeds")
	vr.Assert(len(got) == len(want), "C02.log.every_command_is_replayed_once")
	if len(got) == len(want) {
		for i := range want {
			vr.Assert(got[i].db == want[i].db, "C02.log.replayed_in_the_database_it_was_logged_under")
			vr.Assert(got[i].cmd == want[i].cmd, "C02.log.replayed_bytes_equal_logged_bytes")
		}
	}
	vr.Reach("end")
}

// Verif_C02_AlwaysIsDurable: under "always" every acknowledged write is on disk when Write returns.
func Verif_C02_AlwaysIsDurable() {
	rw := &memRW{}
	// configuration files spell the strategy in any case
	spelling := []string{"always", "ALWAYS", "Always"}[vr.Choose("spelling", 3)]
	st, _ := NewAppendStore(WithReadWriter(rw), WithStrategy(spelling))
	n := 1 + vr.Choose("n", 2)
	for i := 0; i < n; i++ {
		vr.Assert(st.Write(symDB("db"+strconv.Itoa(i)), []byte(symCommand("c"+strconv.Itoa(i)))) == nil, "C02.always.write_acknowledged")
		vr.Assert(rw.synced == len(rw.data), "C02.always.acknowledged_write_is_synced")
	}
	vr.Reach("end")
}

// litCommand: a concrete write command (the crash harnesses cut the file at every byte offset, so
// the bytes have to be concrete; the symbolic input is the crash point).
func litCommand(i int) string {
	return "*3\r\n" + bulk("SET") + bulk("key"+strconv.Itoa(i)) + bulk("value"+strconv.Itoa(i))
}

func pickDB(name string) int { return []int{0, 7, 12, 345}[vr.Choose(name, 4)] }

// Verif_C02_CrashPrefix: the process dies after 2 writes with only a prefix of the file on disk -
// any byte offset, so every record boundary and every way of tearing a record is covered.
// Restoring the image replays a prefix of the logged commands, each in its database.
func Verif_C02_CrashPrefix() {
	rw := &memRW{}
	st, _ := NewAppendStore(WithReadWriter(rw), WithStrategy("no"))
	var want []replayed
	for i := 0; i < 2; i++ {
		db := pickDB("db" + strconv.Itoa(i))
		cmd := litCommand(i)
		st.Write(db, []byte(cmd))
		want = append(want, replayed{db, cmd})
	}
	cut := vr.Choose("cut", len(rw.data)+1)
	image := &memRW{data: append([]byte{}, rw.data[:cut]...)}
	var got []replayed
	st2, _ := NewAppendStore(WithReadWriter(image), WithStrategy("no"),
		WithHandleCommandFunc(func(database int, command []byte) { got = append(got, replayed{database, string(command)}) }))
	_ = st2.Restore() // a torn tail may be reported as an error; what was replayed before counts
	vr.Assert(len(got) <= len(want), "C02.crash.no_command_invented")
	for i := range got {
		if i < len(want) {
			vr.Assert(got[i].db == want[i].db && got[i].cmd == want[i].cmd, "C02.crash.restored_commands_are_a_prefix")
		}
	}
	// every record that is completely inside the image is restored
	complete := 0
	for i, m := range rw.marks {
		// marks: [marker0?, cmd0, marker1?, cmd1]; a command record ends at the mark after it
		_ = i
		if m <= cut {
			complete++
		}
	}
	if cut == len(rw.data) {
		vr.Assert(len(got) == len(want), "C02.crash.complete_file_restores_everything")
	}
	vr.Reach("end")
}

// Verif_C02_RecoverThenDurable: after restoring from an image whose last record is torn at any
// byte offset, a later acknowledged write (sync always) survives the next clean restart, and so do
// the records that were complete.
func Verif_C02_RecoverThenDurable() {
	rw := &memRW{}
	st, _ := NewAppendStore(WithReadWriter(rw), WithStrategy("always"))
	db0 := pickDB("db0")
	c0, c1 := litCommand(0), litCommand(1)
	st.Write(db0, []byte(c0))
	endOfFirst := len(rw.data)
	// the second write may switch to another database: its record is then preceded by a SELECT marker
	db1 := pickDB("db1")
	st.Write(db1, []byte(c1))
	// crash: only 1..len-1 bytes of what the second write appended (marker and command) reached the disk
	torn := 1 + vr.Choose("torn", len(rw.data)-endOfFirst-1)
	image := &memRW{data: append([]byte{}, rw.data[:endOfFirst+torn]...)}
	image.synced = len(image.data)
	st2, _ := NewAppendStore(WithReadWriter(image), WithStrategy("always"))
	_ = st2.Restore()
	c2 := litCommand(2)
	// the write after recovery goes to the database of the first or of the torn record
	dbw := db0
	if vr.Choose("write_in_torn_records_database", 2) == 1 {
		dbw = db1
	}
	vr.Assert(st2.Write(dbw, []byte(c2)) == nil, "C02.recover.write_acknowledged")
	// clean restart
	var second []replayed
	st3, _ := NewAppendStore(WithReadWriter(&memRW{data: image.data}), WithStrategy("always"),
		WithHandleCommandFunc(func(database int, command []byte) { second = append(second, replayed{database, string(command)}) }))
	_ = st3.Restore()
	found0, found2 := false, false
	for _, r := range second {
		if r.cmd == c0 && r.db == db0 {
			found0 = true
		}
		if r.cmd == c2 && r.db == dbw {
			found2 = true
		}
	}
	vr.Assert(found0, "C02.recover.complete_records_survive")
	vr.Assert(found2, "C02.recover.write_after_recovery_survives_restart")
	vr.Reach("end")
}

// Verif_C02_AppendAcrossRestart: three process lifetimes over one log file. The first logs a write in
// an arbitrary database; the second is a fresh store over the same file (it may or may not replay the
// log first, as a server started with or without restore does) and logs a write in an arbitrary,
// possibly different, possibly equal database; the third restores: both writes come back, in order,
// each in the database it ran in — whatever database the previous lifetime ended in.
func verifAppendAcrossRestart(tag string) {
	rw := &memRW{}
	strategy := strategyOf(vr.Choose("strategy", 3))
	st1, err := NewAppendStore(WithReadWriter(rw), WithStrategy(strategy))
	vr.Assert(err == nil, tag+".restart_append.new")
	n1 := 1 + vr.Choose("n1", 2)
	var want []replayed
	for i := 0; i < n1; i++ {
		db := symDB("db1_" + strconv.Itoa(i))
		cmd := symCommand("c1_" + strconv.Itoa(i))
		vr.Assert(st1.Write(db, []byte(cmd)) == nil, tag+".restart_append.write_acknowledged")
		want = append(want, replayed{db, cmd})
	}
	// second lifetime
	st2, _ := NewAppendStore(WithReadWriter(rw), WithStrategy(strategy),
		WithHandleCommandFunc(func(database int, command []byte) {}))
	if vr.Choose("restore_at_startup", 2) == 1 {
		vr.Assert(st2.Restore() == nil, tag+".restart_append.restore_succeeds")
	}
	db2 := symDB("db2")
	cmd2 := symCommand("c2")
	vr.Assert(st2.Write(db2, []byte(cmd2)) == nil, tag+".restart_append.write_acknowledged")
	want = append(want, replayed{db2, cmd2})
	// third lifetime
	var got []replayed
	st3, _ := NewAppendStore(WithReadWriter(rw), WithStrategy(strategy),
		WithHandleCommandFunc(func(database int, command []byte) { got = append(got, replayed{database, string(command)}) }))
	vr.Assert(st3.Restore() == nil, tag+".restart_append.restore_succeeds")
	vr.Assert(len(got) == len(want), tag+".restart_append.every_command_is_replayed_once")
	if len(got) == len(want) {
		for i := range want {
			vr.Assert(got[i].db == want[i].db, tag+".restart_append.replayed_in_the_database_it_was_logged_under")
			vr.Assert(got[i].cmd == want[i].cmd, tag+".restart_append.replayed_bytes_equal_logged_bytes")
		}
	}
	vr.Reach("end")
}

func Verif_C02_AppendAcrossRestart() { verifAppendAcrossRestart("C02") }

// The same history under C20: a write lands, after any number of restarts, in the database it was
// issued in - the log's notion of "current database" does not leak from one lifetime into the next.
func Verif_C20_AppendAcrossRestart() { verifAppendAcrossRestart("C20") }
