package pubsub

// C18 — Pub/Sub: subscription table semantics, introspection, delivery set and order.

import (
	"context"
	"github.com/gobwas/glob"
	"net"
	"strconv"
	"time"

	vr "github.com/echovault/sugardb/internal/verifrt"
)

type fakeConn struct {
	written []byte
	writes  int
}

func (c *fakeConn) Read(b []byte) (int, error) { return 0, nil }
func (c *fakeConn) Write(b []byte) (int, error) {
	c.written = append(c.written, b...)
	c.writes++
	return len(b), nil
}
func (c *fakeConn) Close() error                       { return nil }
func (c *fakeConn) LocalAddr() net.Addr                { return nil }
func (c *fakeConn) RemoteAddr() net.Addr               { return fakeAddr{} }
func (c *fakeConn) SetDeadline(t time.Time) error      { return nil }
func (c *fakeConn) SetReadDeadline(t time.Time) error  { return nil }
func (c *fakeConn) SetWriteDeadline(t time.Time) error { return nil }

type fakeAddr struct{}

func (fakeAddr) Network() string { return "tcp" }
func (fakeAddr) String() string  { return "verif:0" }

func newConn() (*net.Conn, *fakeConn) {
	f := &fakeConn{}
	var c net.Conn = f
	return &c, f
}

func bulk(s string) string { return "$" + strconv.Itoa(len(s)) + "\r\n" + s + "\r\n" }

func confirmation(action, name string, n int) string {
	return "*3\r\n" + bulk(action) + bulk(name) + ":" + strconv.Itoa(n) + "\r\n"
}

func message(channel, msg string) string {
	return "*3\r\n" + bulk("message") + bulk(channel) + bulk(msg)
}

func subscribed(ps *PubSub, name string, pattern bool, conn *net.Conn) bool {
	for _, ch := range ps.channels {
		if ch.name == name && (ch.pattern != nil) == pattern {
			_, ok := ch.subscribers[conn]
			return ok
		}
	}
	return false
}

// Verif_C18_Subscribe: SUBSCRIBE / PSUBSCRIBE with two names (possibly equal, possibly already
// subscribed) on top of an arbitrary earlier subscription: one confirmation per channel named, with
// the running count, and the connection is subscribed to exactly those channels afterwards.
func Verif_C18_Subscribe() { verifSubscribe("C18") }

// The same scenario is the pub/sub part of C12 (every complete command is answered with
// well-formed frames, one confirmation per channel named).
func Verif_C12_SubscribeReplies() { verifSubscribe("C12") }

func verifSubscribe(tag string) {
	ps := NewPubSub()
	ctx := context.Background()
	c1, f1 := newConn()
	c2, f2 := newConn()
	pattern := vr.Choose("pattern", 2) == 1
	pre := vr.Tok("pre")
	if pattern {
		verifValid(pre)
	}
	if vr.Choose("c1_pre", 2) == 1 {
		ps.Subscribe(ctx, c1, []string{pre}, pattern)
	}
	if vr.Choose("c2_pre", 2) == 1 {
		ps.Subscribe(ctx, c2, []string{pre}, pattern)
	}
	f1.written, f1.writes = nil, 0
	f2.written, f2.writes = nil, 0
	a, b := vr.Tok("a"), vr.Tok("b")
	if pattern {
		verifValid(a)
		verifValid(b)
	}
	ps.Subscribe(ctx, c1, []string{a, b}, pattern)
	action := "subscribe"
	if pattern {
		action = "psubscribe"
	}
	vr.Assert(string(f1.written) == confirmation(action, a, 1)+confirmation(action, b, 2), tag+".subscribe.one_confirmation_per_channel_with_running_count")
	vr.Assert(f2.writes == 0, tag+".subscribe.other_connections_get_nothing")
	vr.Assert(subscribed(ps, a, pattern, c1) && subscribed(ps, b, pattern, c1), tag+".subscribe.table_updated")
	// no duplicate channel objects for one name
	for i, x := range ps.channels {
		for j, y := range ps.channels {
			if i < j {
				vr.Assert(!(x.name == y.name && (x.pattern != nil) == (y.pattern != nil)), tag+".subscribe.one_channel_object_per_name")
			}
		}
	}
	vr.Reach("end")
}

// Verif_C18_Unsubscribe: UNSUBSCRIBE name removes exactly that subscription of that connection and
// confirms it once; the other connection stays subscribed.
func Verif_C18_Unsubscribe() {
	ps := NewPubSub()
	ctx := context.Background()
	c1, _ := newConn()
	c2, _ := newConn()
	n1, n2 := vr.Tok("n1"), vr.Tok("n2")
	vr.Assume(n1 != n2)
	ps.Subscribe(ctx, c1, []string{n1, n2}, false)
	ps.Subscribe(ctx, c2, []string{n1}, false)
	all := vr.Choose("all", 2) == 1
	var reply []byte
	if all {
		reply = ps.Unsubscribe(ctx, c1, []string{}, false)
	} else {
		reply = ps.Unsubscribe(ctx, c1, []string{n1}, false)
	}
	r := vr.Decode(reply)
	want := 1
	if all {
		want = 2
	}
	vr.Assert(r.OK && r.Kind == '*' && len(r.Elems) == want, "C18.unsubscribe.one_confirmation_per_channel")
	vr.Assert(!subscribed(ps, n1, false, c1), "C18.unsubscribe.removed")
	vr.Assert(subscribed(ps, n2, false, c1) == !all, "C18.unsubscribe.only_named_channels")
	vr.Assert(subscribed(ps, n1, false, c2), "C18.unsubscribe.other_connection_keeps_subscription")
	vr.Reach("end")
}

// Verif_C18_Introspection: PUBSUB CHANNELS / NUMSUB / NUMPAT reflect the table.
func Verif_C18_Introspection() {
	ps := NewPubSub()
	ctx := context.Background()
	c1, _ := newConn()
	c2, _ := newConn()
	n1, p1 := vr.Tok("n1"), verifValid(vr.Tok("p1"))
	// whether PUBSUB CHANNELS also lists pattern subscriptions is not fixed by the property:
	// keep the two spellings apart here
	vr.Assume(n1 != p1)
	ps.Subscribe(ctx, c1, []string{n1}, false)
	if vr.Choose("c2_sub", 2) == 1 {
		ps.Subscribe(ctx, c2, []string{n1}, false)
	}
	hasPat := vr.Choose("pat", 2) == 1
	if hasPat {
		ps.Subscribe(ctx, c2, []string{p1}, true)
	}
	left := vr.Choose("c1_leaves", 2) == 1
	if left {
		ps.Unsubscribe(ctx, c1, []string{n1}, false)
	}
	subs := 0
	if !left {
		subs++
	}
	if subscribed(ps, n1, false, c2) {
		subs++
	}
	r := vr.Decode(ps.NumSub([]string{n1}))
	vr.Assert(r.OK && len(r.Elems) == 1 && len(r.Elems[0].Elems) == 2 && r.Elems[0].Elems[0].Str == n1 && r.Elems[0].Elems[1].Int == int64(subs), "C18.numsub")
	wantPat := 0
	if hasPat {
		wantPat = 1
	}
	vr.Assert(ps.NumPat() == wantPat, "C18.numpat")
	// CHANNELS without and with a pattern lists exactly the channels that still have subscribers
	active := subs > 0
	for _, withGlob := range []bool{false, true} {
		var out []byte
		if withGlob {
			out = ps.Channels("*")
		} else {
			out = ps.Channels("")
		}
		cr := vr.Decode(out)
		listed := false
		if cr.OK {
			for _, e := range cr.Elems {
				if e.Str == n1 {
					listed = true
				}
			}
		}
		vr.Assert(cr.OK && listed == active, "C18.channels_lists_active_channels_only")
	}
	vr.Reach("end")
}

// Verif_C18_Delivery: one PUBLISH is delivered exactly once to every connection subscribed to the
// channel by name or by a matching pattern at the time of the publish, and to nobody else.
func Verif_C18_Delivery() {
	ps := NewPubSub()
	ctx := context.Background()
	c1, f1 := newConn()
	c2, f2 := newConn()
	c3, f3 := newConn()
	name, other, pat := vr.Tok("name"), vr.Tok("other"), verifValid(vr.Tok("pat"))
	vr.Assume(name != other)
	ps.Subscribe(ctx, c1, []string{name}, false)
	ps.Subscribe(ctx, c2, []string{pat}, true)
	ps.Subscribe(ctx, c3, []string{other}, false)
	vr.Quiesce()
	f1.written, f2.written, f3.written = nil, nil, nil
	f1.writes, f2.writes, f3.writes = 0, 0, 0
	target := vr.Tok("target")
	msg := vr.Tok("msg")
	ps.Publish(ctx, msg, target)
	vr.Quiesce()
	// who must receive it
	w1 := target == name
	w3 := target == other
	var w2 bool
	for _, ch := range ps.channels {
		if ch.pattern != nil && ch.name == pat {
			w2 = ch.pattern.Match(target)
		}
	}
	check := func(f *fakeConn, want bool, chName string, ob string) {
		if want {
			vr.Assert(string(f.written) == message(chName, msg), ob+".delivered_exactly_once")
		} else {
			vr.Assert(f.writes == 0, ob+".not_delivered_to_non_subscribers")
		}
	}
	check(f1, w1, name, "C18.publish.by_name")
	check(f2, w2, pat, "C18.publish.by_pattern")
	check(f3, w3, other, "C18.publish.other_channel")
	vr.Reach("end")
}

// Verif_C18_Order: two messages from one publisher to one channel reach the subscriber in publish
// order, under every schedule of the delivery goroutines.
func Verif_C18_Order() {
	vr.ScheduleND(true)
	ps := NewPubSub()
	ctx := context.Background()
	c1, f1 := newConn()
	name := vr.Tok("name")
	ps.Subscribe(ctx, c1, []string{name}, false)
	vr.Quiesce()
	f1.written, f1.writes = nil, 0
	m1, m2 := vr.Tok("m1"), vr.Tok("m2")
	vr.Assume(m1 != m2)
	ps.Publish(ctx, m1, name)
	ps.Publish(ctx, m2, name)
	vr.Quiesce()
	vr.Assert(f1.writes == 2, "C18.order.both_delivered")
	vr.Assert(string(f1.written) == message(name, m1)+message(name, m2), "C18.order.publish_order")
	vr.Reach("end")
}

// verifValid: p is a syntactically valid glob (the handlers refuse the others before they get here).
func verifValid(p string) string {
	_, err := glob.Compile(p)
	vr.Assume(err == nil)
	return p
}

// Verif_C18_DeliveryFollowsMembership: a channel that has already delivered a message, then a
// history of membership changes chosen from a menu (a leaves and b joins - same count -, a leaves, b
// joins, a leaves and joins again, a leaves and b joins and a joins again), then a second publish: the
// second message reaches exactly the connections subscribed at that moment, once each. Whatever the
// delivery loop remembers from the first message must not decide who gets the second.
func Verif_C18_DeliveryFollowsMembership() {
	ps := NewPubSub()
	ctx := context.Background()
	ca, fa := newConn()
	cb, fb := newConn()
	cc, fc := newConn()
	byPattern := vr.Choose("by_pattern", 2) == 1
	name := vr.Tok("name")
	sub := name
	if byPattern {
		sub = "*"
	}
	ps.Subscribe(ctx, ca, []string{sub}, byPattern)
	ps.Subscribe(ctx, cc, []string{sub}, byPattern) // a bystander that stays subscribed throughout
	vr.Quiesce()
	m1, m2 := vr.Tok("m1"), vr.Tok("m2")
	ps.Publish(ctx, m1, name)
	vr.Quiesce()
	aIn, bIn := true, false
	switch vr.Choose("history", 5) {
	case 0:
		ps.Unsubscribe(ctx, ca, []string{sub}, byPattern)
		ps.Subscribe(ctx, cb, []string{sub}, byPattern)
		aIn, bIn = false, true
	case 1:
		ps.Unsubscribe(ctx, ca, []string{sub}, byPattern)
		aIn = false
	case 2:
		ps.Subscribe(ctx, cb, []string{sub}, byPattern)
		bIn = true
	case 3:
		ps.Unsubscribe(ctx, ca, []string{sub}, byPattern)
		ps.Subscribe(ctx, ca, []string{sub}, byPattern)
	case 4:
		ps.Unsubscribe(ctx, ca, []string{sub}, byPattern)
		ps.Subscribe(ctx, cb, []string{sub}, byPattern)
		ps.Subscribe(ctx, ca, []string{sub}, byPattern)
		bIn = true
	}
	vr.Quiesce()
	fa.written, fb.written, fc.written = nil, nil, nil
	fa.writes, fb.writes, fc.writes = 0, 0, 0
	ps.Publish(ctx, m2, name)
	vr.Quiesce()
	check := func(f *fakeConn, want bool, ob string) {
		if want {
			vr.Assert(string(f.written) == message(sub, m2), ob+".current_subscriber_gets_it_once")
		} else {
			vr.Assert(f.writes == 0, ob+".former_or_never_subscriber_gets_nothing")
		}
	}
	check(fa, aIn, "C18.membership.a")
	check(fb, bIn, "C18.membership.b")
	check(fc, true, "C18.membership.bystander")
	vr.Reach("end")
}
