package snapshot

// C03 at the level of the snapshot engine: what TakeSnapshot writes, Restore gives back - same
// keys, types, values and deadlines in every database, minus the keys whose deadline has passed
// when the restore happens; LASTSAVE follows the snapshot that was taken / restored.

import (
	"fmt"
	"time"

	"github.com/echovault/sugardb/internal"
	"github.com/echovault/sugardb/internal/modules/set"
	"github.com/echovault/sugardb/internal/modules/sorted_set"
	vr "github.com/echovault/sugardb/internal/verifrt"
)

func c03Value(kind int) interface{} {
	switch kind {
	case 0:
		return "text"
	case 1:
		return 12
	case 2:
		return 1.5
	case 3:
		return []string{"a", "b"}
	case 4:
		return map[string]interface{}{"f": "1", "g": "x"}
	case 5:
		return set.NewSet([]string{"a", "b"})
	case 6:
		return sorted_set.NewSortedSet([]sorted_set.MemberParam{{Value: "a", Score: 1}})
	}
	return nil
}

var c03Kinds = []string{"string", "int", "float", "list", "hash", "set", "zset"}

func c03Describe(v interface{}) string {
	switch x := v.(type) {
	case *set.Set:
		return fmt.Sprintf("set%v", len(x.GetAll()))
	case *sorted_set.SortedSet:
		return fmt.Sprintf("zset%v", len(x.GetAll()))
	}
	return fmt.Sprintf("%T:%v", v, v)
}

// c03RoundTrip: one key of the given type in a chosen database, with no deadline or a deadline
// before the snapshot / between snapshot and restore / after the restore.
func c03RoundTrip(kind int) {
	tag := "C03.roundtrip_" + c03Kinds[kind]
	w := &c10World{dir: vr.FSReset(), now: time.UnixMilli(1_700_000_000_000)}
	dbs := []int{0, 1, 12}
	db := dbs[vr.Choose("db", 3)]
	tSnap := w.now.Add(10 * time.Second)
	tRestore := tSnap.Add(time.Duration(vr.Choose("restart_after_s", 3)) * 30 * time.Second)
	var deadline time.Time
	dl := vr.Choose("deadline", 4)
	switch dl {
	case 1:
		deadline = tSnap.Add(-time.Second)
	case 2:
		deadline = tSnap.Add(20 * time.Second)
	case 3:
		deadline = tSnap.Add(time.Hour)
	}
	w.cur = map[int]map[string]internal.KeyData{
		db: {"k": {Value: c03Value(kind), ExpireAt: deadline}},
		7:  {"other": {Value: "keep"}},
	}
	w.now = tSnap
	vr.Assert(w.engine(nil).TakeSnapshot() == nil, tag+".snapshot_succeeds")
	vr.Assert(w.latest == tSnap.UnixMilli(), tag+".lastsave_is_the_snapshot_time")
	restored := map[int]map[string]internal.KeyData{}
	w2 := &c10World{dir: w.dir, now: tRestore}
	vr.Assert(w2.engine(restored).Restore() == nil, tag+".restore_succeeds")
	vr.Assert(w2.latest == tSnap.UnixMilli(), tag+".lastsave_after_restore_is_the_snapshot_time")
	o, okO := restored[7]["other"]
	vr.Assert(okO && o.Value == "keep" && o.ExpireAt.IsZero(), tag+".other_database_restored")
	got, ok := restored[db]["k"]
	alive := dl == 0 || deadline.After(tRestore)
	if !alive {
		vr.Assert(!ok, tag+".expired_key_not_restored")
	} else {
		vr.Assert(ok, tag+".live_key_restored")
		if ok {
			vr.Assert(got.ExpireAt.UnixMilli() == deadline.UnixMilli() && got.ExpireAt.IsZero() == deadline.IsZero(), tag+".deadline_preserved")
			vr.Assert(c03Describe(got.Value) == c03Describe(c03Value(kind)), tag+".type_and_value_preserved")
		}
	}
	vr.Reach("end")
}

func Verif_C03_RoundTrip_String() { c03RoundTrip(0) }
func Verif_C03_RoundTrip_Int()    { c03RoundTrip(1) }
func Verif_C03_RoundTrip_Float()  { c03RoundTrip(2) }
func Verif_C03_RoundTrip_List()   { c03RoundTrip(3) }
func Verif_C03_RoundTrip_Hash()   { c03RoundTrip(4) }
func Verif_C03_RoundTrip_Set()    { c03RoundTrip(5) }
func Verif_C03_RoundTrip_ZSet()   { c03RoundTrip(6) }

// Verif_C03_History: snapshots, a repeated snapshot without changes, further writes and another
// snapshot; the restart serves the dataset of the last snapshot and every attempt leaves the
// in-progress flag balanced.
func Verif_C03_History() {
	w := &c10World{dir: vr.FSReset(), now: time.UnixMilli(1_700_000_000_000)}
	ds := c10Datasets()
	e := w.engine(nil)
	steps := 2 + vr.Choose("steps", 3)
	last := -1
	lastTime := int64(0)
	for i := 0; i < steps; i++ {
		w.now = w.now.Add(time.Second)
		change := i == 0 || vr.Choose(fmt.Sprintf("change_%d", i), 2) == 1
		if change {
			last++
			w.cur = ds[last]
		}
		err := e.TakeSnapshot()
		if change {
			vr.Assert(err == nil, "C03.history.snapshot_with_new_data_succeeds")
			lastTime = w.now.UnixMilli()
		} else {
			vr.Assert(err != nil, "C03.history.snapshot_without_new_data_is_refused")
		}
		vr.Assert(w.active == 0, "C03.history.in_progress_flag_balanced")
		vr.Assert(w.latest == lastTime, "C03.history.lastsave_is_the_last_snapshot_taken")
	}
	restored := map[int]map[string]internal.KeyData{}
	w2 := &c10World{dir: w.dir, now: w.now.Add(time.Second)}
	vr.Assert(w2.engine(restored).Restore() == nil, "C03.history.restore_succeeds")
	vr.Assert(c10Render(restored) == c10Render(ds[last]) && w2.latest == lastTime, "C03.history.restart_serves_the_last_snapshot")
	vr.Reach("end")
}
