package snapshot

import "os"

// osCreateForHarness creates a plain file (through package os, which is the modelled file system
// under the symbolic executor and the counting shim natively).
func osCreateForHarness(p string) (*os.File, error) { return os.Create(p) }

func osMkdirAllForHarness(p string) error { return os.MkdirAll(p, os.ModePerm) }
