package snapshot

// C10 — snapshots are crash-atomic. The real snapshot engine runs over a modelled file system
// (package os is intercepted; natively the same harness runs over a real temporary directory
// through a counting shim). After 0..2 complete snapshots a further snapshot is crashed before
// each of its mutating file operations; after the reboot (unsynced bytes survive as a
// solver-chosen prefix) a fresh engine restores from the directory.

import (
	"fmt"
	"sort"
	"strings"
	"time"

	"github.com/echovault/sugardb/internal"
	vr "github.com/echovault/sugardb/internal/verifrt"
)

type c10Clock struct{ now *time.Time }

func (c c10Clock) Now() time.Time                         { return *c.now }
func (c c10Clock) After(d time.Duration) <-chan time.Time { return make(chan time.Time) }

type c10World struct {
	dir    string
	now    time.Time
	cur    map[int]map[string]internal.KeyData
	latest int64
	active int // snapshots in progress according to the start/finish callbacks
}

func (w *c10World) engine(restored map[int]map[string]internal.KeyData) *Engine {
	return NewSnapshotEngine(
		WithClock(c10Clock{now: &w.now}),
		WithDirectory(w.dir),
		WithInterval(0),
		WithThreshold(1000),
		WithStartSnapshotFunc(func() { w.active++ }),
		WithFinishSnapshotFunc(func() { w.active-- }),
		WithGetStateFunc(func() map[int]map[string]internal.KeyData { return w.cur }),
		WithSetLatestSnapshotTimeFunc(func(ms int64) { w.latest = ms }),
		WithGetLatestSnapshotTimeFunc(func() int64 { return w.latest }),
		WithSetKeyDataFunc(func(db int, k string, d internal.KeyData) {
			if restored[db] == nil {
				restored[db] = map[string]internal.KeyData{}
			}
			restored[db][k] = d
		}),
	)
}

func c10Datasets() []map[int]map[string]internal.KeyData {
	return []map[int]map[string]internal.KeyData{
		{0: {"a": {Value: "x"}}},
		{0: {"a": {Value: "y"}, "b": {Value: "zz"}}, 3: {"c": {Value: "w"}}},
		{0: {"b": {Value: "q"}}, 12: {"d": {Value: "longer value than before"}}},
		{1: {"e": {Value: "s"}}},
	}
}

func c10Render(d map[int]map[string]internal.KeyData) string {
	var lines []string
	for db, m := range d {
		for k, kd := range m {
			lines = append(lines, fmt.Sprintf("%d/%s=%v@%d", db, k, kd.Value, kd.ExpireAt.UnixMilli()))
		}
	}
	sort.Strings(lines)
	return strings.Join(lines, ";")
}

func c10Try(f func() error) (err error, crashed bool) {
	defer func() {
		if x := recover(); x != nil {
			if fmt.Sprint(x) != "verif: crash" {
				panic(x)
			}
			crashed = true
		}
	}()
	return f(), false
}

// Verif_C10_CrashAtEveryStep
func Verif_C10_CrashAtEveryStep() {
	w := &c10World{dir: vr.FSReset(), now: time.UnixMilli(1_700_000_000_000)}
	ds := c10Datasets()
	prev := vr.Choose("earlier_snapshots", 3)
	e1 := w.engine(nil)
	_ = e1
	for i := 0; i < prev; i++ {
		w.cur = ds[i]
		w.now = w.now.Add(time.Second)
		vr.Assert(e1.TakeSnapshot() == nil, "C10.setup.complete_snapshot_succeeds")
	}
	goodLatest := w.latest
	good := ""
	if prev > 0 {
		good = c10Render(ds[prev-1])
	}
	w.cur = ds[prev]
	w.now = w.now.Add(time.Second)
	n := vr.Int("crash_before_op")
	vr.Assume(n >= 1 && n <= 12)
	vr.FSCrashBefore(n)
	err, crashed := c10Try(e1.TakeSnapshot)
	vr.FSCrashBefore(0)
	if !crashed {
		// fewer than n operations: the snapshot ran to completion
		vr.Assert(err == nil, "C10.complete.snapshot_succeeds")
	}
	vr.FSReboot()
	restored := map[int]map[string]internal.KeyData{}
	w2 := &c10World{dir: w.dir, now: w.now.Add(time.Second)}
	rerr := w2.engine(restored).Restore()
	got := c10Render(restored)
	newer := c10Render(ds[prev])
	if !crashed {
		vr.Assert(rerr == nil && got == newer && w2.latest == w.now.UnixMilli(), "C10.complete.restore_yields_the_new_snapshot")
		vr.Reach("end")
		return
	}
	if prev == 0 {
		// no earlier snapshot: nothing, or the complete new one
		vr.Assert(got == "" || (got == newer && rerr == nil), "C10.crash.first_snapshot_all_or_nothing")
	} else {
		vr.Assert(rerr == nil, "C10.crash.startup_succeeds_when_a_previous_snapshot_existed")
		vr.Assert(got == good || got == newer, "C10.crash.restore_yields_previous_or_new_complete_snapshot")
		if got == good {
			vr.Assert(w2.latest == goodLatest, "C10.crash.lastsave_matches_the_restored_snapshot")
		}
	}
	// life goes on after the crash: the next snapshot on the same directory is complete and
	// restorable, whatever the crashed attempt left behind
	w2.cur = ds[prev+1]
	w2.now = w2.now.Add(time.Second)
	vr.Assert(w2.engine(nil).TakeSnapshot() == nil, "C10.after_crash.next_snapshot_succeeds")
	restored3 := map[int]map[string]internal.KeyData{}
	w3 := &c10World{dir: w.dir, now: w2.now.Add(time.Second)}
	r3 := w3.engine(restored3).Restore()
	vr.Assert(r3 == nil && c10Render(restored3) == c10Render(ds[prev+1]) && w3.latest == w2.now.UnixMilli(), "C10.after_crash.next_snapshot_restorable")
	vr.Reach("end")
}

// Verif_C10_FailedOrEmptyAttempt: an attempt that finds nothing new, or fails because the
// snapshot directory cannot be created, leaves the previous snapshot and LASTSAVE untouched.
func Verif_C10_FailedOrEmptyAttempt() {
	w := &c10World{dir: vr.FSReset(), now: time.UnixMilli(1_700_000_000_000)}
	ds := c10Datasets()
	e1 := w.engine(nil)
	w.cur = ds[0]
	w.now = w.now.Add(time.Second)
	vr.Assert(e1.TakeSnapshot() == nil, "C10.setup.complete_snapshot_succeeds")
	goodLatest := w.latest
	good := c10Render(ds[0])
	w.now = w.now.Add(time.Second)
	switch vr.Choose("attempt", 3) {
	case 2: // the temporary manifest cannot be created: its name is taken by a directory
		w.cur = ds[1]
		_ = osMkdirAllForHarness(fmt.Sprintf("%s/snapshots/manifest.bin.tmp", w.dir))
		err := e1.TakeSnapshot()
		_ = err // whether this attempt fails depends on how the manifest is replaced
	case 0: // nothing new
		err := e1.TakeSnapshot()
		vr.Assert(err != nil, "C10.nothing_new.reported")
	case 1: // the place of the new snapshot directory is taken by a file
		w.cur = ds[1]
		f, _ := osCreateForHarness(fmt.Sprintf("%s/snapshots/%d", w.dir, w.now.UnixMilli()))
		if f != nil {
			f.Close()
		}
		err := e1.TakeSnapshot()
		vr.Assert(err != nil, "C10.failed_attempt.reported")
	}
	vr.Assert(w.active == 0, "C10.failed_attempt.snapshot_no_longer_in_progress")
	restored := map[int]map[string]internal.KeyData{}
	w2 := &c10World{dir: w.dir, now: w.now.Add(time.Second)}
	rerr := w2.engine(restored).Restore()
	if w.latest == goodLatest {
		vr.Assert(rerr == nil && c10Render(restored) == good && w2.latest == goodLatest, "C10.failed_attempt.previous_snapshot_still_restorable")
	} else {
		// LASTSAVE moved: then the attempt must have produced a complete new snapshot
		vr.Assert(rerr == nil && c10Render(restored) == c10Render(w.cur) && w2.latest == w.latest, "C10.failed_attempt.lastsave_untouched_unless_a_snapshot_was_taken")
	}
	vr.Reach("end")
}
