package sym

// Cooperative scheduler for interpreted goroutines. Every interpreted goroutine runs on its own
// native goroutine, but only one of them runs at a time (baton passing), so the interpreter and
// the executor state need no locking. Switch points: blocking channel operations, select with no
// ready case, WaitGroup.Wait, end of thread, verifrt.Quiesce / verifrt.Yield.
// Default policy: a new goroutine does not run until the running thread blocks, quiesces or
// finishes; threads are then run round-robin to completion or until they block. With schedule
// nondeterminism on (verifrt.ScheduleND), every voluntary yield point forks over the next thread.

import (
	"fmt"
	"go/types"
)

type thread struct {
	harness   bool // started with verifrt.Go
	id        int
	resume    chan bool // true: run; false: the path is over, unwind
	done      bool
	callDepth []string
	blockedOn string
	cond      func() bool // what the thread is waiting for while blockedOn != ""
}

type threadKilled struct{}

func (i *interpreter) initThreads() {
	main := &thread{id: 0, resume: make(chan bool, 1)}
	i.threads = []*thread{main}
	i.cur = main
}

// spawn registers a new interpreted goroutine; it starts running when first scheduled.
func (i *interpreter) spawn(body func()) *thread {
	t := &thread{id: len(i.threads), resume: make(chan bool, 1)}
	i.threads = append(i.threads, t)
	go func() {
		killed := false
		if ok := <-t.resume; ok {
			func() {
				defer func() {
					if r := recover(); r != nil {
						if _, k := r.(threadKilled); k {
							killed = true
							return
						}
						// any other panic ends the path: the main thread re-raises it
						i.threadPanic = r
					}
				}()
				body()
			}()
		} else {
			killed = true
		}
		t.done = true
		if killed {
			i.killAck <- struct{}{}
			return
		}
		i.progress++
		i.switchFrom(t, true)
	}()
	return t
}

// liveOthers returns the live threads other than t, starting after t (round robin).
func (i *interpreter) liveOthers(t *thread) []*thread {
	var out []*thread
	n := len(i.threads)
	start := 0
	for k, x := range i.threads {
		if x == t {
			start = k
		}
	}
	for d := 1; d <= n; d++ {
		x := i.threads[(start+d)%n]
		if x != t && !x.done {
			out = append(out, x)
		}
	}
	return out
}

// switchFrom transfers control from thread t to another live thread. finished: t is done and
// will not be resumed. Returns false when there is nobody to switch to.
func (i *interpreter) switchFrom(t *thread, finished bool) bool {
	others := i.liveOthers(t)
	if len(others) == 0 {
		return false
	}
	next := others[0]
	if i.threadPanic != nil && !i.threads[0].done && t.id != 0 {
		next = i.threads[0]
	} else if i.draining != nil && t != i.draining && !i.draining.done {
		// a quiescing thread picks who runs: control returns to it after every step
		next = i.draining
	} else if i.ex != nil && i.ex.schedND && len(others) > 1 {
		next = others[i.ex.chooseFree(len(others))]
	}
	return i.switchTo(t, next, finished)
}

func (i *interpreter) switchTo(t, next *thread, finished bool) bool {
	i.cur = next
	next.resume <- true
	if finished {
		return true
	}
	ok := <-t.resume
	if !ok {
		panic(threadKilled{})
	}
	i.cur = t
	if i.threadPanic != nil && t.id == 0 {
		p := i.threadPanic
		i.threadPanic = nil
		panic(p)
	}
	return true
}

// blockUntil makes the current thread wait for cond, letting the other threads run.
func (i *interpreter) blockUntil(cond func() bool, why string) {
	me := i.cur
	spins := 0
	epoch := i.progress
	for !cond() {
		me.blockedOn = why
		me.cond = cond
		if !i.switchFrom(me, false) {
			// nobody else can run
			i.deadlock(me, why)
		}
		if i.progress != epoch {
			epoch = i.progress
			spins = 0
			continue
		}
		spins++
		if spins > len(i.threads)+1 {
			// a full round without progress anywhere: every live thread is blocked
			i.deadlock(me, why)
		}
	}
	me.blockedOn = ""
	me.cond = nil
	i.progress++
}

// runnable: not finished and not waiting for something that is still false.
func (t *thread) runnable() bool {
	return !t.done && (t.blockedOn == "" || t.cond == nil || t.cond())
}

func (i *interpreter) deadlock(me *thread, why string) {
	if me.id != 0 {
		// park this goroutine for good: give the baton to the main thread if it is alive
		main := i.threads[0]
		if !main.done {
			i.cur = main
			main.resume <- true
			ok := <-me.resume
			if !ok {
				panic(threadKilled{})
			}
			i.cur = me
			// resumed again: let the caller re-check its condition
			return
		}
	}
	if i.deadlockIsEvent {
		panic(targetPanic{iface{t: types.Typ[types.String], v: "verif: deadlock - all goroutines are blocked (" + why + ")"}})
	}
	panic(abortPath{why: "main thread blocks forever: " + why, kind: "unsupported"})
}

// drain lets every other thread run until it finishes or blocks (quiescence). The draining
// thread picks the next thread to run (a fork over the candidates when schedule nondeterminism is
// on); a thread that comes back without having made progress is set aside until somebody else
// makes progress.
func (i *interpreter) drain() {
	me := i.cur
	if i.draining != nil {
		return
	}
	i.draining = me
	defer func() { i.draining = nil }()
	stuck := map[*thread]bool{}
	for round := 0; round < 100000; round++ {
		var cands []*thread
		for _, t := range i.liveOthers(me) {
			if !stuck[t] {
				cands = append(cands, t)
			}
		}
		if len(cands) == 0 {
			return
		}
		next := cands[0]
		if i.ex != nil && i.ex.schedND && len(cands) > 1 {
			next = cands[i.ex.chooseFree(len(cands))]
		}
		before := i.progress
		i.switchTo(me, next, false)
		if i.progress == before {
			stuck[next] = true
		} else {
			stuck = map[*thread]bool{}
		}
	}
	panic(abortPath{why: "quiescence not reached after 100000 scheduling rounds", kind: "budget"})
}

// killThreads unwinds every remaining interpreted goroutine at the end of a path.
func (i *interpreter) killThreads() {
	for _, t := range i.threads[1:] {
		if !t.done {
			func() {
				defer func() { recover() }()
				t.resume <- false
				<-i.killAck
			}()
		}
	}
}

func (i *interpreter) runQueued() { i.drain() }

func (i *interpreter) blocked(why string) {
	panic(fmt.Sprintf("internal: blocked(%s) called", why))
}

type muState struct {
	writer  bool
	readers int
}

func (i *interpreter) mutex(p *value) *muState {
	if i.mu == nil {
		i.mu = map[*value]*muState{}
	}
	m := i.mu[p]
	if m == nil {
		m = &muState{}
		i.mu[p] = m
	}
	return m
}

func (i *interpreter) wgCount() map[*value]int {
	if i.wg == nil {
		i.wg = map[*value]int{}
	}
	return i.wg
}

// allOthersParked: every other live thread is a server-side goroutine that is blocked for good
// (e.g. a ticker loop); harness threads are expected to finish.
func (i *interpreter) allOthersParked(me *thread) bool {
	for _, t := range i.liveOthers(me) {
		if !t.harness {
			continue
		}
		return false
	}
	return true
}

// schedPoint is a point where the scheduler may hand control to another harness thread; the
// choice is a named input (c_sched_<k>), so that a counterexample carries its schedule.
// atLock: the point is a mutex acquisition (counted against the pre-emption bound).
func (i *interpreter) schedPoint(atLock bool) {
	e := i.ex
	if e == nil || i.inSchedPoint {
		return
	}
	if atLock && (!i.preemptLocks || i.preemptLeft <= 0) {
		return
	}
	hasHarness := false
	for _, t := range i.threads {
		if t.harness {
			hasHarness = true
		}
	}
	if !hasHarness || !(i.cur.harness || i.cur.id == 0) {
		return
	}
	var others []*thread
	for _, t := range i.liveOthers(i.cur) {
		if (t.harness || t.id == 0) && t.runnable() {
			others = append(others, t)
		}
	}
	if len(others) == 0 {
		return
	}
	name := fmt.Sprintf("c_sched_%d", e.schedPoints)
	e.schedPoints++
	if e.schedPoints > 60 {
		panic(abortPath{why: "more than 60 scheduling points on one path", kind: "budget"})
	}
	e.declare(name, "(_ BitVec 64)")
	e.addPC("(bvult " + name + " " + bvConst(2, 64) + ")")
	i.inSchedPoint = true
	d := e.concretize(symBV{name, 64}, 0, 2)
	i.inSchedPoint = false
	if d == 1 {
		if atLock {
			i.preemptLeft--
		}
		i.switchTo(i.cur, others[0], false)
	}
}

// spinCheck: a thread that keeps loading the same atomic word while nothing else changes is
// busy-waiting. A real scheduler pre-empts it; here the other harness threads get to run, and if
// none of them can, the wait can never end and is reported like a deadlock.
func (i *interpreter) spinCheck(p *value) {
	hasHarness := false
	for _, t := range i.threads {
		if t.harness {
			hasHarness = true
		}
	}
	if !hasHarness {
		return
	}
	if i.spinThread != i.cur || i.spinEpoch != i.progress || i.spinLoads == nil {
		i.spinThread, i.spinEpoch, i.spinLoads = i.cur, i.progress, map[*value]int{}
	}
	i.spinLoads[p]++
	i.spinCount = i.spinLoads[p]
	if i.spinCount < 3 {
		return
	}
	me := i.cur
	for _, t := range i.liveOthers(me) {
		if (t.harness || t.id == 0) && t.runnable() {
			i.switchTo(me, t, false)
			return
		}
	}
	if i.spinCount > 64 {
		i.deadlock(me, "busy-wait on an atomic word that no runnable thread can change")
	}
}
