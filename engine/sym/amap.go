package sym

// amap: maps as insertion-ordered association lists whose keys may be symbolic.
// Invariant: keys are pairwise distinct under the path condition (every lookup that
// misses has added the disequalities to the path condition).

import (
	"fmt"
	"go/types"
)

type aent struct {
	k, v value
	dead bool
}

type amap struct {
	kt   types.Type
	ents []*aent
	n    int
}

func newAmap(kt types.Type) *amap { return &amap{kt: kt} }

func (m *amap) len() int {
	if m == nil {
		return 0
	}
	return m.n
}

// find returns the entry whose key equals k on this path (forking when undecided).
func (m *amap) find(e *Exec, k value) *aent {
	if m == nil {
		return nil
	}
	// first pass: syntactically/concretely equal keys need no solver
	for _, en := range m.ents {
		if en.dead {
			continue
		}
		if b, ok := e.eqValue(m.kt, en.k, k).(bool); ok && b {
			return en
		}
	}
	for _, en := range m.ents {
		if en.dead {
			continue
		}
		switch c := e.eqValue(m.kt, en.k, k).(type) {
		case bool:
			if c {
				return en
			}
		case symBool:
			if e.decide(c.t) {
				return en
			}
		}
	}
	return nil
}

func (m *amap) lookup(e *Exec, k value) (value, bool) {
	en := m.find(e, k)
	if en == nil {
		return nil, false
	}
	return en.v, true
}

func (m *amap) insert(e *Exec, k, v value) {
	if m == nil {
		panic("assignment to entry in nil map")
	}
	if en := m.find(e, k); en != nil {
		en.v = v
		return
	}
	m.ents = append(m.ents, &aent{k: k, v: v})
	m.n++
}

func (m *amap) delete(e *Exec, k value) {
	if m == nil {
		return
	}
	if en := m.find(e, k); en != nil {
		en.dead = true
		m.n--
		// compact occasionally
		if len(m.ents) > 2*m.n+8 {
			var out []*aent
			for _, x := range m.ents {
				if !x.dead {
					out = append(out, x)
				}
			}
			m.ents = out
		}
	}
}

func (m *amap) clear() {
	if m == nil {
		return
	}
	for _, x := range m.ents {
		x.dead = true
	}
	m.ents = nil
	m.n = 0
}

type amapIter struct {
	ents []*aent
	i    int
}

func (it *amapIter) next() tuple {
	for it.i < len(it.ents) {
		en := it.ents[it.i]
		it.i++
		if en.dead {
			continue
		}
		return tuple{true, en.k, en.v}
	}
	return tuple{false, nil, nil}
}

// iter returns an iterator over a snapshot of the entries, in the order chosen by the
// executor: insertion order, or a permutation selected by symbolic decisions when order
// nondeterminism is on.
func (m *amap) iter(e *Exec) iter {
	if m == nil {
		return &amapIter{}
	}
	live := make([]*aent, 0, m.n)
	for _, x := range m.ents {
		if !x.dead {
			live = append(live, x)
		}
	}
	if e != nil && e.mapOrderND && len(live) > 1 && len(live) <= e.mapOrderMax {
		live = e.permute(live)
	}
	return &amapIter{ents: live}
}

// permute picks a permutation by free decisions (each a fork).
func (e *Exec) permute(in []*aent) []*aent {
	rest := append([]*aent{}, in...)
	var out []*aent
	for len(rest) > 1 {
		k := e.chooseFree(len(rest))
		out = append(out, rest[k])
		rest = append(rest[:k], rest[k+1:]...)
	}
	return append(out, rest...)
}

// chooseFree forks over 0..n-1 without a solver-visible variable.
func (e *Exec) chooseFree(n int) int {
	for k := 0; k < n-1; k++ {
		if e.freeDecision() {
			return k
		}
	}
	return n - 1
}

// freeDecision is a fork that is always feasible both ways.
func (e *Exec) freeDecision() bool {
	e.Stats.Branches++
	if len(e.decisions) >= e.maxDec {
		panic(abortPath{why: fmt.Sprintf("decision budget %d exhausted", e.maxDec), kind: "budget"})
	}
	i := len(e.decisions)
	if i < len(e.prefix) {
		d := e.prefix[i]
		e.decisions = append(e.decisions, d)
		return d
	}
	alt := append(append([]bool{}, e.decisions...), false)
	*e.work = append(*e.work, alt)
	e.decisions = append(e.decisions, true)
	return true
}
