package sym

// Models of two pieces of the standard library that the embedded pub/sub API is built on and that
// cannot be interpreted from source (they are made of runtime-level synchronisation):
//
//   - net.Pipe: two connected in-memory connections. A Write hands its bytes to the other end and,
//     as with the real synchronous pipe, returns only once they have been consumed (or the pipe was
//     closed); a reader waits for bytes. Deadlines are accepted and ignored. Under the cooperative
//     scheduler "waits" means: the goroutine is blocked and another one runs.
//   - sync.Map: an association list with possibly symbolic keys (the same structure as built-in maps).

import (
	"go/types"
)

type pipeBuf struct {
	p      []piece // bytes written and not yet consumed
	closed bool
}

type pipeEnd struct {
	rd, wr *pipeBuf
}

func (b *pipeBuf) empty() bool {
	c := respCursor{p: b.p}
	return c.eof()
}

func pipeOf(v value) *pipeEnd {
	if p, ok := v.(*value); ok && p != nil {
		v = *p
	}
	if op, ok := v.(*opaque); ok && op.kind == "pipe" {
		return op.data.(*pipeEnd)
	}
	return nil
}

func init() {
	intrinsics["net.Pipe"] = func(fr *frame, args []value) value {
		i := fr.i
		np := i.prog.ImportedPackage("net")
		if np == nil {
			panic(abortPath{why: "package net is not loaded", kind: "unsupported"})
		}
		pt := types.NewPointer(np.Type("pipe").Type())
		ab, ba := &pipeBuf{}, &pipeBuf{}
		mk := func(e *pipeEnd) value {
			var v value = &opaque{kind: "pipe", data: e}
			return iface{t: pt, v: &v}
		}
		i.ex.noteAssumption("net.Pipe is modelled as two connected in-memory ends: a write returns once the other end has consumed the bytes, a read waits for bytes, deadlines are ignored")
		return tuple{mk(&pipeEnd{rd: ba, wr: ab}), mk(&pipeEnd{rd: ab, wr: ba})}
	}
	intrinsics["(*net.pipe).Write"] = func(fr *frame, args []value) value {
		i := fr.i
		e := pipeOf(args[0])
		if e == nil {
			panic(abortPath{why: "net.pipe not created by the model", kind: "unsupported"})
		}
		if e.wr.closed {
			return tuple{int(0), i.newError(fr, "io: read/write on closed pipe")}
		}
		r := toRope(args[1])
		e.wr.p = append(e.wr.p, normRope(r.p)...)
		n := ropeLen(r)
		buf := e.wr
		i.progress++
		i.blockUntil(func() bool { return buf.empty() || buf.closed }, "write on a pipe nobody reads")
		return tuple{n, nilErr()}
	}
	intrinsics["(*net.pipe).Close"] = func(fr *frame, args []value) value {
		if e := pipeOf(args[0]); e != nil {
			e.rd.closed, e.wr.closed = true, true
			fr.i.progress++
		}
		return nilErr()
	}
	for _, m := range []string{"SetDeadline", "SetReadDeadline", "SetWriteDeadline"} {
		intrinsics["(*net.pipe)."+m] = func(fr *frame, args []value) value { return nilErr() }
	}
	for _, m := range []string{"LocalAddr", "RemoteAddr"} {
		intrinsics["(*net.pipe)."+m] = func(fr *frame, args []value) value { return iface{} }
	}
	intrinsics["(*net.pipe).Read"] = func(fr *frame, args []value) value {
		panic(abortPath{why: "byte-wise Read on a modelled pipe (only RESP values are read from it)", kind: "unsupported"})
	}

	// ---- sync.Map ----
	syncMapOf := func(fr *frame, recv value) *amap {
		p := recv.(*value)
		i := fr.i
		if i.syncMaps == nil {
			i.syncMaps = map[*value]*amap{}
		}
		m := i.syncMaps[p]
		if m == nil {
			m = newAmap(types.NewInterfaceType(nil, nil))
			i.syncMaps[p] = m
		}
		return m
	}
	intrinsics["(*sync.Map).Load"] = func(fr *frame, args []value) value {
		v, ok := syncMapOf(fr, args[0]).lookup(fr.i.ex, args[1])
		if !ok {
			return tuple{iface{}, false}
		}
		return tuple{v, true}
	}
	intrinsics["(*sync.Map).Store"] = func(fr *frame, args []value) value {
		syncMapOf(fr, args[0]).insert(fr.i.ex, args[1], args[2])
		return nil
	}
	intrinsics["(*sync.Map).Delete"] = func(fr *frame, args []value) value {
		syncMapOf(fr, args[0]).delete(fr.i.ex, args[1])
		return nil
	}
	intrinsics["(*sync.Map).LoadOrStore"] = func(fr *frame, args []value) value {
		m := syncMapOf(fr, args[0])
		if v, ok := m.lookup(fr.i.ex, args[1]); ok {
			return tuple{v, true}
		}
		m.insert(fr.i.ex, args[1], args[2])
		return tuple{args[2], false}
	}
	intrinsics["(*sync.Map).LoadAndDelete"] = func(fr *frame, args []value) value {
		m := syncMapOf(fr, args[0])
		v, ok := m.lookup(fr.i.ex, args[1])
		if !ok {
			return tuple{iface{}, false}
		}
		m.delete(fr.i.ex, args[1])
		return tuple{v, true}
	}
}
