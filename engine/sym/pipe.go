package sym

// Models of two pieces of the standard library that the embedded pub/sub API is built on and that
// cannot be interpreted from source (they are made of runtime-level synchronisation):
//
//   - net.Pipe: two connected in-memory connections. A Write hands its bytes to the other end and,
//     as with the real synchronous pipe, returns only once they have been consumed (or the pipe was
//     closed); a reader waits for bytes. Deadlines are accepted and ignored. Under the cooperative
//     scheduler "waits" means: the goroutine is blocked and another one runs.
//   - sync.Map: an association list with possibly symbolic keys (the same structure as built-in maps).

import (
	"go/types"
	"strconv"
)

type pipeBuf struct {
	p      []piece // bytes written and not yet consumed
	closed bool
}

type pipeEnd struct {
	rd, wr *pipeBuf
}

func (b *pipeBuf) empty() bool {
	c := respCursor{p: b.p}
	return c.eof()
}

func pipeOf(v value) *pipeEnd {
	if p, ok := v.(*value); ok && p != nil {
		v = *p
	}
	if op, ok := v.(*opaque); ok && op.kind == "pipe" {
		return op.data.(*pipeEnd)
	}
	return nil
}

func init() {
	intrinsics["net.Pipe"] = func(fr *frame, args []value) value {
		i := fr.i
		np := i.prog.ImportedPackage("net")
		if np == nil {
			panic(abortPath{why: "package net is not loaded", kind: "unsupported"})
		}
		pt := types.NewPointer(np.Type("pipe").Type())
		ab, ba := &pipeBuf{}, &pipeBuf{}
		mk := func(e *pipeEnd) value {
			var v value = &opaque{kind: "pipe", data: e}
			return iface{t: pt, v: &v}
		}
		i.ex.noteAssumption("net.Pipe is modelled as two connected in-memory ends: a write returns once the other end has consumed the bytes, a read waits for bytes, deadlines are ignored")
		return tuple{mk(&pipeEnd{rd: ba, wr: ab}), mk(&pipeEnd{rd: ab, wr: ba})}
	}
	intrinsics["(*net.pipe).Write"] = func(fr *frame, args []value) value {
		i := fr.i
		e := pipeOf(args[0])
		if e == nil {
			panic(abortPath{why: "net.pipe not created by the model", kind: "unsupported"})
		}
		if e.wr.closed {
			return tuple{int(0), i.newError(fr, "io: read/write on closed pipe")}
		}
		r := toRope(args[1])
		e.wr.p = append(e.wr.p, normRope(r.p)...)
		n := ropeLen(r)
		buf := e.wr
		i.progress++
		i.blockUntil(func() bool { return buf.empty() || buf.closed }, "write on a pipe nobody reads")
		return tuple{n, nilErr()}
	}
	intrinsics["(*net.pipe).Close"] = func(fr *frame, args []value) value {
		if e := pipeOf(args[0]); e != nil {
			e.rd.closed, e.wr.closed = true, true
			fr.i.progress++
		}
		return nilErr()
	}
	for _, m := range []string{"SetDeadline", "SetReadDeadline", "SetWriteDeadline"} {
		intrinsics["(*net.pipe)."+m] = func(fr *frame, args []value) value { return nilErr() }
	}
	for _, m := range []string{"LocalAddr", "RemoteAddr"} {
		intrinsics["(*net.pipe)."+m] = func(fr *frame, args []value) value { return iface{} }
	}
	intrinsics["(*net.pipe).Read"] = func(fr *frame, args []value) value {
		panic(abortPath{why: "byte-wise Read on a modelled pipe (only RESP values are read from it)", kind: "unsupported"})
	}

	// ---- sync.Map ----
	syncMapOf := func(fr *frame, recv value) *amap {
		p := recv.(*value)
		i := fr.i
		if i.syncMaps == nil {
			i.syncMaps = map[*value]*amap{}
		}
		m := i.syncMaps[p]
		if m == nil {
			m = newAmap(types.NewInterfaceType(nil, nil))
			i.syncMaps[p] = m
		}
		return m
	}
	intrinsics["(*sync.Map).Load"] = func(fr *frame, args []value) value {
		v, ok := syncMapOf(fr, args[0]).lookup(fr.i.ex, args[1])
		if !ok {
			return tuple{iface{}, false}
		}
		return tuple{v, true}
	}
	intrinsics["(*sync.Map).Store"] = func(fr *frame, args []value) value {
		syncMapOf(fr, args[0]).insert(fr.i.ex, args[1], args[2])
		return nil
	}
	intrinsics["(*sync.Map).Delete"] = func(fr *frame, args []value) value {
		syncMapOf(fr, args[0]).delete(fr.i.ex, args[1])
		return nil
	}
	intrinsics["(*sync.Map).LoadOrStore"] = func(fr *frame, args []value) value {
		m := syncMapOf(fr, args[0])
		if v, ok := m.lookup(fr.i.ex, args[1]); ok {
			return tuple{v, true}
		}
		m.insert(fr.i.ex, args[1], args[2])
		return tuple{args[2], false}
	}
	intrinsics["(*sync.Map).LoadAndDelete"] = func(fr *frame, args []value) value {
		m := syncMapOf(fr, args[0])
		v, ok := m.lookup(fr.i.ex, args[1])
		if !ok {
			return tuple{iface{}, false}
		}
		m.delete(fr.i.ex, args[1])
		return tuple{v, true}
	}
}

// ---- bytes.Buffer as a rope ----
//
// bytes.Buffer copies byte by byte into a slice it grows itself, which cannot be done with strings of
// symbolic length. A buffer is therefore kept as the rope of everything written to it and not yet read
// (side table keyed by the buffer's address); the writing and whole-content methods are modelled,
// everything else (partial reads, UnreadByte, ...) is outside the model.
func init() {
	bufOf := func(fr *frame, recv value) *symStr {
		p, ok := recv.(*value)
		if !ok || p == nil {
			panic(targetPanic{iface{t: types.Typ[types.String], v: "runtime error: invalid memory address or nil pointer dereference"}})
		}
		i := fr.i
		if i.byteBuffers == nil {
			i.byteBuffers = map[*value]*symStr{}
		}
		b := i.byteBuffers[p]
		if b == nil {
			b = &symStr{}
			i.byteBuffers[p] = b
		}
		return b
	}
	write := func(fr *frame, args []value) value {
		b := bufOf(fr, args[0])
		r := toRope(args[1])
		b.p = normRope(append(append([]piece{}, b.p...), r.p...))
		return tuple{ropeLen(r), nilErr()}
	}
	intrinsics["(*bytes.Buffer).WriteString"] = write
	intrinsics["(*bytes.Buffer).Write"] = write
	intrinsics["(*bytes.Buffer).WriteByte"] = func(fr *frame, args []value) value {
		b := bufOf(fr, args[0])
		switch c := args[1].(type) {
		case uint8:
			b.p = normRope(append(append([]piece{}, b.p...), piece{k: pLit, lit: string([]byte{c})}))
		case symBV:
			b.p = append(append([]piece{}, b.p...), piece{k: pByte, t: c.t})
		default:
			panic(abortPath{why: "bytes.Buffer.WriteByte operand", kind: "unsupported"})
		}
		return nilErr()
	}
	intrinsics["(*bytes.Buffer).WriteRune"] = func(fr *frame, args []value) value {
		b := bufOf(fr, args[0])
		r, ok := args[1].(int32)
		if !ok {
			panic(abortPath{why: "bytes.Buffer.WriteRune of a symbolic rune", kind: "unsupported"})
		}
		s := string(rune(r))
		b.p = normRope(append(append([]piece{}, b.p...), piece{k: pLit, lit: s}))
		return tuple{len(s), nilErr()}
	}
	intrinsics["(*bytes.Buffer).String"] = func(fr *frame, args []value) value {
		if p, ok := args[0].(*value); ok && p == nil {
			return "<nil>"
		}
		b := bufOf(fr, args[0])
		return ropeVal(symStr{p: append([]piece{}, b.p...)})
	}
	intrinsics["(*bytes.Buffer).Bytes"] = func(fr *frame, args []value) value {
		b := bufOf(fr, args[0])
		return bytesValue(symStr{p: append([]piece{}, b.p...)})
	}
	intrinsics["(*bytes.Buffer).Len"] = func(fr *frame, args []value) value {
		b := bufOf(fr, args[0])
		return ropeLen(*b)
	}
	intrinsics["(*bytes.Buffer).Reset"] = func(fr *frame, args []value) value {
		bufOf(fr, args[0]).p = nil
		return nil
	}
	intrinsics["(*bytes.Buffer).Grow"] = func(fr *frame, args []value) value { return nil }
	newBuf := func(fr *frame, args []value) value {
		t := fr.i.prog.ImportedPackage("bytes").Type("Buffer").Type()
		var cell value = zero(t)
		p := &cell
		r := toRope(args[0])
		b := bufOf(fr, p)
		b.p = normRope(append([]piece{}, r.p...))
		return p
	}
	// ReadFrom: everything the reader still holds (the readers known to io.ReadAll), reader left at its end
	intrinsics["(*bytes.Buffer).ReadFrom"] = func(fr *frame, args []value) value {
		b := bufOf(fr, args[0])
		rd, ok := args[1].(iface)
		if !ok {
			panic(abortPath{why: "bytes.Buffer.ReadFrom operand", kind: "unsupported"})
		}
		res := intrinsics["io.ReadAll"](fr, []value{rd}).(tuple)
		r := toRope(res[0])
		b.p = normRope(append(append([]piece{}, b.p...), r.p...))
		n := ropeLen(r)
		switch x := n.(type) {
		case int:
			return tuple{int64(x), nilErr()}
		case symBV:
			return tuple{x, nilErr()}
		}
		return tuple{int64(0), nilErr()}
	}
	for _, m := range []string{"Read", "ReadByte", "ReadRune", "ReadString", "ReadBytes", "Next", "Truncate", "WriteTo", "UnreadByte", "UnreadRune", "Cap", "Available", "AvailableBuffer"} {
		m := m
		intrinsics["(*bytes.Buffer)."+m] = func(fr *frame, args []value) value {
			panic(abortPath{why: "bytes.Buffer." + m + " is outside the buffer model", kind: "unsupported"})
		}
	}
	intrinsics["bytes.NewBuffer"] = newBuf
	intrinsics["bytes.NewBufferString"] = newBuf
}

// ---- strconv.Append* : the destination's bytes followed by the rendering (same pieces as Format*) ----
func init() {
	appendTo := func(dst value, r symStr) value {
		d := toRope(dst)
		return bytesValue(symStr{p: normRope(append(append([]piece{}, d.p...), r.p...))})
	}
	intrinsics["strconv.AppendInt"] = func(fr *frame, args []value) value {
		base, ok := args[2].(int)
		if !ok {
			panic(abortPath{why: "strconv.AppendInt with symbolic base", kind: "unsupported"})
		}
		switch a := args[1].(type) {
		case int64:
			return appendTo(args[0], symStr{p: []piece{{k: pLit, lit: strconv.FormatInt(a, base)}}})
		case symBV:
			if base != 10 {
				panic(abortPath{why: "AppendInt base", kind: "unsupported"})
			}
			return appendTo(args[0], symStr{p: []piece{{k: pItoa, t: a.t}}})
		}
		panic(abortPath{why: "strconv.AppendInt operand", kind: "unsupported"})
	}
	intrinsics["strconv.AppendUint"] = func(fr *frame, args []value) value {
		base, ok := args[2].(int)
		if !ok {
			panic(abortPath{why: "strconv.AppendUint with symbolic base", kind: "unsupported"})
		}
		switch a := args[1].(type) {
		case uint64:
			return appendTo(args[0], symStr{p: []piece{{k: pLit, lit: strconv.FormatUint(a, base)}}})
		case symBV:
			if base != 10 {
				panic(abortPath{why: "AppendUint base", kind: "unsupported"})
			}
			return appendTo(args[0], symStr{p: []piece{{k: pUtoa, t: a.t}}})
		}
		panic(abortPath{why: "strconv.AppendUint operand", kind: "unsupported"})
	}
	intrinsics["strconv.AppendBool"] = func(fr *frame, args []value) value {
		b, ok := args[1].(bool)
		if !ok {
			panic(abortPath{why: "strconv.AppendBool of a symbolic bool", kind: "unsupported"})
		}
		return appendTo(args[0], symStr{p: []piece{{k: pLit, lit: strconv.FormatBool(b)}}})
	}
	intrinsics["strconv.AppendFloat"] = func(fr *frame, args []value) value {
		c, okc := args[2].(uint8)
		p, okp := args[3].(int)
		bs, okb := args[4].(int)
		if !okc || !okp || !okb {
			panic(abortPath{why: "strconv.AppendFloat with symbolic format", kind: "unsupported"})
		}
		switch a := args[1].(type) {
		case float64:
			return appendTo(args[0], symStr{p: []piece{{k: pLit, lit: strconv.FormatFloat(a, c, p, bs)}}})
		case symFP:
			if p != -1 {
				panic(abortPath{why: "AppendFloat with precision", kind: "unsupported"})
			}
			return appendTo(args[0], symStr{p: []piece{{k: pFtoa, t: a.t, fmtc: c}}})
		}
		panic(abortPath{why: "strconv.AppendFloat operand", kind: "unsupported"})
	}
}
