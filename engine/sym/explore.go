package sym

import (
	"fmt"
	"go/token"
	"go/types"
	"os"
	"runtime/debug"
	"sort"
	"strings"
	"time"

	"golang.org/x/tools/go/ssa"
)

type ConcreteInputs struct {
	Values map[string]string
}

type Options struct {
	SolverBin   string
	SolverArgs  []string
	MaxPaths    int
	MaxDec      int
	MaxSteps    int
	MaxMake     int
	Budget      time.Duration
	Known       []KnownRegion
	LogSMT      string
	MapOrderND  bool
	MapOrderMax int
	Tier        int
	MaxCex      int
}

type PathAbort struct {
	Kind  string
	Why   string
	Path  []bool
	Stack string
}

type Result struct {
	Harness    string
	Stats      Stats
	Violations []Violation
	Aborts     []PathAbort // everything except "assume"
	Panics     []PathAbort // engine-internal crashes (bugs in symgo) and unrecovered target panics
	Functions  map[string]bool
	TimedOut   bool
	PathLimit  bool
	Wall       time.Duration
	Samples    []map[string]string
}

func NewInterp(prog *ssa.Program, sizes types.Sizes) *interpreter {
	i := &interpreter{
		prog:       prog,
		globals:    make(map[*ssa.Global]*value),
		sizes:      sizes,
		goroutines: 1,
		inited:     map[*ssa.Package]bool{},
	}
	runtimePkg := prog.ImportedPackage("runtime")
	i.runtimeErrorString = runtimePkg.Type("errorString").Object().Type()
	initReflect(i)
	return i
}

// global returns the cell of a global, allocating it lazily.
func (i *interpreter) global(g *ssa.Global) *value {
	if c, ok := i.globals[g]; ok {
		return c
	}
	cell := zero(mustDeref(g.Type()))
	if g.Pkg != nil && g.Pkg.Pkg.Path() == "os" && g.Name() == "Args" {
		cell = []value{"/tmp/verif.test"}
	}
	c := &cell
	i.globals[g] = c
	return c
}

func Explore(prog *ssa.Program, fn *ssa.Function, opt Options) (res Result) {
	t0 := time.Now()
	res.Harness = fn.Name()
	res.Functions = map[string]bool{}
	res.Stats.Reached = map[string]int{}
	res.Stats.AssertSites = map[string]int{}
	res.Stats.NontrivialAsserts = map[string]int{}
	res.Stats.Assumptions = map[string]bool{}
	solver := NewSolver(opt.SolverBin, opt.SolverArgs...)
	defer solver.Close()
	if opt.LogSMT != "" {
		f, _ := os.Create(opt.LogSMT)
		solver.Log = f
		defer f.Close()
	}
	if opt.MaxDec == 0 {
		opt.MaxDec = 400
	}
	if opt.MaxSteps == 0 {
		opt.MaxSteps = 20_000_000
	}
	if opt.MaxMake == 0 {
		opt.MaxMake = 16
	}
	if opt.MaxPaths == 0 {
		opt.MaxPaths = 200000
	}
	if opt.MaxCex == 0 {
		opt.MaxCex = 3
	}
	if opt.MapOrderMax == 0 {
		opt.MapOrderMax = 3
	}
	var deadline time.Time
	if opt.Budget > 0 {
		deadline = t0.Add(opt.Budget)
	}
	work := [][]bool{{}}
	for len(work) > 0 {
		if res.Stats.Paths >= opt.MaxPaths {
			res.PathLimit = true
			break
		}
		if !deadline.IsZero() && time.Now().After(deadline) {
			res.TimedOut = true
			break
		}
		prefix := work[len(work)-1]
		work = work[:len(work)-1]
		res.Stats.Paths++
		i := NewInterp(prog, &types.StdSizes{WordSize: 8, MaxAlign: 8})
		ex := &Exec{solver: solver, prefix: prefix, work: &work, Viol: &res.Violations, Stats: &res.Stats,
			maxDec: opt.MaxDec, maxSteps: opt.MaxSteps, maxMake: opt.MaxMake, known: opt.Known, deadline: deadline,
			mapOrderND: opt.MapOrderND, mapOrderMax: opt.MapOrderMax, tier: opt.Tier, maxCex: opt.MaxCex, maxRand: 12}
		i.ex = ex
		i.funcs = res.Functions
		i.killAck = make(chan struct{}, 64)
		i.initThreads()
		func() {
			defer func() {
				if r := recover(); r != nil {
					switch r := r.(type) {
					case abortPath:
						if r.kind == "assume" || r.kind == "infeasible" {
							return
						}
						if r.kind == "budget" && strings.Contains(r.why, "wall-clock") {
							res.TimedOut = true
						}
						res.Aborts = append(res.Aborts, PathAbort{Kind: r.kind, Why: r.why, Path: append([]bool{}, ex.decisions...), Stack: i.stackString()})
					case targetPanic:
						res.Panics = append(res.Panics, PathAbort{Kind: "target-panic", Why: "unrecovered panic in harness: " + toString(r.v), Path: append([]bool{}, ex.decisions...), Stack: i.stackString()})
					case processExit:
						res.Panics = append(res.Panics, PathAbort{Kind: "process-exit", Why: "log.Fatal/os.Exit reached outside harness guard", Path: append([]bool{}, ex.decisions...), Stack: i.stackString()})
					default:
						res.Panics = append(res.Panics, PathAbort{Kind: "engine", Why: fmt.Sprintf("%v", r), Path: append([]bool{}, ex.decisions...), Stack: i.stackString() + "\n" + string(debug.Stack())})
					}
				}
			}()
			defer i.killThreads()
			i.ensureInit(fn.Pkg)
			callSSA(i, nil, token.NoPos, fn, nil, nil)
			i.drain()
			// sample a model of a completed path
			if len(res.Samples) < 3 && len(ex.names) > 0 {
				if ex.check() == "sat" {
					m := ex.model()
					res.Samples = append(res.Samples, m)
				}
				ex.pop()
			}
		}()
		res.Stats.Steps += ex.steps
	}
	res.Wall = time.Since(t0)
	return res
}

func (i *interpreter) stackString() string {
	if len(i.lastStack) > 0 {
		return strings.Join(i.lastStack, " > ")
	}
	if i.cur != nil {
		return strings.Join(i.cur.callDepth, " > ")
	}
	return ""
}

func SortedKeys(m map[string]bool) []string {
	var out []string
	for k := range m {
		out = append(out, k)
	}
	sort.Strings(out)
	return out
}
