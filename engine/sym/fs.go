package sym

// In-engine file system for code that calls package os directly (the snapshot engine). Files are
// ropes with a durability watermark; directories are a set of paths. Mutating operations are
// numbered (MkdirAll that creates something, Create, OpenFile that creates or truncates, Write,
// Sync, Truncate, Remove, Rename) so that a harness can crash the process before the n-th of
// them (verifrt.FSCrashBefore) and then reboot (verifrt.FSReboot): metadata operations are durable
// at once, the bytes written to a file since its last Sync survive as a solver-chosen prefix.
// The native twin (harness/verifrt/vos) counts the same operations around the real package os.

import (
	"crypto/md5"
	"go/types"
	"path"
	"sort"
	"strings"
)

type fsNode struct {
	dir    bool
	data   []piece
	synced int // number of leading bytes known durable (only meaningful for concrete-length data)
	dirty  bool
}

type fsHandle struct {
	path   string
	node   *fsNode
	pos    int
	app    bool
	rd, wr bool
	closed bool
}

type memFS struct {
	nodes   map[string]*fsNode
	ops     int
	crashAt int
}

func (i *interpreter) fs() *memFS {
	if i.memfs == nil {
		i.memfs = &memFS{nodes: map[string]*fsNode{"/": {dir: true}}}
	}
	return i.memfs
}

func (m *memFS) step() {
	m.ops++
	if m.crashAt != 0 && m.ops == m.crashAt {
		panic(targetPanic{iface{t: types.Typ[types.String], v: "verif: crash"}})
	}
}

func fsPathArg(v value) string {
	s, ok := v.(string)
	if !ok {
		panic(abortPath{why: "file system model: symbolic path", kind: "unsupported"})
	}
	return path.Clean("/" + s)
}

func ropeConcreteLen(p []piece) (int, bool) { return concreteLen(p) }

// fsErr returns an error that errors.Is recognises as target (fs.ErrNotExist / fs.ErrExist).
func (i *interpreter) fsErr(fr *frame, name string) value {
	i.ensureInit(i.prog.ImportedPackage("io/fs"))
	for gl, cell := range i.globals {
		if gl.Pkg != nil && gl.Pkg.Pkg.Path() == "io/fs" && gl.Name() == name {
			if x, ok := (*cell).(iface); ok && x.t != nil {
				return *cell
			}
			*cell = i.newError(fr, map[string]string{"ErrNotExist": "file does not exist", "ErrExist": "file already exists", "ErrInvalid": "invalid argument"}[name])
			return *cell
		}
	}
	return i.newError(fr, name)
}

const (
	oWRONLY = 0x1
	oRDWR   = 0x2
	oAPPEND = 0x400
	oCREATE = 0x40
	oEXCL   = 0x80
	oTRUNC  = 0x200
)

func (i *interpreter) fsOpen(fr *frame, p string, flag int) value {
	m := i.fs()
	n := m.nodes[p]
	if n == nil {
		if flag&oCREATE == 0 {
			return tuple{(*value)(nil), i.fsErr(fr, "ErrNotExist")}
		}
		parent := m.nodes[path.Dir(p)]
		if parent == nil || !parent.dir {
			return tuple{(*value)(nil), i.fsErr(fr, "ErrNotExist")}
		}
		m.step()
		n = &fsNode{}
		m.nodes[p] = n
	} else {
		if flag&oCREATE != 0 && flag&oEXCL != 0 {
			return tuple{(*value)(nil), i.fsErr(fr, "ErrExist")}
		}
		if n.dir && flag&(oWRONLY|oRDWR) != 0 {
			return tuple{(*value)(nil), i.newError(fr, "open "+p+": is a directory")}
		}
		if flag&oTRUNC != 0 && !n.dir {
			m.step()
			n.data = nil
			n.synced = 0
		}
	}
	h := &fsHandle{path: p, node: n, app: flag&oAPPEND != 0, rd: flag&oWRONLY == 0, wr: flag&(oWRONLY|oRDWR) != 0}
	var v value = &opaque{kind: "fsfile", data: h}
	return tuple{&v, nilErr()}
}

func fsHandleOf(v value) *fsHandle {
	p, ok := v.(*value)
	if !ok || p == nil {
		return nil
	}
	op, ok := (*p).(*opaque)
	if !ok || op.kind != "fsfile" {
		return nil
	}
	return op.data.(*fsHandle)
}

func init() {
	intrinsics["os.MkdirAll"] = func(fr *frame, args []value) value {
		i := fr.i
		m := i.fs()
		p := fsPathArg(args[0])
		var todo []string
		for q := p; q != "/"; q = path.Dir(q) {
			n := m.nodes[q]
			if n != nil {
				if !n.dir {
					return i.newError(fr, "mkdir "+q+": not a directory")
				}
				break
			}
			todo = append(todo, q)
		}
		if len(todo) > 0 {
			m.step()
			for _, q := range todo {
				m.nodes[q] = &fsNode{dir: true}
			}
		}
		return nilErr()
	}
	intrinsics["os.Mkdir"] = func(fr *frame, args []value) value {
		i := fr.i
		m := i.fs()
		p := fsPathArg(args[0])
		if m.nodes[p] != nil {
			return i.fsErr(fr, "ErrExist")
		}
		if par := m.nodes[path.Dir(p)]; par == nil || !par.dir {
			return i.fsErr(fr, "ErrNotExist")
		}
		m.step()
		m.nodes[p] = &fsNode{dir: true}
		return nilErr()
	}
	intrinsics["os.Open"] = func(fr *frame, args []value) value {
		return fr.i.fsOpen(fr, fsPathArg(args[0]), 0)
	}
	intrinsics["os.Create"] = func(fr *frame, args []value) value {
		return fr.i.fsOpen(fr, fsPathArg(args[0]), oRDWR|oCREATE|oTRUNC)
	}
	intrinsics["os.OpenFile"] = func(fr *frame, args []value) value {
		return fr.i.fsOpen(fr, fsPathArg(args[0]), int(asInt64(args[1])))
	}
	intrinsics["os.Remove"] = func(fr *frame, args []value) value {
		m := fr.i.fs()
		p := fsPathArg(args[0])
		if m.nodes[p] == nil {
			return fr.i.fsErr(fr, "ErrNotExist")
		}
		m.step()
		delete(m.nodes, p)
		return nilErr()
	}
	intrinsics["os.RemoveAll"] = func(fr *frame, args []value) value {
		m := fr.i.fs()
		p := fsPathArg(args[0])
		hit := false
		for q := range m.nodes {
			if q == p || strings.HasPrefix(q, p+"/") {
				hit = true
			}
		}
		if hit {
			m.step()
			for q := range m.nodes {
				if q == p || strings.HasPrefix(q, p+"/") {
					delete(m.nodes, q)
				}
			}
		}
		return nilErr()
	}
	intrinsics["os.Rename"] = func(fr *frame, args []value) value {
		m := fr.i.fs()
		a, b := fsPathArg(args[0]), fsPathArg(args[1])
		n := m.nodes[a]
		if n == nil {
			return fr.i.fsErr(fr, "ErrNotExist")
		}
		m.step()
		delete(m.nodes, a)
		m.nodes[b] = n
		return nilErr()
	}
	// os.Stat / os.Lstat: an *os.fileStat built from the model's node (name, size, directory bit); its
	// methods are the standard library's own.
	stat := func(fr *frame, args []value) value {
		i := fr.i
		p := fsPathArg(args[0])
		n := i.fs().nodes[p]
		if n == nil {
			return tuple{iface{}, i.fsErr(fr, "ErrNotExist")}
		}
		op := i.prog.ImportedPackage("os")
		ft := op.Type("fileStat").Type()
		st := zero(ft).(structure)
		fields := ft.Underlying().(*types.Struct)
		for k := 0; k < fields.NumFields(); k++ {
			switch fields.Field(k).Name() {
			case "name":
				st[k] = path.Base(p)
			case "size":
				if l, ok := concreteLen(n.data); ok {
					st[k] = int64(l)
				} else {
					st[k] = ropeLen(symStr{p: n.data})
				}
			case "mode":
				if n.dir {
					st[k] = uint32(1<<31 | 0o755)
				} else {
					st[k] = uint32(0o644)
				}
			}
		}
		var v value = st
		return tuple{iface{t: types.NewPointer(ft), v: &v}, nilErr()}
	}
	intrinsics["os.Stat"] = stat
	intrinsics["os.Lstat"] = stat
	// os.ReadDir: the entries of a directory of the model, sorted by name, as io/fs dirInfo values
	intrinsics["os.ReadDir"] = func(fr *frame, args []value) value {
		i := fr.i
		p := fsPathArg(args[0])
		d := i.fs().nodes[p]
		if d == nil || !d.dir {
			return tuple{[]value(nil), i.fsErr(fr, "ErrNotExist")}
		}
		var names []string
		for q := range i.fs().nodes {
			if q != p && path.Dir(q) == p {
				names = append(names, q)
			}
		}
		sort.Strings(names)
		fp := i.prog.ImportedPackage("io/fs")
		if fp == nil {
			panic(abortPath{why: "io/fs is not loaded", kind: "unsupported"})
		}
		dt := fp.Type("dirInfo").Type()
		var out []value
		for _, q := range names {
			r := stat(fr, []value{q}).(tuple)
			di := zero(dt).(structure)
			di[0] = r[0]
			out = append(out, iface{t: dt, v: di})
		}
		return tuple{out, nilErr()}
	}
	intrinsics["os.ReadFile"] = func(fr *frame, args []value) value {
		m := fr.i.fs()
		n := m.nodes[fsPathArg(args[0])]
		if n == nil || n.dir {
			return tuple{[]value(nil), fr.i.fsErr(fr, "ErrNotExist")}
		}
		return tuple{bytesValue(symStr{p: n.data}), nilErr()}
	}
	intrinsics["os.WriteFile"] = func(fr *frame, args []value) value {
		r := fr.i.fsOpen(fr, fsPathArg(args[0]), oWRONLY|oCREATE|oTRUNC).(tuple)
		if e, ok := r[1].(iface); ok && e.t != nil {
			return r[1]
		}
		h := fsHandleOf(r[0])
		fr.i.fs().step()
		h.node.data = normRope(toRope(args[1]).p)
		h.node.dirty = true
		return nilErr()
	}
	intrinsics["(*os.File).Write"] = func(fr *frame, args []value) value {
		i := fr.i
		h := fsHandleOf(args[0])
		if h == nil || h.closed || !h.wr {
			return tuple{int(0), i.newError(fr, "write: bad file descriptor")}
		}
		i.fs().step()
		data := normRope(toRope(args[1]).p)
		n := h.node
		oldLen, oldConc := ropeConcreteLen(n.data)
		if h.app || (oldConc && h.pos == oldLen) || (h.pos == 0 && len(n.data) == 0) {
			n.data = normRope(append(append([]piece{}, n.data...), data...))
			if l, ok := ropeConcreteLen(n.data); ok {
				h.pos = l
			} else {
				h.pos = -1 // at the end of content of symbolic length
			}
		} else if h.pos == -1 {
			n.data = normRope(append(append([]piece{}, n.data...), data...))
		} else {
			// overwrite in the middle: both sides need concrete lengths
			newLen, newConc := ropeConcreteLen(data)
			if !oldConc || !newConc {
				panic(abortPath{why: "file system model: overwrite inside content of symbolic length", kind: "unsupported"})
			}
			old := symStr{p: n.data, bytes: true}
			var out []piece
			if h.pos > oldLen {
				out = append(out, n.data...)
				out = append(out, piece{k: pLit, lit: strings.Repeat("\x00", h.pos-oldLen)})
			} else {
				out = append(out, toRope(i.ex.sliceRope(old, int64(0), int64(h.pos))).p...)
			}
			out = append(out, data...)
			if h.pos+newLen < oldLen {
				out = append(out, toRope(i.ex.sliceRope(old, int64(h.pos+newLen), int64(oldLen))).p...)
			}
			n.data = normRope(out)
			if h.pos < n.synced {
				n.synced = h.pos
			}
			h.pos += newLen
		}
		n.dirty = true
		return tuple{ropeLen(symStr{p: data}), nilErr()}
	}
	intrinsics["(*os.File).WriteString"] = func(fr *frame, args []value) value {
		return intrinsics["(*os.File).Write"](fr, []value{args[0], symStr{p: toRope(args[1]).p, bytes: true}})
	}
	intrinsics["(*os.File).Sync"] = func(fr *frame, args []value) value {
		h := fsHandleOf(args[0])
		if h == nil || h.closed {
			return fr.i.newError(fr, "sync: file already closed")
		}
		fr.i.fs().step()
		if l, ok := ropeConcreteLen(h.node.data); ok {
			h.node.synced = l
		}
		h.node.dirty = false
		return nilErr()
	}
	intrinsics["(*os.File).Close"] = func(fr *frame, args []value) value {
		h := fsHandleOf(args[0])
		if h == nil {
			return fr.i.newError(fr, "invalid argument")
		}
		if h.closed {
			return fr.i.newError(fr, "close: file already closed")
		}
		h.closed = true
		return nilErr()
	}
	intrinsics["(*os.File).Seek"] = func(fr *frame, args []value) value {
		h := fsHandleOf(args[0])
		off := int(asInt64(args[1]))
		switch int(asInt64(args[2])) {
		case 0:
			h.pos = off
		case 1:
			h.pos += off
		case 2:
			l, ok := ropeConcreteLen(h.node.data)
			if !ok {
				if off == 0 {
					h.pos = -1
					return tuple{int64(0), nilErr()}
				}
				panic(abortPath{why: "file system model: seek from the end of content of symbolic length", kind: "unsupported"})
			}
			h.pos = l + off
		}
		return tuple{int64(h.pos), nilErr()}
	}
	intrinsics["(*os.File).Truncate"] = func(fr *frame, args []value) value {
		h := fsHandleOf(args[0])
		size := int(asInt64(args[1]))
		fr.i.fs().step()
		if size == 0 {
			h.node.data = nil
			h.node.synced = 0
			return nilErr()
		}
		l, ok := ropeConcreteLen(h.node.data)
		if !ok {
			panic(abortPath{why: "file system model: truncate of content of symbolic length", kind: "unsupported"})
		}
		if size < l {
			h.node.data = toRope(fr.i.ex.sliceRope(symStr{p: h.node.data, bytes: true}, int64(0), int64(size))).p
		} else if size > l {
			h.node.data = append(h.node.data, piece{k: pLit, lit: strings.Repeat("\x00", size-l)})
		}
		if h.node.synced > size {
			h.node.synced = size
		}
		return nilErr()
	}
	intrinsics["(*os.File).Name"] = func(fr *frame, args []value) value { return fsHandleOf(args[0]).path }

	// crypto/md5 over concrete bytes
	intrinsics["crypto/md5.Sum"] = func(fr *frame, args []value) value {
		r := normRope(toRope(args[0]).p)
		s := ""
		for _, x := range r {
			if x.k != pLit {
				panic(abortPath{why: "md5 of symbolic content", kind: "unsupported"})
			}
			s += x.lit
		}
		d := md5.Sum([]byte(s))
		out := make(array, 16)
		for k := range out {
			out[k] = d[k]
		}
		return out
	}
}

// fsContentFrom: what a reader of this handle gets (from the current offset).
func (i *interpreter) fsContentFrom(h *fsHandle) symStr {
	if h.pos <= 0 && h.pos != -1 {
		return symStr{p: h.node.data, bytes: true}
	}
	if h.pos == -1 {
		return symStr{bytes: true}
	}
	l, ok := ropeConcreteLen(h.node.data)
	if !ok {
		panic(abortPath{why: "file system model: read from the middle of content of symbolic length", kind: "unsupported"})
	}
	if h.pos >= l {
		return symStr{bytes: true}
	}
	return toRope(i.ex.sliceRope(symStr{p: h.node.data, bytes: true}, int64(h.pos), int64(l)))
}

// fsReboot applies the crash semantics and forgets open handles.
func (i *interpreter) fsReboot() {
	m := i.fs()
	m.crashAt = 0
	var names []string
	for p := range m.nodes {
		names = append(names, p)
	}
	sort.Strings(names)
	for _, p := range names {
		n := m.nodes[p]
		if n.dir || !n.dirty {
			continue
		}
		l, ok := ropeConcreteLen(n.data)
		if !ok {
			// symbolic length: all or nothing of the unsynced content
			if i.ex.chooseNamed("fs_keep"+fsSafe(strings.TrimPrefix(p, fsRoot)), 2) == 0 {
				n.data = nil
			}
			n.dirty = false
			continue
		}
		if l > n.synced {
			var cut int
			if i.ex.tier == 0 {
				switch i.ex.chooseNamed("fs_keep"+fsSafe(strings.TrimPrefix(p, fsRoot)), 3) {
				case 0:
					cut = n.synced
				case 1:
					cut = n.synced + (l-n.synced)/2
				default:
					cut = l
				}
			} else {
				cut = n.synced + i.ex.chooseNamed("fs_keep"+fsSafe(strings.TrimPrefix(p, fsRoot)), l-n.synced+1)
			}
			if cut < l {
				n.data = toRope(i.ex.sliceRope(symStr{p: n.data, bytes: true}, int64(0), int64(cut))).p
			}
			n.synced = cut
		}
		n.dirty = false
	}
}

const fsRoot = "/vfs"

// chooseNamed is verifrt.Choose from inside the engine.
func (e *Exec) chooseNamed(name string, n int) int {
	name = "c_" + name
	e.declare(name, "(_ BitVec 64)")
	e.addPC("(bvult " + name + " " + bvConst(int64(n), 64) + ")")
	return int(e.concretize(symBV{name, 64}, 0, int64(n)))
}

func fsSafe(p string) string {
	out := []byte(p)
	for k, c := range out {
		if !(c >= 'a' && c <= 'z' || c >= 'A' && c <= 'Z' || c >= '0' && c <= '9') {
			out[k] = '_'
		}
	}
	return string(out)
}
