package sym

import (
	"os"
	"bytes"
	"fmt"
	"go/token"
	"go/types"
	"math"
	"reflect"
	"strconv"
	"strings"
	"sync"
	"unicode"

	"golang.org/x/tools/go/ssa"
)

type intrinsicFn func(fr *frame, args []value) value

const rtPkgPath = "github.com/echovault/sugardb/internal/verifrt"
const repoModule = "github.com/echovault/sugardb"

var intrinsics = map[string]intrinsicFn{}

var intrinsicCache sync.Map // *ssa.Function -> intrinsicFn (or nil marker)

type noIntrinsic struct{}

func lookupIntrinsic(fn *ssa.Function) intrinsicFn {
	if v, ok := intrinsicCache.Load(fn); ok {
		if f, ok := v.(intrinsicFn); ok {
			return f
		}
		return nil
	}
	name := fn.String()
	if o := fn.Origin(); o != nil {
		name = o.String()
	}
	var f intrinsicFn
	if in, ok := intrinsics[name]; ok {
		f = in
	} else if nf, ok := nativeFuncs[name]; ok {
		f = nativeWrapper(name, nf)
	} else if ext, ok := externals[name]; ok && fn.Parent() == nil {
		f = intrinsicFn(ext)
	} else if zeroResultStubs[name] {
		f = func(fr *frame, args []value) value { return zeroResults(fn) }
	}
	if f != nil {
		intrinsicCache.Store(fn, f)
	} else {
		intrinsicCache.Store(fn, noIntrinsic{})
	}
	return f
}

// Packages whose init functions are never run (their functions are reached only through
// intrinsics or are pure and need no package state).
var skipInit = []string{"runtime", "os", "syscall", "sync", "reflect", "internal/", "unsafe", "time", "math/rand", "log", "fmt", "net", "crypto", "encoding/", "io", "bufio", "bytes", "unicode", "math", "sort", "path", "golang.org/", "github.com/hashicorp", "github.com/tidwall", "github.com/gobwas", "gopkg.in", "github.com/sethvargo", "github.com/armon", "github.com/boltdb", "plugin", "context", "errors", "strconv", "strings", "slices", "cmp", "container/", "regexp", "hash", "compress", "text/", "html", "mime", "os/", "go/", "debug/", "embed", "flag", "iter", "maps", "weak", "unique", "vendor/", "database/", "expvar", "testing", "archive/", "image", "index/", "github.com/go-test", "github.com/fatih", "github.com/mattn", "github.com/miekg", "github.com/google", "github.com/sean-"}

// Packages among the skipped ones whose package-level variables are nevertheless needed
// (simple error values etc.): their init is run.
var forceInit = map[string]bool{"io": true, "context": true, "io/fs": true, "strconv": true, "sort": true, "bufio": true, "bytes": true}

func (i *interpreter) ensureInit(pkg *ssa.Package) {
	if pkg == nil || i.inited[pkg] {
		return
	}
	i.inited[pkg] = true
	path := pkg.Pkg.Path()
	if !forceInit[path] {
		for _, s := range skipInit {
			if path == s || strings.HasPrefix(path, s) {
				return
			}
		}
	}
	fn := pkg.Func("init")
	if fn == nil {
		return
	}
	old := i.initTarget
	i.initTarget = pkg
	callSSA(i, nil, token.NoPos, fn, nil, nil)
	i.initTarget = old
}

func (i *interpreter) newError(fr *frame, msg value) value {
	errNew := i.prog.ImportedPackage("errors").Func("New")
	return callSSA(i, fr, token.NoPos, errNew, []value{msg}, nil)
}

func nilErr() value { return iface{} }

// ---- fmt ----

func (e *Exec) fmtValue(fr *frame, verb byte, flags string, a value, out *[]piece, lit *string) {
	flush := func() {
		if *lit != "" {
			*out = append(*out, piece{k: pLit, lit: *lit})
			*lit = ""
		}
	}
	t := types.Type(nil)
	if itf, ok := a.(iface); ok {
		t = itf.t
		a = itf.v
	}
	if t == nil && a == nil {
		if verb == 'T' {
			*lit += "<nil>"
			return
		}
		*lit += "<nil>"
		return
	}
	if verb == 'T' {
		*lit += t.String()
		return
	}
	// error / Stringer
	if t != nil {
		if _, isBasic := t.Underlying().(*types.Basic); !isBasic || types.NewMethodSet(t).Len() > 0 {
			for _, mname := range []string{"Error", "String"} {
				if verb == 'd' || verb == 'T' {
					break
				}
				ms := fr.i.prog.MethodSets.MethodSet(t)
				for k := 0; k < ms.Len(); k++ {
					sel := ms.At(k)
					if sel.Obj().Name() == mname {
						sig := sel.Type().(*types.Signature)
						if sig.Params().Len() == 0 && sig.Results().Len() == 1 && types.Identical(sig.Results().At(0).Type(), types.Typ[types.String]) {
							if isTimeType(t) {
								break
							}
							if f := fr.i.prog.MethodValue(sel); f != nil {
								s := call(fr.i, fr, token.NoPos, f, []value{a})
								e.fmtValue(fr, 's', "", s, out, lit)
								return
							}
						}
					}
				}
			}
		}
	}
	signedOf := func() bool {
		if t != nil {
			if _, s, ok := typeWidth(t); ok {
				return s
			}
		}
		return true
	}
	switch x := a.(type) {
	case symBV:
		flush()
		tt := x.t
		if x.w < 64 {
			if signedOf() {
				tt = fmt.Sprintf("((_ sign_extend %d) %s)", 64-x.w, x.t)
			} else {
				tt = fmt.Sprintf("((_ zero_extend %d) %s)", 64-x.w, x.t)
			}
		}
		if verb == 'c' || verb == 'x' || verb == 'q' {
			panic(abortPath{why: "fmt verb %" + string(verb) + " on symbolic integer", kind: "unsupported"})
		}
		if signedOf() {
			*out = append(*out, piece{k: pItoa, t: tt})
		} else {
			*out = append(*out, piece{k: pUtoa, t: tt})
		}
	case symStr:
		if verb == 'q' || verb == 'x' {
			panic(abortPath{why: "fmt verb %" + string(verb) + " on symbolic string", kind: "unsupported"})
		}
		flush()
		*out = append(*out, x.p...)
	case symFP:
		flush()
		c := byte('g')
		if verb == 'f' || verb == 'F' {
			c = '6' // fixed six decimals: not the same text as FormatFloat(f,'f',-1,64)
		}
		if strings.Contains(flags, ".") {
			panic(abortPath{why: "fmt precision on symbolic float", kind: "unsupported"})
		}
		*out = append(*out, piece{k: pFtoa, t: x.t, fmtc: c})
	case symBool:
		if e.decide(x.t) {
			*lit += "true"
		} else {
			*lit += "false"
		}
	case timeVal:
		flush()
		*out = append(*out, piece{k: pLit, lit: "<time>"})
	case string, bool, int, int8, int16, int32, int64, uint, uint8, uint16, uint32, uint64, uintptr, float32, float64:
		*lit += fmt.Sprintf("%"+flags+string(verb), x)
	case []value:
		if isByteSliceOrString(x) && t != nil && (verb == 's' || verb == 'q' || verb == 'x') {
			r := toRope(x)
			if len(r.p) <= 1 && (len(r.p) == 0 || r.p[0].k == pLit) {
				s := ""
				if len(r.p) == 1 {
					s = r.p[0].lit
				}
				*lit += fmt.Sprintf("%"+flags+string(verb), s)
				return
			}
			flush()
			*out = append(*out, r.p...)
			return
		}
		var et types.Type
		if t != nil {
			if sl, ok := t.Underlying().(*types.Slice); ok {
				et = sl.Elem()
			}
		}
		*lit += "["
		for k, el := range x {
			if k > 0 {
				*lit += " "
			}
			if et != nil {
				if _, isI := et.Underlying().(*types.Interface); !isI {
					el = iface{t: et, v: el}
				}
			}
			e.fmtValue(fr, verb, flags, el, out, lit)
		}
		*lit += "]"
	case *value:
		if x == nil {
			*lit += "<nil>"
		} else {
			*lit += "0xc000000000"
		}
	case structure:
		st, _ := t.Underlying().(*types.Struct)
		*lit += "{"
		for k, el := range x {
			if k > 0 {
				*lit += " "
			}
			if st != nil {
				if strings.Contains(flags, "+") {
					*lit += st.Field(k).Name() + ":"
				}
				ft := st.Field(k).Type()
				if _, isI := ft.Underlying().(*types.Interface); !isI {
					el = iface{t: ft, v: el}
				}
			}
			e.fmtValue(fr, verb, flags, el, out, lit)
		}
		*lit += "}"
	case *amap:
		// maps print in sorted key order; only concrete string keys are supported
		*lit += "map["
		if x != nil {
			var keys []string
			vals := map[string]value{}
			if x.len() == 1 {
				// a single entry needs no ordering: its key may be symbolic
				for _, en := range x.ents {
					if en.dead {
						continue
					}
					e.fmtValue(fr, verb, flags, en.k, out, lit)
					*lit += ":"
					e.fmtValue(fr, verb, flags, en.v, out, lit)
				}
				*lit += "]"
				return
			}
			for _, en := range x.ents {
				if en.dead {
					continue
				}
				ks, ok := en.k.(string)
				if !ok {
					panic(abortPath{why: "fmt of map with non-literal keys", kind: "unsupported"})
				}
				keys = append(keys, ks)
				vals[ks] = en.v
			}
			sortStrings(keys)
			for k, ks := range keys {
				if k > 0 {
					*lit += " "
				}
				*lit += ks + ":"
				e.fmtValue(fr, verb, flags, vals[ks], out, lit)
			}
		}
		*lit += "]"
	case rtype:
		*lit += x.t.String()
	default:
		panic(abortPath{why: fmt.Sprintf("fmt of %T", a), kind: "unsupported"})
	}
}

func sortStrings(a []string) {
	for i := 1; i < len(a); i++ {
		for j := i; j > 0 && a[j] < a[j-1]; j-- {
			a[j], a[j-1] = a[j-1], a[j]
		}
	}
}

func (e *Exec) sprintf(fr *frame, format value, args []value) value {
	fs, ok := format.(string)
	if !ok {
		panic(abortPath{why: "symbolic format string", kind: "unsupported"})
	}
	var out []piece
	ai := 0
	lit := ""
	for k := 0; k < len(fs); k++ {
		c := fs[k]
		if c != '%' {
			lit += string(c)
			continue
		}
		k++
		if k >= len(fs) {
			lit += "%!(NOVERB)"
			break
		}
		flags := ""
		for k < len(fs) && strings.IndexByte("+-# 0123456789.", fs[k]) >= 0 {
			flags += string(fs[k])
			k++
		}
		verb := fs[k]
		if verb == '%' {
			lit += "%"
			continue
		}
		if ai >= len(args) {
			lit += "%!" + string(verb) + "(MISSING)"
			continue
		}
		a := args[ai]
		ai++
		e.fmtValue(fr, verb, flags, a, &out, &lit)
	}
	if ai < len(args) {
		lit += "%!(EXTRA)"
	}
	if lit != "" {
		out = append(out, piece{k: pLit, lit: lit})
	}
	return ropeVal(symStr{p: normRope(out)})
}

func (e *Exec) sprint(fr *frame, args []value, ln bool) value {
	var out []piece
	lit := ""
	for k, a := range args {
		if k > 0 && ln {
			lit += " "
		}
		e.fmtValue(fr, 'v', "", a, &out, &lit)
	}
	if ln {
		lit += "\n"
	}
	if lit != "" {
		out = append(out, piece{k: pLit, lit: lit})
	}
	return ropeVal(symStr{p: normRope(out)})
}

// ---- native function table: pure std functions executed natively when all arguments are concrete ----

var nativeFuncs = map[string]interface{}{
	"strings.ToLower":      strings.ToLower,
	"strings.ToUpper":      strings.ToUpper,
	"strings.EqualFold":    strings.EqualFold,
	"strings.Contains":     strings.Contains,
	"strings.ContainsAny":  strings.ContainsAny,
	"strings.ContainsRune": strings.ContainsRune,
	"strings.HasPrefix":    strings.HasPrefix,
	"strings.HasSuffix":    strings.HasSuffix,
	"strings.Index":        strings.Index,
	"strings.IndexByte":    strings.IndexByte,
	"strings.IndexAny":     strings.IndexAny,
	"strings.LastIndex":    strings.LastIndex,
	"strings.Split":        strings.Split,
	"strings.SplitN":       strings.SplitN,
	"strings.Join":         strings.Join,
	"strings.TrimSpace":    strings.TrimSpace,
	"strings.Trim":         strings.Trim,
	"strings.TrimLeft":     strings.TrimLeft,
	"strings.TrimRight":    strings.TrimRight,
	"strings.TrimPrefix":   strings.TrimPrefix,
	"strings.TrimSuffix":   strings.TrimSuffix,
	"strings.Repeat":       strings.Repeat,
	"strings.Replace":      strings.Replace,
	"strings.ReplaceAll":   strings.ReplaceAll,
	"strings.Count":        strings.Count,
	"strings.Fields":       strings.Fields,
	"strings.Compare":      strings.Compare,
	"strings.Title":        strings.Title,
	"bytes.Equal":          bytes.Equal,
	"bytes.Compare":        bytes.Compare,
	"bytes.Contains":       bytes.Contains,
	"bytes.Index":          bytes.Index,
	"bytes.IndexByte":      bytes.IndexByte,
	"bytes.HasPrefix":      bytes.HasPrefix,
	"bytes.HasSuffix":      bytes.HasSuffix,
	"bytes.Trim":           bytes.Trim,
	"bytes.TrimSpace":      bytes.TrimSpace,
	"bytes.ToLower":        bytes.ToLower,
	"bytes.Split":          bytes.Split,
	"strconv.Itoa":         strconv.Itoa,
	"strconv.FormatInt":    strconv.FormatInt,
	"strconv.FormatUint":   strconv.FormatUint,
	"strconv.FormatFloat":  strconv.FormatFloat,
	"strconv.FormatBool":   strconv.FormatBool,
	"strconv.Quote":        strconv.Quote,
	"unicode.IsSpace":      unicode.IsSpace,
	"unicode.IsDigit":      unicode.IsDigit,
	"unicode.IsLetter":     unicode.IsLetter,
	"unicode.IsUpper":      unicode.IsUpper,
	"unicode.IsLower":      unicode.IsLower,
	"unicode.ToLower":      unicode.ToLower,
	"unicode.ToUpper":      unicode.ToUpper,
	"math.Floor":           math.Floor,
	"math.Ceil":            math.Ceil,
	"math.Trunc":           math.Trunc,
	"math.Pow":             math.Pow,
	"math.Mod":             math.Mod,
	"math.Max":             math.Max,
	"math.Round":           math.Round,
	"math.IsInf":           math.IsInf,
	"math.Signbit":         math.Signbit,
	"math.Modf":            math.Modf,
	"math.Log10":           math.Log10,
	"math.Log2":            math.Log2,
}

var symbolicStd = map[string]intrinsicFn{}

func toNative(v value, t reflect.Type) (reflect.Value, bool) {
	switch t.Kind() {
	case reflect.String:
		s, ok := v.(string)
		if !ok {
			return reflect.Value{}, false
		}
		return reflect.ValueOf(s), true
	case reflect.Slice:
		if t.Elem().Kind() == reflect.Uint8 {
			switch x := v.(type) {
			case []value:
				b := make([]byte, len(x))
				for i := range x {
					c, ok := x[i].(uint8)
					if !ok {
						return reflect.Value{}, false
					}
					b[i] = c
				}
				return reflect.ValueOf(b), true
			case symStr:
				return reflect.Value{}, false
			}
			return reflect.Value{}, false
		}
		x, ok := v.([]value)
		if !ok {
			return reflect.Value{}, false
		}
		out := reflect.MakeSlice(t, len(x), len(x))
		for i := range x {
			ev, ok := toNative(x[i], t.Elem())
			if !ok {
				return reflect.Value{}, false
			}
			out.Index(i).Set(ev)
		}
		return out, true
	case reflect.Int, reflect.Int64, reflect.Int32, reflect.Uint8, reflect.Uint64, reflect.Bool, reflect.Float64, reflect.Uint, reflect.Int8, reflect.Int16, reflect.Uint16, reflect.Uint32:
		rv := reflect.ValueOf(v)
		if !rv.IsValid() || isSym(v) {
			return reflect.Value{}, false
		}
		if rv.Type().ConvertibleTo(t) && rv.Kind() == t.Kind() {
			return rv.Convert(t), true
		}
		return reflect.Value{}, false
	}
	return reflect.Value{}, false
}

func fromNative(rv reflect.Value) value {
	switch rv.Kind() {
	case reflect.String:
		return rv.String()
	case reflect.Slice:
		if rv.IsNil() {
			return []value(nil)
		}
		out := make([]value, rv.Len())
		for i := range out {
			out[i] = fromNative(rv.Index(i))
		}
		return out
	case reflect.Int:
		return int(rv.Int())
	case reflect.Int64:
		return rv.Int()
	case reflect.Int32:
		return int32(rv.Int())
	case reflect.Uint8:
		return uint8(rv.Uint())
	case reflect.Uint64:
		return rv.Uint()
	case reflect.Bool:
		return rv.Bool()
	case reflect.Float64:
		return rv.Float()
	}
	panic(fmt.Sprintf("fromNative: %s", rv.Kind()))
}

func nativeWrapper(name string, f interface{}) intrinsicFn {
	fv := reflect.ValueOf(f)
	ft := fv.Type()
	return func(fr *frame, args []value) value {
		in := make([]reflect.Value, len(args))
		ok := len(args) == ft.NumIn()
		for i := 0; ok && i < len(args); i++ {
			in[i], ok = toNative(args[i], ft.In(i))
		}
		if !ok {
			if sf := symbolicStd[name]; sf != nil {
				return sf(fr, args)
			}
			panic(abortPath{why: "symbolic argument to " + name, kind: "unsupported"})
		}
		out := fv.Call(in)
		switch len(out) {
		case 0:
			return nil
		case 1:
			return fromNative(out[0])
		}
		t := make(tuple, len(out))
		for i := range out {
			t[i] = fromNative(out[i])
		}
		return t
	}
}

// ---- symbolic variants of string functions ----

func (e *Exec) lowerRope(r symStr, fn string) value {
	var out []piece
	for _, x := range r.p {
		switch x.k {
		case pLit:
			if fn == "lower" {
				out = append(out, piece{k: pLit, lit: strings.ToLower(x.lit)})
			} else {
				out = append(out, piece{k: pLit, lit: strings.ToUpper(x.lit)})
			}
		case pTok:
			t := "(" + fn + " " + x.t + ")"
			e.solver.lowerAxioms(fn, x.t)
			out = append(out, piece{k: pTok, t: t})
		case pItoa, pUtoa:
			out = append(out, x)
		case pByte:
			// ASCII letters only (bytes >= 0x80 belong to multi-byte runes whose case mapping is outside the model)
			e.Stats.Assumptions["case mapping of a symbolic byte maps ASCII letters and leaves every other byte as it is"] = true
			if fn == "lower" {
				out = append(out, piece{k: pByte, t: fmt.Sprintf("(ite (and (bvuge %s #x41) (bvule %s #x5a)) (bvadd %s #x20) %s)", x.t, x.t, x.t, x.t)})
			} else {
				out = append(out, piece{k: pByte, t: fmt.Sprintf("(ite (and (bvuge %s #x61) (bvule %s #x7a)) (bvsub %s #x20) %s)", x.t, x.t, x.t, x.t)})
			}
		default:
			panic(abortPath{why: "case mapping of symbolic float", kind: "unsupported"})
		}
	}
	return ropeVal(symStr{p: out})
}

func (s *Solver) lowerAxioms(fn, t string) {
	key := fn + " " + t
	if s.lowered[key] {
		return
	}
	s.lowered[key] = true
	ap := "(" + fn + " " + t + ")"
	s.send(fmt.Sprintf("(assert (= (slen %s) (slen %s)))", ap, t))
	s.send(fmt.Sprintf("(assert (= (%s %s) %s))", fn, ap, ap))
	s.send(fmt.Sprintf("(assert (= (numeric %s) (numeric %s)))", ap, t))
	s.send(fmt.Sprintf("(assert (= (clean %s) (clean %s)))", ap, t))
	s.send(fmt.Sprintf("(assert (>= (litid %s) 0))", ap))
	s.send(fmt.Sprintf("(assert (=> (= (slen %s) #x0000000000000000) (= %s str_empty)))", ap, ap))
	// the two case mappings agree: lower(upper(t)) = lower(t), upper(lower(t)) = upper(t)
	s.send(fmt.Sprintf("(assert (= (lower (upper %s)) (lower %s)))", t, t))
	s.send(fmt.Sprintf("(assert (= (upper (lower %s)) (upper %s)))", t, t))
}

func init() {
	symbolicStd["strings.ToLower"] = func(fr *frame, args []value) value {
		return fr.i.ex.lowerRope(toRope(args[0]), "lower")
	}
	// strings.ContainsAny(s, chars) with a symbolic s and concrete chars: literal pieces are inspected;
	// CR/LF is the clean attribute of a token; the characters that open a glob wildcard or class
	// (* ? [) never occur in an opaque token (patterns with wildcards are given as literals, and the
	// realisation of a symbolic pattern uses an alternation {a,b}); single symbolic bytes are compared.
	symbolicStd["strings.ContainsAny"] = func(fr *frame, args []value) value {
		e := fr.i.ex
		chars, ok := args[1].(string)
		if !ok {
			panic(abortPath{why: "strings.ContainsAny with symbolic character set", kind: "unsupported"})
		}
		var acc value = false
		for _, x := range normRope(toRope(args[0]).p) {
			switch x.k {
			case pLit:
				if strings.ContainsAny(x.lit, chars) {
					return true
				}
			case pItoa, pUtoa:
				if strings.ContainsAny("0123456789-", chars) {
					panic(abortPath{why: "strings.ContainsAny of digits in a rendered number", kind: "unsupported"})
				}
			case pByte:
				for k := 0; k < len(chars); k++ {
					acc = symOr(acc, symBool{fmt.Sprintf("(= %s #x%02x)", x.t, chars[k])})
				}
			case pTok:
				switch {
				case strings.Trim(chars, "\r\n") == "":
					acc = symOr(acc, symBool{"(not (clean " + x.t + "))"})
				case strings.Contains(chars, "*") && strings.Contains(chars, "?") && strings.Contains(chars, "[") && strings.Contains(chars, "{") && strings.Trim(chars, "*?[]{}\\!^,") == "":
					// "does it contain a glob metacharacter" is the predicate the glob model keeps per token
					// (a token that is not metafree is realised with an alternation {..} or a *)
					e.solver.declareFun("metafree", "(Str) Bool")
					acc = symOr(acc, symBool{"(not (metafree " + x.t + "))"})
				case strings.Trim(chars, "*?[") == "":
					e.Stats.Assumptions["opaque tokens contain none of the glob characters * ? [ (patterns with wildcards are literals; symbolic patterns are realised as alternations)"] = true
				default:
					panic(abortPath{why: "strings.ContainsAny(" + chars + ") of an opaque token", kind: "unsupported"})
				}
			default:
				panic(abortPath{why: "strings.ContainsAny of a rendered float", kind: "unsupported"})
			}
		}
		return acc
	}
	symbolicStd["strings.ToUpper"] = func(fr *frame, args []value) value {
		return fr.i.ex.lowerRope(toRope(args[0]), "upper")
	}
	symbolicStd["strings.EqualFold"] = func(fr *frame, args []value) value {
		e := fr.i.ex
		// byte-transparent operands: compare byte by byte, folding ASCII letters
		{
			ra, rb := toRope(args[0]), toRope(args[1])
			na, oka := concreteLen(ra.p)
			nb, okb := concreteLen(rb.p)
			hasByte := func(r symStr) bool {
				for _, x := range r.p {
					if x.k == pByte {
						return true
					}
				}
				return false
			}
			if oka && okb && (hasByte(ra) || hasByte(rb)) {
				if na != nb {
					return false
				}
				var acc value = true
				for i := 0; i < na; i++ {
					x, y := ropeIndex(ra, i), ropeIndex(rb, i)
					xc, xIsC := x.(uint8)
					yc, yIsC := y.(uint8)
					switch {
					case xIsC && yIsC:
						if !strings.EqualFold(string(rune(xc)), string(rune(yc))) {
							return false
						}
					case xIsC || yIsC:
						c, sv := xc, y
						if yIsC {
							c, sv = yc, x
						}
						t, _ := bvTerm(sv)
						lo, up := strings.ToLower(string(rune(c)))[0], strings.ToUpper(string(rune(c)))[0]
						if lo == up {
							acc = symAnd(acc, symBool{"(= " + t + " " + bvConst(int64(c), 8) + ")"})
						} else {
							acc = symAnd(acc, symBool{"(or (= " + t + " " + bvConst(int64(lo), 8) + ") (= " + t + " " + bvConst(int64(up), 8) + "))"})
						}
					default:
						// both symbolic: equal, or equal after folding (ASCII letters only)
						tx, _ := bvTerm(x)
						ty, _ := bvTerm(y)
						fold := func(t string) string {
							return "(ite (and (bvuge " + t + " #x41) (bvule " + t + " #x5a)) (bvor " + t + " #x20) " + t + ")"
						}
						acc = symAnd(acc, symBool{"(= " + fold(tx) + " " + fold(ty) + ")"})
					}
				}
				return acc
			}
		}
		a := e.lowerRope(toRope(args[0]), "lower")
		b := e.lowerRope(toRope(args[1]), "lower")
		return e.ropeEq(toRope(a), toRope(b))
	}
	symbolicStd["strings.HasPrefix"] = func(fr *frame, args []value) value {
		e := fr.i.ex
		s, p := toRope(args[0]), toRope(args[1])
		pn, ok := concreteLen(p.p)
		if !ok {
			panic(abortPath{why: "HasPrefix with opaque prefix", kind: "unsupported"})
		}
		if pn == 0 {
			return true
		}
		// take the concrete-length prefix of s
		pre := 0
		for _, x := range s.p {
			if x.k == pLit {
				pre += len(x.lit)
			} else if x.k == pByte {
				pre++
			} else {
				break
			}
		}
		if pre >= pn {
			return e.ropeEq(ropeSlice(s, 0, pn, false), p)
		}
		if n, ok := concreteLen(s.p); ok && n < pn {
			return false
		}
		// prefix reaches into an opaque piece: s = lit ++ tok...; prefix longer than lit.
		// Decide using an uninterpreted predicate per (token, literal): hasprefix.
		if len(s.p) >= 1 {
			sp := normRope(s.p)
			if pl, ok := p.p[0], len(p.p) == 1 && p.p[0].k == pLit; ok {
				lead := ""
				rest := sp
				if sp[0].k == pLit {
					lead = sp[0].lit
					rest = sp[1:]
				}
				if !strings.HasPrefix(pl.lit, lead) {
					return false
				}
				need := pl.lit[len(lead):]
				if len(rest) >= 1 && rest[0].k == pTok {
					return symBool{e.hasPrefixTerm(rest[0].t, need)}
				}
				if len(rest) >= 1 && (rest[0].k == pItoa || rest[0].k == pUtoa || rest[0].k == pFtoa) {
					panic(abortPath{why: "HasPrefix into rendered number", kind: "unsupported"})
				}
			}
		}
		panic(abortPath{why: "HasPrefix on opaque string", kind: "unsupported"})
	}
	symbolicStd["strings.Contains"] = func(fr *frame, args []value) value {
		e := fr.i.ex
		s, sub := toRope(args[0]), toRope(args[1])
		if n, ok := concreteLen(sub.p); ok && n == 0 {
			return true
		}
		// byte-transparent operands: unroll
		ns, oks := concreteLen(s.p)
		nsub, oksub := concreteLen(sub.p)
		if oks && oksub {
			if nsub > ns {
				return false
			}
			var acc value = false
			for off := 0; off+nsub <= ns; off++ {
				acc = symOr(acc, e.ropeEq(ropeSlice(s, off, off+nsub, false), sub))
			}
			return acc
		}
		if lit, ok := args[1].(string); ok {
			return e.containsLit(s, lit)
		}
		panic(abortPath{why: "strings.Contains on opaque strings", kind: "unsupported"})
	}
	symbolicStd["strings.Join"] = func(fr *frame, args []value) value {
		elems := args[0].([]value)
		sep := toRope(args[1])
		var out symStr
		for k, el := range elems {
			if k > 0 {
				out.p = append(out.p, sep.p...)
			}
			out.p = append(out.p, toRope(el).p...)
		}
		return ropeVal(out)
	}
	symbolicStd["strings.TrimSpace"] = func(fr *frame, args []value) value {
		// tokens are assumed not to begin/end with white space
		fr.i.ex.Stats.Assumptions["strings.TrimSpace on an opaque token returns it unchanged (tokens have no leading/trailing white space)"] = true
		return args[0]
	}
	symbolicStd["strings.Repeat"] = func(fr *frame, args []value) value {
		n, ok := args[1].(int)
		if !ok {
			panic(abortPath{why: "strings.Repeat with symbolic count", kind: "unsupported"})
		}
		r := toRope(args[0])
		var out symStr
		for k := 0; k < n; k++ {
			out.p = append(out.p, r.p...)
		}
		return ropeVal(out)
	}
	symbolicStd["bytes.Equal"] = func(fr *frame, args []value) value {
		return fr.i.ex.ropeEq(toRope(args[0]), toRope(args[1]))
	}
	symbolicStd["strconv.Itoa"] = func(fr *frame, args []value) value {
		a := args[0].(symBV)
		return symStr{p: []piece{{k: pItoa, t: a.t}}}
	}
	symbolicStd["strconv.FormatInt"] = func(fr *frame, args []value) value {
		a, ok := args[0].(symBV)
		if b, okb := args[1].(int); !ok || !okb || b != 10 {
			panic(abortPath{why: "FormatInt base", kind: "unsupported"})
		}
		return symStr{p: []piece{{k: pItoa, t: a.t}}}
	}
	symbolicStd["strconv.FormatUint"] = func(fr *frame, args []value) value {
		a, ok := args[0].(symBV)
		if b, okb := args[1].(int); !ok || !okb || b != 10 {
			panic(abortPath{why: "FormatUint base", kind: "unsupported"})
		}
		return symStr{p: []piece{{k: pUtoa, t: a.t}}}
	}
	symbolicStd["strconv.FormatFloat"] = func(fr *frame, args []value) value {
		a, ok := args[0].(symFP)
		c, okc := args[1].(uint8)
		p, okp := args[2].(int)
		if !ok || !okc || !okp || p != -1 {
			panic(abortPath{why: "FormatFloat with precision", kind: "unsupported"})
		}
		return symStr{p: []piece{{k: pFtoa, t: a.t, fmtc: c}}}
	}
}

// hasPrefixTerm: uninterpreted predicate "token starts with literal".
func (e *Exec) hasPrefixTerm(tok, lit string) string {
	e.solver.declareFun("hasprefix", "(Str Str) Bool")
	l := e.solver.lit(lit)
	key := "hp " + tok + " " + l
	if !e.solver.lowered[key] {
		e.solver.lowered[key] = true
		e.solver.send(fmt.Sprintf("(assert (=> (hasprefix %s %s) (bvuge (slen %s) %s)))", tok, l, tok, bvConst(int64(len(lit)), 64)))
	}
	return "(hasprefix " + tok + " " + l + ")"
}

// containsLit: does the rope contain the literal? Literal pieces are searched natively; an opaque
// token contributes an uninterpreted predicate; matches straddling piece borders are ignored when the
// literal is a single byte (exact), otherwise unsupported.
func (e *Exec) containsLit(s symStr, lit string) value {
	var acc value = false
	for _, x := range s.p {
		switch x.k {
		case pLit:
			if strings.Contains(x.lit, lit) {
				return true
			}
		case pTok:
			if lit == "\r" || lit == "\n" || lit == "\r\n" {
				acc = symOr(acc, symBool{"(not (clean " + x.t + "))"})
				if lit != "\r\n" {
					continue
				}
				continue
			}
			e.solver.declareFun("contains", "(Str Str) Bool")
			acc = symOr(acc, symBool{"(contains " + x.t + " " + e.solver.lit(lit) + ")"})
		case pByte:
			if len(lit) == 1 {
				acc = symOr(acc, symBool{"(= " + x.t + " " + bvConst(int64(lit[0]), 8) + ")"})
			} else {
				panic(abortPath{why: "Contains multi-byte literal over symbolic bytes", kind: "unsupported"})
			}
		case pItoa, pUtoa, pFtoa:
			// digits, '-', '.', 'e', '+', "Inf", "NaN": a literal made of other bytes cannot occur
			if strings.ContainsAny(lit, "0123456789-+.eInfNa") {
				panic(abortPath{why: "Contains over rendered number", kind: "unsupported"})
			}
		}
	}
	if len(lit) > 1 && len(s.p) > 1 {
		// straddling matches are possible in principle
		e.Stats.Assumptions["strings.Contains over a composite rope ignores matches straddling piece borders"] = true
	}
	return acc
}

func (s *Solver) declareFun(name, sig string) {
	if _, ok := s.declared["fun:"+name]; ok {
		return
	}
	s.declared["fun:"+name] = sig
	i := strings.LastIndex(sig, ")")
	s.send(fmt.Sprintf("(declare-fun %s %s %s)", name, sig[:i+1], strings.TrimSpace(sig[i+1:])))
}

// ---- strconv parsing ----

func (e *Exec) parseIntRope(fr *frame, s value, bitSize int, fname string) value {
	mkErr := func() value {
		return fr.i.newError(fr, "strconv."+fname+": parsing: invalid syntax")
	}
	switch a := s.(type) {
	case string:
		n, err := strconv.ParseInt(a, 10, bitSize)
		if err != nil {
			return tuple{n, fr.i.newError(fr, err.Error())}
		}
		return tuple{n, nilErr()}
	case symStr:
		p := normRope(a.p)
		if len(p) == 1 && p[0].k == pItoa {
			if bitSize == 64 || bitSize == 0 {
				return tuple{symBV{p[0].t, 64}, nilErr()}
			}
			// range check for smaller sizes
			lim := int64(1) << uint(bitSize-1)
			in := fmt.Sprintf("(and (bvsge %s %s) (bvslt %s %s))", p[0].t, bvConst(-lim, 64), p[0].t, bvConst(lim, 64))
			if e.decide(in) {
				return tuple{symBV{p[0].t, 64}, nilErr()}
			}
			return tuple{int64(0), mkErr()}
		}
		if len(p) == 1 && p[0].k == pUtoa {
			// fits int64?
			if e.decide("(bvsge " + p[0].t + " " + bvConst(0, 64) + ")") {
				return tuple{symBV{p[0].t, 64}, nilErr()}
			}
			return tuple{int64(math.MaxInt64), mkErr()}
		}
		if len(p) == 1 && p[0].k == pTok {
			e.assumeNotNumeric(p[0].t)
			return tuple{int64(0), mkErr()}
		}
		if len(p) == 1 && p[0].k == pFtoa {
			// a rendered float parses as an int only if it has no '.', 'e', Inf, NaN: treat as
			// non-integer syntax unless integral & small — unsupported to stay exact
			panic(abortPath{why: "ParseInt of rendered float", kind: "unsupported"})
		}
		// composite: a number needs every piece to be digits; a composite with a token is non-numeric
		for _, x := range p {
			if x.k == pTok {
				e.Stats.Assumptions["a string built from an opaque token and other text is not numeric"] = true
				return tuple{int64(0), mkErr()}
			}
		}
		if e.cannotBeNumeric(p) {
			return tuple{int64(0), mkErr()}
		}
		panic(abortPath{why: "ParseInt of composite symbolic string", kind: "unsupported"})
	}
	panic(fmt.Sprintf("parseInt: %T", s))
}

// cannotBeNumeric: the string provably does not start like a number (digit, sign, '.', inf, nan).
func (e *Exec) cannotBeNumeric(p []piece) bool {
	if len(p) == 0 {
		return true
	}
	switch p[0].k {
	case pLit:
		c := p[0].lit[0]
		return !(c >= '0' && c <= '9' || strings.IndexByte("+-.iInN", c) >= 0)
	case pByte:
		b := p[0].t
		start := "(or (and (bvuge " + b + " #x30) (bvule " + b + " #x39)) (= " + b + " #x2b) (= " + b + " #x2d) (= " + b + " #x2e) (= " + b + " #x69) (= " + b + " #x49) (= " + b + " #x6e) (= " + b + " #x4e))"
		return e.valid("(not " + start + ")")
	}
	return false
}

func (e *Exec) assumeNotNumeric(tok string) {
	e.Stats.Assumptions["opaque tokens passed to number parsers are non-numeric (numeric strings are covered by rendered-number pieces and literals)"] = true
	if e.decide("(numeric " + tok + ")") {
		panic(abortPath{why: "numeric token", kind: "assume"})
	}
}

func (e *Exec) parseFloatRope(fr *frame, s value) value {
	switch a := s.(type) {
	case string:
		f, err := strconv.ParseFloat(a, 64)
		if err != nil {
			return tuple{f, fr.i.newError(fr, err.Error())}
		}
		return tuple{f, nilErr()}
	case symStr:
		p := normRope(a.p)
		if len(p) == 1 {
			switch p[0].k {
			case pFtoa:
				return tuple{symFP{p[0].t}, nilErr()}
			case pItoa:
				return tuple{symFP{"((_ to_fp 11 53) RNE " + p[0].t + ")"}, nilErr()}
			case pUtoa:
				return tuple{symFP{"((_ to_fp_unsigned 11 53) RNE " + p[0].t + ")"}, nilErr()}
			case pTok:
				e.assumeNotNumeric(p[0].t)
				return tuple{float64(0), fr.i.newError(fr, "strconv.ParseFloat: parsing: invalid syntax")}
			}
		}
		for _, x := range p {
			if x.k == pTok {
				e.Stats.Assumptions["a string built from an opaque token and other text is not numeric"] = true
				return tuple{float64(0), fr.i.newError(fr, "strconv.ParseFloat: parsing: invalid syntax")}
			}
		}
		if e.cannotBeNumeric(p) {
			return tuple{float64(0), fr.i.newError(fr, "strconv.ParseFloat: parsing: invalid syntax")}
		}
		panic(abortPath{why: "ParseFloat of composite symbolic string", kind: "unsupported"})
	}
	panic(fmt.Sprintf("parseFloat: %T", s))
}

func init() {
	noop := func(fr *frame, args []value) value { return nil }
	for _, n := range []string{
		"log.Printf", "log.Println", "log.Print", "fmt.Println", "fmt.Printf", "fmt.Print",
		"(*log.Logger).Printf", "(*log.Logger).Println", "(*log.Logger).Print",
		"runtime.GC", "runtime.Gosched", "runtime/debug.FreeOSMemory", "log.SetOutput", "log.SetFlags",
		"runtime.SetFinalizer", "runtime.KeepAlive",
	} {
		intrinsics[n] = noop
	}
	// Mutexes: real exclusion semantics on the cooperative scheduler (a side table keyed by the
	// address of the mutex). With one thread nothing ever blocks; with several, a thread that
	// finds the lock taken lets the others run, and a cycle of waiters is reported as a deadlock.
	lock := func(fr *frame, args []value) value {
		m := fr.i.mutex(args[0].(*value))
		fr.i.schedPoint(true)
		fr.i.blockUntil(func() bool { return !m.writer && m.readers == 0 }, "Mutex.Lock")
		m.writer = true
		return nil
	}
	unlock := func(fr *frame, args []value) value {
		m := fr.i.mutex(args[0].(*value))
		if !m.writer {
			panic(targetPanic{iface{t: types.Typ[types.String], v: "sync: unlock of unlocked mutex"}})
		}
		m.writer = false
		fr.i.progress++
		return nil
	}
	trylock := func(fr *frame, args []value) value {
		m := fr.i.mutex(args[0].(*value))
		if m.writer || m.readers != 0 {
			return false
		}
		m.writer = true
		return true
	}
	intrinsics["(*sync.Mutex).Lock"] = lock
	intrinsics["(*sync.Mutex).Unlock"] = unlock
	intrinsics["(*sync.Mutex).TryLock"] = trylock
	intrinsics["(*sync.RWMutex).Lock"] = lock
	intrinsics["(*sync.RWMutex).Unlock"] = unlock
	intrinsics["(*sync.RWMutex).TryLock"] = trylock
	intrinsics["(*sync.RWMutex).RLock"] = func(fr *frame, args []value) value {
		m := fr.i.mutex(args[0].(*value))
		fr.i.schedPoint(true)
		fr.i.blockUntil(func() bool { return !m.writer }, "RWMutex.RLock")
		m.readers++
		return nil
	}
	intrinsics["(*sync.RWMutex).RUnlock"] = func(fr *frame, args []value) value {
		m := fr.i.mutex(args[0].(*value))
		if m.readers <= 0 {
			panic(targetPanic{iface{t: types.Typ[types.String], v: "sync: RUnlock of unlocked RWMutex"}})
		}
		m.readers--
		fr.i.progress++
		return nil
	}
	intrinsics["(*sync.WaitGroup).Add"] = func(fr *frame, args []value) value {
		p := args[0].(*value)
		fr.i.wgCount()[p] += int(asInt64(args[1]))
		fr.i.progress++
		return nil
	}
	intrinsics["(*sync.WaitGroup).Done"] = func(fr *frame, args []value) value {
		p := args[0].(*value)
		fr.i.wgCount()[p]--
		fr.i.progress++
		return nil
	}
	intrinsics["(*sync.WaitGroup).Wait"] = func(fr *frame, args []value) value {
		p := args[0].(*value)
		fr.i.blockUntil(func() bool { return fr.i.wgCount()[p] <= 0 }, "WaitGroup.Wait")
		return nil
	}
	intrinsics["(*sync.Once).Do"] = func(fr *frame, args []value) value {
		o := args[0].(*value)
		st := (*o).(structure)
		// field 0 is done (atomic.Uint32 or uint32 depending on version): use a side table
		if fr.i.onceDone == nil {
			fr.i.onceDone = map[*value]bool{}
		}
		_ = st
		if fr.i.onceDone[o] {
			return nil
		}
		fr.i.onceDone[o] = true
		call(fr.i, fr, token.NoPos, args[1], nil)
		return nil
	}
	fatal := func(fr *frame, args []value) value {
		if os.Getenv("SYMGO_DEBUG_FATAL") != "" {
			fmt.Fprintf(os.Stderr, "FATAL args: %#v\n", args)
			if l, ok := args[0].([]value); ok {
				for _, a := range l {
					if x, ok := a.(iface); ok {
						fmt.Fprintf(os.Stderr, "  type %v", x.t)
						if p, ok := x.v.(*value); ok && p != nil {
							fmt.Fprintf(os.Stderr, "  val %#v", *p)
						}
						fmt.Fprintln(os.Stderr)
					}
				}
			}
		}
		panic(targetPanic{iface{t: types.Typ[types.String], v: "verif: process exit (log.Fatal/os.Exit)"}})
	}
	for _, n := range []string{"log.Fatal", "log.Fatalf", "log.Fatalln", "os.Exit", "log.Panicf", "log.Panic"} {
		intrinsics[n] = fatal
	}
	intrinsics["fmt.Sprintf"] = func(fr *frame, args []value) value {
		return fr.i.ex.sprintf(fr, args[0], args[1].([]value))
	}
	intrinsics["fmt.Errorf"] = func(fr *frame, args []value) value {
		// %w is treated as %v (errors.Is/As on wrapped errors is not modelled)
		f, _ := args[0].(string)
		s := fr.i.ex.sprintf(fr, strings.ReplaceAll(f, "%w", "%v"), args[1].([]value))
		return fr.i.newError(fr, s)
	}
	intrinsics["fmt.Sprint"] = func(fr *frame, args []value) value {
		return fr.i.ex.sprint(fr, args[0].([]value), false)
	}
	intrinsics["fmt.Sprintln"] = func(fr *frame, args []value) value {
		return fr.i.ex.sprint(fr, args[0].([]value), true)
	}
	intrinsics["strconv.Atoi"] = func(fr *frame, args []value) value {
		r := fr.i.ex.parseIntRope(fr, args[0], 64, "Atoi").(tuple)
		switch n := r[0].(type) {
		case int64:
			r[0] = int(n)
		}
		return r
	}
	intrinsics["strconv.ParseInt"] = func(fr *frame, args []value) value {
		base, ok := args[1].(int)
		if !ok || (base != 10 && base != 0) {
			if s, ok := args[0].(string); ok && ok {
				n, err := strconv.ParseInt(s, base, args[2].(int))
				if err != nil {
					return tuple{n, fr.i.newError(fr, err.Error())}
				}
				return tuple{n, nilErr()}
			}
			panic(abortPath{why: "ParseInt base", kind: "unsupported"})
		}
		return fr.i.ex.parseIntRope(fr, args[0], args[2].(int), "ParseInt")
	}
	intrinsics["strconv.ParseUint"] = func(fr *frame, args []value) value {
		s, ok := args[0].(string)
		if !ok {
			r := fr.i.ex.parseIntRope(fr, args[0], 64, "ParseUint").(tuple)
			if sv, ok := r[0].(symBV); ok {
				if fr.i.ex.decide("(bvslt " + sv.t + " " + bvConst(0, 64) + ")") {
					return tuple{uint64(0), fr.i.newError(fr, "strconv.ParseUint: parsing: invalid syntax")}
				}
				return tuple{sv, r[1]}
			}
			return tuple{uint64(0), r[1]}
		}
		n, err := strconv.ParseUint(s, args[1].(int), args[2].(int))
		if err != nil {
			return tuple{n, fr.i.newError(fr, err.Error())}
		}
		return tuple{n, nilErr()}
	}
	intrinsics["strconv.ParseFloat"] = func(fr *frame, args []value) value {
		return fr.i.ex.parseFloatRope(fr, args[0])
	}
	intrinsics["strconv.ParseBool"] = func(fr *frame, args []value) value {
		s, ok := args[0].(string)
		if !ok {
			panic(abortPath{why: "ParseBool of symbolic string", kind: "unsupported"})
		}
		b, err := strconv.ParseBool(s)
		if err != nil {
			return tuple{b, fr.i.newError(fr, err.Error())}
		}
		return tuple{b, nilErr()}
	}
	intrinsics["context.WithValue"] = func(fr *frame, args []value) value {
		ctxPkg := fr.i.prog.ImportedPackage("context")
		vt := ctxPkg.Type("valueCtx").Type()
		var cell value = structure{args[0], args[1], args[2]}
		return iface{t: types.NewPointer(vt), v: &cell}
	}
	intrinsics["net.Dial"] = func(fr *frame, args []value) value {
		return tuple{iface{}, fr.i.newError(fr, "dial: network unreachable (stub)")}
	}
	intrinsics["math.IsNaN"] = func(fr *frame, args []value) value {
		switch x := args[0].(type) {
		case float64:
			return math.IsNaN(x)
		case symFP:
			return symBool{"(fp.isNaN " + x.t + ")"}
		}
		panic("IsNaN")
	}
	intrinsics["math.IsInf"] = func(fr *frame, args []value) value {
		sign, ok := args[1].(int)
		if !ok {
			panic(abortPath{why: "IsInf symbolic sign", kind: "unsupported"})
		}
		switch x := args[0].(type) {
		case float64:
			return math.IsInf(x, sign)
		case symFP:
			switch {
			case sign > 0:
				return symBool{"(and (fp.isInfinite " + x.t + ") (fp.isPositive " + x.t + "))"}
			case sign < 0:
				return symBool{"(and (fp.isInfinite " + x.t + ") (fp.isNegative " + x.t + "))"}
			}
			return symBool{"(fp.isInfinite " + x.t + ")"}
		}
		panic("IsInf")
	}
	intrinsics["math.Inf"] = func(fr *frame, args []value) value {
		return math.Inf(args[0].(int))
	}
	// rounding to an integral value: the SMT FloatingPoint theory has the operation for every mode
	for name, mode := range map[string]string{"math.Trunc": "RTZ", "math.Floor": "RTN", "math.Ceil": "RTP", "math.Round": "RNA", "math.RoundToEven": "RNE"} {
		name, mode := name, mode
		native := map[string]func(float64) float64{"math.Trunc": math.Trunc, "math.Floor": math.Floor, "math.Ceil": math.Ceil, "math.Round": math.Round, "math.RoundToEven": math.RoundToEven}[name]
		intrinsics[name] = func(fr *frame, args []value) value {
			switch x := args[0].(type) {
			case float64:
				return native(x)
			case symFP:
				return symFP{"(fp.roundToIntegral " + mode + " " + x.t + ")"}
			}
			panic(name)
		}
	}
	intrinsics["math.Signbit"] = func(fr *frame, args []value) value {
		switch x := args[0].(type) {
		case float64:
			return math.Signbit(x)
		case symFP:
			return symBool{"(fp.isNegative " + x.t + ")"}
		}
		panic("Signbit")
	}
	intrinsics["math.Abs"] = func(fr *frame, args []value) value {
		switch x := args[0].(type) {
		case float64:
			return math.Abs(x)
		case symFP:
			return symFP{"(fp.abs " + x.t + ")"}
		}
		panic("Abs")
	}
	intrinsics["math.Max"] = func(fr *frame, args []value) value {
		a, aok := args[0].(float64)
		b, bok := args[1].(float64)
		if aok && bok {
			return math.Max(a, b)
		}
		x, y := fpTerm(args[0]), fpTerm(args[1])
		return symFP{fmt.Sprintf("(ite (or (fp.isNaN %s) (fp.isNaN %s)) (_ NaN 11 53) (ite (fp.geq %s %s) %s %s))", x, y, x, y, x, y)}
	}
	intrinsics["math.Min"] = func(fr *frame, args []value) value {
		a, aok := args[0].(float64)
		b, bok := args[1].(float64)
		if aok && bok {
			return math.Min(a, b)
		}
		x, y := fpTerm(args[0]), fpTerm(args[1])
		return symFP{fmt.Sprintf("(ite (or (fp.isNaN %s) (fp.isNaN %s)) (_ NaN 11 53) (ite (fp.leq %s %s) %s %s))", x, y, x, y, x, y)}
	}
	// sort.Slice / sort.SliceStable / slices.SortFunc style helpers with interpreted comparators
	sortSlice := func(fr *frame, args []value) value {
		sl := args[0].(iface).v.([]value)
		less := args[1]
		// insertion sort (stable); comparator may fork
		for i := 1; i < len(sl); i++ {
			for j := i; j > 0; j-- {
				r := call(fr.i, fr, token.NoPos, less, []value{j, j - 1})
				if !fr.i.ex.decideVal(r) {
					break
				}
				sl[j], sl[j-1] = sl[j-1], sl[j]
			}
		}
		return nil
	}
	intrinsics["sort.Slice"] = sortSlice
	intrinsics["sort.SliceStable"] = sortSlice
	intrinsics["sort.Strings"] = func(fr *frame, args []value) value {
		sl := args[0].([]value)
		for i := 1; i < len(sl); i++ {
			for j := i; j > 0; j-- {
				r := binop(fr.i.ex, token.LSS, types.Typ[types.String], sl[j], sl[j-1])
				if !fr.i.ex.decideVal(r) {
					break
				}
				sl[j], sl[j-1] = sl[j-1], sl[j]
			}
		}
		return nil
	}
	intrinsics["math/rand.Intn"] = func(fr *frame, args []value) value {
		return fr.i.ex.randIntn(args[0], 64)
	}
	intrinsics["math/rand.Int63n"] = func(fr *frame, args []value) value {
		return fr.i.ex.randIntn(args[0], 64)
	}
	intrinsics["math/rand.Int31n"] = func(fr *frame, args []value) value {
		return fr.i.ex.randIntn(args[0], 32)
	}
	intrinsics["(*math/rand.Rand).Intn"] = func(fr *frame, args []value) value {
		return fr.i.ex.randIntn(args[1], 64)
	}
	intrinsics["math/rand.Shuffle"] = func(fr *frame, args []value) value {
		n, ok := args[0].(int)
		if !ok {
			panic(abortPath{why: "rand.Shuffle symbolic n", kind: "unsupported"})
		}
		for i := n - 1; i > 0; i-- {
			j := fr.i.ex.chooseFree(i + 1)
			call(fr.i, fr, token.NoPos, args[1], []value{i, j})
		}
		return nil
	}
	intrinsics["math/rand.Seed"] = noop
	intrinsics["math/rand.NewSource"] = func(fr *frame, args []value) value { return iface{} }
	intrinsics["math/rand.New"] = func(fr *frame, args []value) value { var c value = structure{}; return &c }
	intrinsics["(*strings.Builder).String"] = func(fr *frame, args []value) value {
		b := (*args[0].(*value)).(structure)
		// fields: addr *Builder, buf []byte
		return conv(fr.i.ex, types.Typ[types.String], types.NewSlice(types.Typ[types.Uint8]), b[1])
	}
	intrinsics["(*strings.Builder).copyCheck"] = noop
	intrinsics["(*strings.Builder).grow"] = noop
	intrinsics["(*strings.Builder).Grow"] = noop
	intrinsics["(*bytes.Buffer).String"] = func(fr *frame, args []value) value {
		p := args[0].(*value)
		if p == nil {
			return "<nil>"
		}
		b := (*p).(structure)
		buf := b[0]
		off := b[1].(int)
		s := slice(fr.i.ex, buf, off, nil, nil)
		return conv(fr.i.ex, types.Typ[types.String], types.NewSlice(types.Typ[types.Uint8]), s)
	}
	intrinsics["unicode/utf8.RuneCountInString"] = func(fr *frame, args []value) value {
		switch s := args[0].(type) {
		case string:
			return len([]rune(s))
		case symStr:
			fr.i.ex.Stats.Assumptions["symbolic strings are treated as single-byte-per-rune for utf8.RuneCountInString"] = true
			return ropeLen(s)
		}
		panic("RuneCountInString")
	}
}

type processExit struct{}

func (e *Exec) randIntn(n value, w int) value {
	if nn, ok := n.(int); ok && nn <= 0 {
		panic(targetPanic{iface{t: types.Typ[types.String], v: "invalid argument to Intn"}})
	}
	if sv, ok := n.(symBV); ok {
		if e.decide("(bvsle " + sv.t + " " + bvConst(0, sv.w) + ")") {
			panic(targetPanic{iface{t: types.Typ[types.String], v: "invalid argument to Intn"}})
		}
	}
	e.randDraws++
	if e.randDraws > e.maxRand {
		// never silent: a loop that keeps drawing may be a non-terminating retry loop
		panic(abortPath{why: fmt.Sprintf("more than %d random draws on one path (possible non-terminating retry loop)", e.maxRand), kind: "budget"})
	}
	name := e.freshName("r_rand")
	e.declare(name, fmt.Sprintf("(_ BitVec %d)", w))
	nt, _ := bvTerm(n)
	e.addPC("(and (bvsge " + name + " " + bvConst(0, w) + ") (bvslt " + name + " " + nt + "))")
	if w == 64 {
		if _, ok := n.(int); ok {
			return symBV{name, 64}
		}
	}
	return symBV{name, w}
}

