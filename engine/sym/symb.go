package sym

// Symbolic layer of symgo: symbolic scalars (sized bit-vectors, booleans, IEEE doubles),
// rope strings, the per-path executor (decision-vector re-execution) and the solver pipe.

import (
	"bufio"
	"fmt"
	"go/token"
	"go/types"
	"io"
	"math"
	"os/exec"
	"sort"
	"strconv"
	"strings"
	"time"
)

type symBV struct {
	t string // SMT term of sort (_ BitVec w)
	w int
}

// scaledTerm records an exact factorisation term == base * mul of a 64-bit term (valid while no
// overflow occurs; users add the range assumption). It keeps ms/s/ns time arithmetic linear.
type scaledTerm struct {
	base string
	mul  int64
}
type symBool struct{ t string } // Bool term
type symFP struct{ t string }   // (_ FloatingPoint 11 53) term

// timeVal is the engine's model of time.Time: nanoseconds since the Unix epoch
// (int64 or symBV/64); zeroTimeNS is the sentinel for the zero Time.
type timeVal struct{ ns value }

const zeroTimeNS = int64(math.MinInt64)

type pieceKind int

const (
	pLit  pieceKind = iota
	pTok            // t: term of sort Str
	pItoa           // t: BV64 term, rendered as signed decimal
	pUtoa           // t: BV64 term, rendered as unsigned decimal
	pFtoa           // t: FP term, rendered by strconv.FormatFloat(f,'f'/'g',-1,64); fmtc records the format
	pByte           // t: BV8 term, one byte
)

type piece struct {
	k    pieceKind
	lit  string
	t    string
	fmtc byte
	n    int // pTok only: fixed length known to the engine (0 = not fixed)
}

type symStr struct {
	p     []piece
	bytes bool // viewed as []byte
}

func isSym(v value) bool {
	switch v.(type) {
	case symBV, symBool, symStr, symFP:
		return true
	}
	return false
}

// ---- executor state (one per path run) ----

type abortPath struct {
	why  string
	kind string // "assume", "budget", "unsupported", "solver", "infeasible"
}

type Violation struct {
	Obligation string
	Msg        string
	Model      map[string]string // name -> concrete value (ints decimal, tokens as strings, floats)
	Path       []bool
	Known      string // non-empty: matches this known finding
}

type Stats struct {
	Paths, Queries, Asserts, Branches, Steps, Retries int
	SolverNS                                 int64
	Reached                                  map[string]int // label -> feasible paths that reached it
	AssertSites                              map[string]int // obligation -> times asserted
	NontrivialAsserts                        map[string]int // obligation -> times the negation was a real query
	Assumptions                              map[string]bool
}

type KnownRegion struct {
	Obligation string
	Region     string // SMT-LIB predicate over named inputs; "" = whole obligation
	What       string
	Status     string
}

type Exec struct {
	solver      *Solver
	prefix      []bool
	decisions   []bool
	pc          []string
	work        *[][]bool
	Viol        *[]Violation
	Stats       *Stats
	asserts     int
	maxDec      int
	maxSteps    int
	steps       int
	fresh       map[string]int
	names       []string // declared names used on this path (in order)
	nameSort    map[string]string
	known       []KnownRegion
	concrete    *ConcreteInputs // non-nil: concrete mode (self-test / replay in engine)
	observed    []string
	imprecise   bool
	deadline    time.Time
	maxMake     int
	mapOrderND  bool
	mapOrderMax int
	lastNow     string
	scaled      map[string]scaledTerm
	randDraws   int
	digests     []digestTerm
	schedND     bool
	schedPoints int
	jsonTimes    map[string]value  // token name -> nanosecond term of a rendered instant
	jsonTimeOf   map[string]string // nanosecond term -> token name
	jsonUnsorted bool              // JSON with symbolic map keys was emitted on this path
	globApps    [][2]string
	globCompiles []string // pattern terms handed to glob.Compile / MustCompile on this path
	maxRand     int
	maxCex      int
	tier        int
}

func (e *Exec) declare(name, sort string) {
	if e.nameSort == nil {
		e.nameSort = map[string]string{}
	}
	if _, ok := e.nameSort[name]; !ok {
		e.nameSort[name] = sort
		e.names = append(e.names, name)
	}
	e.solver.declare(name, sort)
}

func (e *Exec) freshName(prefix string) string {
	if e.fresh == nil {
		e.fresh = map[string]int{}
	}
	n := e.fresh[prefix]
	e.fresh[prefix] = n + 1
	return fmt.Sprintf("%s_%d", prefix, n)
}

func (e *Exec) check(extra ...string) string {
	e.Stats.Queries++
	var sb strings.Builder
	sb.WriteString("(push)\n")
	for _, c := range e.pc {
		sb.WriteString("(assert " + c + ")\n")
	}
	for _, c := range extra {
		sb.WriteString("(assert " + c + ")\n")
	}
	sb.WriteString("(check-sat)\n")
	t0 := time.Now()
	e.solver.send(sb.String())
	r := e.solver.readLine()
	if r == "unknown" && e.solver.baseMS > 0 {
		// a per-query timeout under machine load is not a verdict: ask once more with six times the limit
		e.Stats.Retries++
		e.solver.send("(pop)")
		e.solver.send(fmt.Sprintf("(set-option :timeout %d)", e.solver.baseMS*6))
		e.solver.send(sb.String())
		r = e.solver.readLine()
		e.solver.send(fmt.Sprintf("(set-option :timeout %d)", e.solver.baseMS))
	}
	e.Stats.SolverNS += time.Since(t0).Nanoseconds()
	return r
}
func (e *Exec) pop() { e.solver.send("(pop)") }

func (e *Exec) addPC(c string) { e.pc = append(e.pc, c) }

// decide returns the branch direction for symbolic condition c.
func (e *Exec) decide(c string) bool {
	e.Stats.Branches++
	if c == "true" {
		return true
	}
	if c == "false" {
		return false
	}
	if len(e.decisions) >= e.maxDec {
		panic(abortPath{why: fmt.Sprintf("decision budget %d exhausted", e.maxDec), kind: "budget"})
	}
	i := len(e.decisions)
	if i < len(e.prefix) {
		d := e.prefix[i]
		e.decisions = append(e.decisions, d)
		if d {
			e.pc = append(e.pc, c)
		} else {
			e.pc = append(e.pc, "(not "+c+")")
		}
		return d
	}
	if !e.deadline.IsZero() && time.Now().After(e.deadline) {
		panic(abortPath{why: "obligation wall-clock budget exhausted", kind: "budget"})
	}
	rt := e.check(c)
	e.pop()
	rf := e.check("(not " + c + ")")
	e.pop()
	if rt != "sat" && rt != "unsat" || rf != "sat" && rf != "unsat" {
		panic(abortPath{why: "solver answered " + rt + "/" + rf + " on branch " + trunc(c, 200), kind: "solver"})
	}
	switch {
	case rt == "sat" && rf == "sat":
		alt := append(append([]bool{}, e.decisions...), false)
		*e.work = append(*e.work, alt)
		e.decisions = append(e.decisions, true)
		e.pc = append(e.pc, c)
		return true
	case rt == "sat":
		// forced: not a decision (keeps vectors short); record the fact for speed of later queries
		e.pc = append(e.pc, c)
		e.decisions = append(e.decisions, true)
		return true
	case rf == "sat":
		e.pc = append(e.pc, "(not "+c+")")
		e.decisions = append(e.decisions, false)
		return false
	}
	panic(abortPath{why: "infeasible path", kind: "infeasible"})
}

// decideVal branches on a Go-level boolean value (bool or symBool).
func (e *Exec) decideVal(v value) bool {
	switch v := v.(type) {
	case bool:
		return v
	case symBool:
		return e.decide(v.t)
	}
	panic(fmt.Sprintf("decideVal: %T", v))
}

// valid reports whether c holds on every model of the path condition (no fork).
func (e *Exec) valid(c string) bool {
	r := e.check("(not " + c + ")")
	e.pop()
	if r != "sat" && r != "unsat" {
		panic(abortPath{why: "solver answered " + r, kind: "solver"})
	}
	return r == "unsat"
}

func trunc(s string, n int) string {
	if len(s) > n {
		return s[:n] + "..."
	}
	return s
}

func (e *Exec) assertProp(c value, oblig string) {
	e.Stats.Asserts++
	e.Stats.AssertSites[oblig]++
	switch c := c.(type) {
	case bool:
		if !c {
			e.reportViolation(oblig, "")
		}
	case symBool:
		e.Stats.NontrivialAsserts[oblig]++
		neg := "(not " + c.t + ")"
		// known regions of this obligation
		var regs []KnownRegion
		for _, k := range e.known {
			if k.Obligation == oblig && k.Status != "fixed" {
				regs = append(regs, k)
			}
		}
		extra := []string{neg}
		for _, k := range regs {
			if r, ok := e.regionTerm(k.Region); ok {
				extra = append(extra, "(not "+r+")")
			}
		}
		r := e.check(extra...)
		if r == "sat" {
			m := e.model()
			e.pop()
			e.recordViolation(oblig, m, "")
		} else {
			e.pop()
			if r != "unsat" {
				panic(abortPath{why: "solver answered " + r + " on assertion " + oblig, kind: "solver"})
			}
		}
		for _, k := range regs {
			rt, ok := e.regionTerm(k.Region)
			if !ok {
				continue
			}
			r := e.check(neg, rt)
			if r == "sat" {
				m := e.model()
				e.pop()
				e.recordViolation(oblig, m, k.What)
			} else {
				e.pop()
			}
		}
		// continue under the assumption that it held
		if !e.valid(c.t) {
			if e.check(c.t) != "sat" {
				e.pop()
				panic(abortPath{why: "assertion fails on every continuation", kind: "assume"})
			}
			e.pop()
			e.pc = append(e.pc, c.t)
		}
	default:
		panic(fmt.Sprintf("assertProp: %T", c))
	}
}

// regionTerm returns the SMT predicate of a region if all its free names are declared on this path.
func (e *Exec) regionTerm(region string) (string, bool) {
	if region == "" {
		return "true", true
	}
	// (lit "text") names the literal string constant
	for {
		i := strings.Index(region, "(lit \"")
		if i < 0 {
			break
		}
		j := strings.Index(region[i+6:], "\")")
		if j < 0 {
			break
		}
		region = region[:i] + e.solver.lit(region[i+6:i+6+j]) + region[i+6+j+2:]
	}
	for _, w := range strings.FieldsFunc(region, func(r rune) bool { return r == '(' || r == ')' || r == ' ' }) {
		if strings.HasPrefix(w, "i_") || strings.HasPrefix(w, "s_") || strings.HasPrefix(w, "b_") || strings.HasPrefix(w, "f_") || strings.HasPrefix(w, "c_") {
			if _, ok := e.nameSort[w]; !ok {
				return "", false
			}
		}
	}
	return region, true
}

func (e *Exec) reportViolation(oblig, knownWhat string) {
	// concrete falsity on this path: any model of the path condition is a counterexample,
	// except that known regions may carve it out.
	var regs []KnownRegion
	for _, k := range e.known {
		if k.Obligation == oblig && k.Status != "fixed" {
			regs = append(regs, k)
		}
	}
	var extra []string
	for _, k := range regs {
		if r, ok := e.regionTerm(k.Region); ok {
			extra = append(extra, "(not "+r+")")
		}
	}
	r := e.check(extra...)
	if r == "sat" {
		m := e.model()
		e.pop()
		e.recordViolation(oblig, m, "")
	} else {
		e.pop()
	}
	for _, k := range regs {
		rt, ok := e.regionTerm(k.Region)
		if !ok {
			continue
		}
		r := e.check(rt)
		if r == "sat" {
			m := e.model()
			e.pop()
			e.recordViolation(oblig, m, k.What)
		} else {
			e.pop()
		}
	}
	panic(abortPath{why: "assertion concretely false", kind: "assume"})
}

func (e *Exec) recordViolation(oblig string, m map[string]string, known string) {
	// keep at most a few per (obligation, known) to bound replay work
	n := 0
	for _, v := range *e.Viol {
		if v.Obligation == oblig && v.Known == known {
			n++
		}
	}
	if n >= e.maxCex {
		return
	}
	*e.Viol = append(*e.Viol, Violation{Obligation: oblig, Model: m, Path: append([]bool{}, e.decisions...), Known: known})
}

// model must be called right after a sat check (before pop). It returns concrete
// values for every name declared on this path.
func (e *Exec) model() map[string]string {
	m := map[string]string{}
	if len(e.names) == 0 {
		return m
	}
	// Try to get a small model: bound token lengths (best effort).
	var toks []string
	for _, n := range e.names {
		if e.nameSort[n] == "Str" {
			toks = append(toks, n)
		}
	}
	pushed := false
	if len(toks) > 0 {
		var sb strings.Builder
		sb.WriteString("(push)\n")
		for _, t := range toks {
			sb.WriteString("(assert (bvule (slen " + t + ") " + bvConst(6, 64) + "))\n")
		}
		sb.WriteString("(check-sat)\n")
		e.solver.send(sb.String())
		if e.solver.readLine() == "sat" {
			pushed = true
		} else {
			e.solver.send("(pop)")
			e.solver.send("(check-sat)")
			e.solver.readLine()
		}
	}
	var q []string
	for _, n := range e.names {
		q = append(q, n)
		if e.nameSort[n] == "Str" {
			q = append(q, "(slen "+n+")", "(clean "+n+")", "(lower "+n+")")
		}
	}
	nNames := len(q)
	for _, d := range e.digests {
		q = append(q, d.term, d.arg)
	}
	nDig := len(q)
	for _, g := range e.globApps {
		q = append(q, "(globmatch "+g[0]+" "+g[1]+")", g[0], g[1], "(metafree "+g[0]+")")
	}
	nGlob := len(q)
	for _, gp := range e.globCompiles {
		q = append(q, "(globvalid "+gp+")", gp)
	}
	nValid := len(q)
	litNames := e.solver.litNames()
	q = append(q, litNames...)
	e.solver.send("(get-value (" + strings.Join(q, " ") + "))")
	s := e.solver.readSexp()
	if pushed {
		e.solver.send("(pop)")
	}
	vals := parseGetValue(s)
	if len(vals) != len(q) {
		m["_raw"] = s
		return m
	}
	litAbs := map[string]string{} // abstract value -> literal string
	for i := nValid; i < len(q); i++ {
		litAbs[vals[i]] = e.solver.litOf(q[i])
	}
	strVals := map[string][]string{} // abstract value -> names
	info := map[string][3]string{}
	for i := 0; i < nNames; i++ {
		n := q[i]
		switch e.nameSort[n] {
		case "Str":
			strVals[vals[i]] = append(strVals[vals[i]], n)
			info[n] = [3]string{vals[i+1], vals[i+2], vals[i+3]}
			i += 3
		case "Bool":
			m[n] = vals[i]
		case "(_ FloatingPoint 11 53)":
			m[n] = fpValue(vals[i])
		default:
			m[n] = bvValue(vals[i], e.nameSort[n])
		}
	}
	// spell tokens: equal abstract values -> equal strings; a literal id gives the literal.
	abs := make([]string, 0, len(strVals))
	for a := range strVals {
		abs = append(abs, a)
	}
	sort.Strings(abs)
	used := map[string]bool{}
	baseOf := map[string]string{} // abstract value of a lower-case string -> its spelling
	caseVariant := func(low string) string {
		cands := []string{strings.ToUpper(low)}
		for k := 0; k < len(low); k++ {
			cands = append(cands, low[:k]+strings.ToUpper(low[k:k+1])+low[k+1:])
		}
		for _, c := range cands {
			if c != low && !used[c] {
				return c
			}
		}
		return strings.ToUpper(low)
	}
	// first the tokens that are their own lower-case form (or literals), then the case variants
	for pass := 0; pass < 2; pass++ {
		for idx, a := range abs {
			n0 := strVals[a][0]
			in := info[n0]
			L, _ := strconv.ParseUint(bvValue(in[0], "(_ BitVec 64)"), 10, 64)
			clean := in[1] == "true"
			_, isLit := litAbs[a]
			_, lowIsLit := litAbs[in[2]]
			variantOfToken := !isLit && !lowIsLit && in[2] != a
			if (pass == 0) == variantOfToken {
				continue
			}
			var s string
			if lit, ok := litAbs[a]; ok {
				s = lit
			} else if low, ok := litAbs[in[2]]; ok && strings.ToUpper(low) != low && len(low) == int(L) {
				// the token is not that literal but lower-cases to it: a case variant
				s = caseVariant(low)
			} else if variantOfToken {
				// lower(token) is another (non-literal) string: spell the token as a case variant of it
				base, ok := baseOf[in[2]]
				if !ok {
					// nothing named is that lower-case string: the first token of the group takes the
					// lower-case spelling itself (the replay decides whether that was admissible)
					base = spell(len(abs)+idx, int(L), clean, used)
					baseOf[in[2]] = base
					s = base
				} else {
					s = caseVariant(base)
				}
			} else {
				s = spell(idx, int(L), clean, used)
				baseOf[a] = s
			}
			used[s] = true
			for _, n := range strVals[a] {
				m[n] = s
			}
		}
	}
	// realise glob patterns: a pattern token becomes a real gobwas pattern that matches exactly the
	// strings the model says it matches ("*" / the literal itself / an alternation {a,b})
	if len(e.globApps) > 0 {
		absToStr := map[string]string{}
		for a, names := range strVals {
			absToStr[a] = m[names[0]]
		}
		for a, l := range litAbs {
			if _, ok := absToStr[a]; !ok {
				absToStr[a] = l
			}
		}
		matched := map[string][]string{} // pattern abstract value -> matched strings
		seenPat := map[string]bool{}
		metafree := map[string]bool{}
		for k := range e.globApps {
			base := nDig + 4*k
			pAbs, sAbs := vals[base+1], vals[base+2]
			seenPat[pAbs] = true
			if vals[base+3] == "true" {
				metafree[pAbs] = true
			}
			if vals[base] == "true" {
				if str, ok := absToStr[sAbs]; ok && !containsStr(matched[pAbs], str) {
					matched[pAbs] = append(matched[pAbs], str)
				}
			}
		}
		for pAbs := range seenPat {
			names := strVals[pAbs]
			if len(names) == 0 {
				continue // the pattern is a literal
			}
			if _, isLit := litAbs[pAbs]; isLit {
				continue
			}
			var pat string
			switch {
			case metafree[pAbs]:
				continue // keeps its plain spelling: matches exactly itself
			case len(matched[pAbs]) == 0:
				// a pattern with a metacharacter that does not match its own text
				pat = "[~]nomatch" + m[names[0]]
			default:
				pat = "{" + strings.Join(matched[pAbs], ",") + "}"
			}
			for _, n := range names {
				m[n] = pat
			}
		}
	}
	// realise invalid glob patterns: a pattern token the model calls syntactically invalid is spelled
	// with an unclosed character class in front, which gobwas/glob rejects
	for k := range e.globCompiles {
		if vals[nGlob+2*k] == "false" {
			for _, n := range strVals[vals[nGlob+2*k+1]] {
				if !strings.HasPrefix(m[n], "[") {
					m[n] = "[" + m[n]
				}
			}
		}
	}
	// realise digests: a token that the model equates with hexenc(sha256raw(arg)) is spelled as the
	// real SHA-256 of arg's spelling
	if len(e.digests) > 0 {
		absToStr := map[string]string{}
		for a, names := range strVals {
			absToStr[a] = m[names[0]]
		}
		for a, l := range litAbs {
			if _, ok := absToStr[a]; !ok {
				absToStr[a] = l
			}
		}
		for k := 0; k < len(e.digests); k++ {
			dAbs, aAbs := vals[nNames+2*k], vals[nNames+2*k+1]
			argStr, ok := absToStr[aAbs]
			if !ok {
				continue
			}
			real := realShaHex(argStr)
			for _, n := range strVals[dAbs] {
				m[n] = real
			}
		}
	}
	return m
}

// spell makes a distinct non-numeric token of length L (best effort for tiny L).
func spell(idx, L int, clean bool, used map[string]bool) string {
	if L <= 0 {
		return ""
	}
	if L > 1<<16 {
		L = 1 << 16
	}
	alphabet := "abcdefghijklmnopqrstuvwxyz"
	for try := 0; try < 26*26; try++ {
		b := make([]byte, L)
		k := idx + try
		for i := range b {
			b[i] = alphabet[(k+i*7)%26]
			if i > 0 {
				b[i] = alphabet[(k/26+i*7)%26]
			}
		}
		b[0] = alphabet[k%26]
		if !clean && L >= 1 {
			b[L-1] = '\n'
			if L >= 2 {
				b[L-2] = '\r'
			}
			if L == 1 {
				b[0] = '\n'
			}
		}
		s := string(b)
		if !used[s] {
			return s
		}
		if !clean && L <= 2 {
			// cannot vary; give up distinctness
			return s
		}
	}
	return strings.Repeat("z", L)
}

func bvValue(v, sort string) string {
	v = strings.TrimSpace(v)
	var u uint64
	switch {
	case strings.HasPrefix(v, "#x"):
		u, _ = strconv.ParseUint(v[2:], 16, 64)
	case strings.HasPrefix(v, "#b"):
		u, _ = strconv.ParseUint(v[2:], 2, 64)
	case strings.HasPrefix(v, "(_ bv"):
		f := strings.Fields(v[5:])
		u, _ = strconv.ParseUint(f[0], 10, 64)
	default:
		return v
	}
	return strconv.FormatUint(u, 10)
}

func fpValue(v string) string {
	v = strings.TrimSpace(v)
	switch {
	case strings.HasPrefix(v, "(fp "):
		f := strings.Fields(strings.Trim(v[4:], ")"))
		if len(f) == 3 {
			var bits uint64
			for _, part := range f {
				part = strings.Trim(part, ")")
				var u uint64
				var n int
				if strings.HasPrefix(part, "#b") {
					u, _ = strconv.ParseUint(part[2:], 2, 64)
					n = len(part) - 2
				} else if strings.HasPrefix(part, "#x") {
					u, _ = strconv.ParseUint(part[2:], 16, 64)
					n = 4 * (len(part) - 2)
				}
				bits = bits<<uint(n) | u
			}
			return strconv.FormatFloat(math.Float64frombits(bits), 'g', -1, 64)
		}
	case strings.Contains(v, "+oo"):
		return "+Inf"
	case strings.Contains(v, "-oo"):
		return "-Inf"
	case strings.Contains(v, "NaN"):
		return "NaN"
	case strings.Contains(v, "+zero"):
		return "0"
	case strings.Contains(v, "-zero"):
		return "-0"
	}
	return v
}

// parseGetValue parses "((n1 v1) (n2 v2) ...)" into the list of values.
func parseGetValue(s string) []string {
	s = strings.TrimSpace(s)
	// tokenise into top-level pairs
	var out []string
	depth := 0
	start := -1
	for i := 0; i < len(s); i++ {
		switch s[i] {
		case '(':
			depth++
			if depth == 2 {
				start = i
			}
		case ')':
			if depth == 2 && start >= 0 {
				pair := s[start+1 : i]
				// split name (an s-expr) from value (an s-expr)
				out = append(out, splitSecond(pair))
				start = -1
			}
			depth--
		}
	}
	return out
}

func splitSecond(pair string) string {
	pair = strings.TrimSpace(pair)
	// first s-expr
	i := 0
	if pair[0] == '(' {
		d := 0
		for ; i < len(pair); i++ {
			if pair[i] == '(' {
				d++
			} else if pair[i] == ')' {
				d--
				if d == 0 {
					i++
					break
				}
			}
		}
	} else {
		for i < len(pair) && pair[i] != ' ' && pair[i] != '\n' {
			i++
		}
	}
	return strings.TrimSpace(pair[i:])
}

// ---- solver ----

type Solver struct {
	cmd      *exec.Cmd
	in       io.WriteCloser
	out      *bufio.Reader
	declared map[string]string
	lits     map[string]string // literal -> const name
	litIDs   []string          // id -> literal
	lowered  map[string]bool
	Log      io.Writer
	bin      string
	args     []string
	baseMS   int // per-query soft timeout given as -t:N (z3 only); 0 = no retry
}

const prelude = `(set-option :produce-models true)
(declare-sort Str 0)
(declare-fun slen (Str) (_ BitVec 64))
(declare-fun lower (Str) Str)
(declare-fun upper (Str) Str)
(declare-fun numeric (Str) Bool)
(declare-fun clean (Str) Bool)
(declare-fun litid (Str) Int)
(declare-fun ftoalen ((_ FloatingPoint 11 53) (_ BitVec 8)) (_ BitVec 64))
(declare-fun mulhi ((_ BitVec 64) (_ BitVec 64)) (_ BitVec 64))
(declare-const str_empty Str)
(assert (= (slen str_empty) #x0000000000000000))
(assert (= (litid str_empty) 0))
(assert (= (lower str_empty) str_empty))
(assert (= (upper str_empty) str_empty))
(assert (not (numeric str_empty)))
(assert (clean str_empty))
`

func NewSolver(bin string, args ...string) *Solver {
	cmd := exec.Command(bin, args...)
	in, _ := cmd.StdinPipe()
	out, _ := cmd.StdoutPipe()
	if err := cmd.Start(); err != nil {
		panic(err)
	}
	s := &Solver{cmd: cmd, in: in, out: bufio.NewReaderSize(out, 1<<16), declared: map[string]string{}, lits: map[string]string{"": "str_empty"}, litIDs: []string{""}, lowered: map[string]bool{}, bin: bin, args: args}
	if strings.Contains(bin, "cvc5") {
		s.send("(set-logic ALL)")
	} else {
		for _, a := range args {
			if strings.HasPrefix(a, "-t:") {
				s.baseMS, _ = strconv.Atoi(a[3:])
			}
		}
	}
	s.send(prelude)
	return s
}

func (s *Solver) declare(name, sort string) {
	if old, ok := s.declared[name]; ok {
		if old != sort {
			panic(fmt.Sprintf("symbol %s declared with sorts %s and %s", name, old, sort))
		}
		return
	}
	s.declared[name] = sort
	s.send(fmt.Sprintf("(declare-const %s %s)", name, sort))
	if sort == "Str" {
		s.send(fmt.Sprintf("(assert (bvule (slen %s) #x000000007fffffff))", name))
		s.send(fmt.Sprintf("(assert (=> (= (slen %s) #x0000000000000000) (= %s str_empty)))", name, name))
		s.send(fmt.Sprintf("(assert (>= (litid %s) 0))", name))
	}
}

// lit returns the Str constant standing for the literal string.
func (s *Solver) lit(x string) string {
	if n, ok := s.lits[x]; ok {
		return n
	}
	id := len(s.litIDs)
	n := fmt.Sprintf("lit_%d", id)
	s.lits[x] = n
	s.litIDs = append(s.litIDs, x)
	s.send(fmt.Sprintf("(declare-const %s Str)", n))
	s.send(fmt.Sprintf("(assert (= (slen %s) %s))", n, bvConst(int64(len(x)), 64)))
	s.send(fmt.Sprintf("(assert (= (litid %s) %d))", n, id))
	_, e1 := strconv.ParseFloat(x, 64)
	num := e1 == nil || looksNumeric(x)
	if num {
		s.send(fmt.Sprintf("(assert (numeric %s))", n))
	} else {
		s.send(fmt.Sprintf("(assert (not (numeric %s)))", n))
	}
	if strings.ContainsAny(x, "\r\n") {
		s.send(fmt.Sprintf("(assert (not (clean %s)))", n))
	} else {
		s.send(fmt.Sprintf("(assert (clean %s))", n))
	}
	lo, up := strings.ToLower(x), strings.ToUpper(x)
	if lo == x {
		s.send(fmt.Sprintf("(assert (= (lower %s) %s))", n, n))
	} else {
		s.send(fmt.Sprintf("(assert (= (lower %s) %s))", n, s.lit(lo)))
	}
	if up == x {
		s.send(fmt.Sprintf("(assert (= (upper %s) %s))", n, n))
	} else {
		s.send(fmt.Sprintf("(assert (= (upper %s) %s))", n, s.lit(up)))
	}
	return n
}

func looksNumeric(x string) bool {
	if x == "" {
		return false
	}
	if _, err := strconv.ParseInt(x, 10, 64); err == nil {
		return true
	}
	c := x[0]
	return c >= '0' && c <= '9' || ((c == '-' || c == '+' || c == '.') && len(x) > 1 && (x[1] >= '0' && x[1] <= '9' || x[1] == '.')) || strings.EqualFold(x, "inf") || strings.EqualFold(x, "+inf") || strings.EqualFold(x, "-inf") || strings.EqualFold(x, "nan") || strings.EqualFold(x, "infinity") || strings.EqualFold(x, "+infinity") || strings.EqualFold(x, "-infinity")
}

func (s *Solver) litNames() []string {
	out := []string{"str_empty"}
	for i := 1; i < len(s.litIDs); i++ {
		out = append(out, fmt.Sprintf("lit_%d", i))
	}
	return out
}

func (s *Solver) litOf(name string) string {
	if name == "str_empty" {
		return ""
	}
	n, _ := strconv.Atoi(strings.TrimPrefix(name, "lit_"))
	return s.litIDs[n]
}

func (s *Solver) send(x string) {
	if s.Log != nil {
		fmt.Fprintln(s.Log, x)
	}
	io.WriteString(s.in, x+"\n")
}
func (s *Solver) readLine() string {
	for {
		l, err := s.out.ReadString('\n')
		if err != nil {
			panic(abortPath{why: "solver pipe: " + err.Error(), kind: "solver"})
		}
		l = strings.TrimSpace(l)
		if l == "" {
			continue
		}
		if strings.HasPrefix(l, "(error") {
			panic(abortPath{why: "solver error: " + l, kind: "solver"})
		}
		return l
	}
}
func (s *Solver) readSexp() string {
	var sb strings.Builder
	depth := 0
	started := false
	for {
		l, err := s.out.ReadString('\n')
		if err != nil {
			panic(abortPath{why: "solver pipe: " + err.Error(), kind: "solver"})
		}
		if strings.HasPrefix(strings.TrimSpace(l), "(error") {
			panic(abortPath{why: "solver error: " + l, kind: "solver"})
		}
		sb.WriteString(l)
		for _, ch := range l {
			if ch == '(' {
				depth++
				started = true
			} else if ch == ')' {
				depth--
			}
		}
		if started && depth <= 0 {
			return sb.String()
		}
	}
}
func (s *Solver) Close() {
	s.in.Close()
	done := make(chan struct{})
	go func() { s.cmd.Wait(); close(done) }()
	select {
	case <-done:
	case <-time.After(2 * time.Second):
		s.cmd.Process.Kill()
	}
}

// ---- term helpers ----

func bvConst(n int64, w int) string {
	switch w {
	case 64:
		return fmt.Sprintf("#x%016x", uint64(n))
	case 32:
		return fmt.Sprintf("#x%08x", uint32(n))
	case 16:
		return fmt.Sprintf("#x%04x", uint16(n))
	case 8:
		return fmt.Sprintf("#x%02x", uint8(n))
	}
	return fmt.Sprintf("(_ bv%d %d)", uint64(n)&((1<<uint(w))-1), w)
}

func typeWidth(t types.Type) (w int, signed bool, ok bool) {
	b, isb := t.Underlying().(*types.Basic)
	if !isb {
		return 0, false, false
	}
	switch b.Kind() {
	case types.Int, types.Int64, types.UntypedInt:
		return 64, true, true
	case types.Int32, types.UntypedRune:
		return 32, true, true
	case types.Int16:
		return 16, true, true
	case types.Int8:
		return 8, true, true
	case types.Uint, types.Uint64, types.Uintptr:
		return 64, false, true
	case types.Uint32:
		return 32, false, true
	case types.Uint16:
		return 16, false, true
	case types.Uint8:
		return 8, false, true
	}
	return 0, false, false
}

// bvTerm returns the bit-vector term and width of an integer value.
func bvTerm(v value) (string, int) {
	switch v := v.(type) {
	case symBV:
		return v.t, v.w
	case int:
		return bvConst(int64(v), 64), 64
	case int64:
		return bvConst(v, 64), 64
	case int32:
		return bvConst(int64(v), 32), 32
	case int16:
		return bvConst(int64(v), 16), 16
	case int8:
		return bvConst(int64(v), 8), 8
	case uint:
		return bvConst(int64(v), 64), 64
	case uint64:
		return bvConst(int64(v), 64), 64
	case uintptr:
		return bvConst(int64(v), 64), 64
	case uint32:
		return bvConst(int64(v), 32), 32
	case uint16:
		return bvConst(int64(v), 16), 16
	case uint8:
		return bvConst(int64(v), 8), 8
	}
	panic(abortPath{why: fmt.Sprintf("bvTerm: %T", v), kind: "unsupported"})
}

func intTerm(v value) string { t, _ := bvTerm(v); return t }

func boolTerm(v value) string {
	switch v := v.(type) {
	case symBool:
		return v.t
	case bool:
		if v {
			return "true"
		}
		return "false"
	}
	panic(abortPath{why: fmt.Sprintf("boolTerm: %T", v), kind: "unsupported"})
}

func fpConst(f float64) string {
	switch {
	case math.IsNaN(f):
		return "(_ NaN 11 53)"
	case math.IsInf(f, 1):
		return "(_ +oo 11 53)"
	case math.IsInf(f, -1):
		return "(_ -oo 11 53)"
	}
	b := math.Float64bits(f)
	return fmt.Sprintf("(fp #b%01b #b%011b #x%013x)", b>>63, (b>>52)&0x7ff, b&((1<<52)-1))
}

func fpTerm(v value) string {
	switch v := v.(type) {
	case symFP:
		return v.t
	case float64:
		return fpConst(v)
	case float32:
		return fpConst(float64(v))
	}
	panic(abortPath{why: fmt.Sprintf("fpTerm: %T", v), kind: "unsupported"})
}

func mkBool(t string) value {
	switch t {
	case "true":
		return true
	case "false":
		return false
	}
	return symBool{t}
}

func symNot(v value) value {
	switch v := v.(type) {
	case bool:
		return !v
	case symBool:
		if strings.HasPrefix(v.t, "(not ") {
			return symBool{v.t[5 : len(v.t)-1]}
		}
		return symBool{"(not " + v.t + ")"}
	}
	panic("symNot")
}

func symAnd(a, b value) value {
	if x, ok := a.(bool); ok {
		if !x {
			return false
		}
		return b
	}
	if y, ok := b.(bool); ok {
		if !y {
			return false
		}
		return a
	}
	return symBool{"(and " + boolTerm(a) + " " + boolTerm(b) + ")"}
}

func symOr(a, b value) value {
	if x, ok := a.(bool); ok {
		if x {
			return true
		}
		return b
	}
	if y, ok := b.(bool); ok {
		if y {
			return true
		}
		return a
	}
	return symBool{"(or " + boolTerm(a) + " " + boolTerm(b) + ")"}
}

// ---- ropes ----

func toRope(v value) symStr {
	switch v := v.(type) {
	case symStr:
		return v
	case string:
		if v == "" {
			return symStr{}
		}
		return symStr{p: []piece{{k: pLit, lit: v}}}
	case []value:
		bs := make([]byte, 0, len(v))
		var out []piece
		for _, b := range v {
			switch b := b.(type) {
			case uint8:
				bs = append(bs, b)
			case symBV:
				if len(bs) > 0 {
					out = append(out, piece{k: pLit, lit: string(bs)})
					bs = nil
				}
				out = append(out, piece{k: pByte, t: b.t})
			default:
				panic(abortPath{why: fmt.Sprintf("toRope: slice of %T", b), kind: "unsupported"})
			}
		}
		if len(bs) > 0 {
			out = append(out, piece{k: pLit, lit: string(bs)})
		}
		return symStr{p: out, bytes: true}
	}
	panic(abortPath{why: fmt.Sprintf("toRope: %T", v), kind: "unsupported"})
}

func normRope(p []piece) []piece {
	out := make([]piece, 0, len(p))
	for _, x := range p {
		if x.k == pLit && x.lit == "" {
			continue
		}
		if x.k == pTok && x.t == "str_empty" {
			continue
		}
		if x.k == pLit && len(out) > 0 && out[len(out)-1].k == pLit {
			out[len(out)-1].lit += x.lit
			continue
		}
		out = append(out, x)
	}
	return out
}

func ropeConcat(a, b symStr) value {
	p := normRope(append(append([]piece{}, a.p...), b.p...))
	return ropeVal(symStr{p: p, bytes: a.bytes})
}

// ropeVal canonicalises: a fully literal string rope becomes a Go string.
func ropeVal(r symStr) value {
	r.p = normRope(r.p)
	if !r.bytes {
		if len(r.p) == 0 {
			return ""
		}
		if len(r.p) == 1 && r.p[0].k == pLit {
			return r.p[0].lit
		}
	}
	return r
}

func pieceLenTerm(x piece) (int64, string) {
	switch x.k {
	case pLit:
		return int64(len(x.lit)), ""
	case pTok:
		if x.n > 0 {
			return int64(x.n), ""
		}
		return 0, "(slen " + x.t + ")"
	case pItoa:
		if x.n > 0 {
			return int64(x.n), ""
		}
		return 0, itoaLen(x.t)
	case pUtoa:
		if x.n > 0 {
			return int64(x.n), ""
		}
		return 0, utoaLen(x.t)
	case pFtoa:
		return 0, "(ftoalen " + x.t + " " + bvConst(int64(x.fmtc), 8) + ")"
	case pByte:
		return 1, ""
	}
	panic("pieceLen")
}

func ropeLen(r symStr) value {
	n := int64(0)
	var terms []string
	for _, x := range r.p {
		c, t := pieceLenTerm(x)
		n += c
		if t != "" {
			terms = append(terms, t)
		}
	}
	if len(terms) == 0 {
		return int(n)
	}
	t := terms[0]
	for _, x := range terms[1:] {
		t = "(bvadd " + t + " " + x + ")"
	}
	if n != 0 {
		t = "(bvadd " + bvConst(n, 64) + " " + t + ")"
	}
	return symBV{t, 64}
}

// itoaLen: decimal length of signed 64-bit t.
func itoaLen(t string) string {
	pos := bvConst(19, 64)
	th := int64(1000000000000000000)
	for d := 18; d >= 1; d-- {
		pos = fmt.Sprintf("(ite (bvslt %s %s) %s %s)", t, bvConst(th, 64), bvConst(int64(d), 64), pos)
		th /= 10
	}
	neg := bvConst(20, 64)
	th = int64(1000000000000000000)
	for d := 18; d >= 1; d-- {
		neg = fmt.Sprintf("(ite (bvsgt %s %s) %s %s)", t, bvConst(-th, 64), bvConst(int64(d+1), 64), neg)
		th /= 10
	}
	return fmt.Sprintf("(ite (bvsge %s %s) %s %s)", t, bvConst(0, 64), pos, neg)
}

func utoaLen(t string) string {
	res := bvConst(20, 64)
	th := uint64(10000000000000000000)
	for d := 19; d >= 1; d-- {
		res = fmt.Sprintf("(ite (bvult %s %s) %s %s)", t, bvConst(int64(th), 64), bvConst(int64(d), 64), res)
		th /= 10
	}
	return res
}

// strTerm returns the Str-sorted term for a single-piece rope, if it has one.
func (e *Exec) strTerm(p []piece) (string, bool) {
	switch len(p) {
	case 0:
		return "str_empty", true
	case 1:
		switch p[0].k {
		case pTok:
			return p[0].t, true
		case pLit:
			return e.solver.lit(p[0].lit), true
		}
	}
	return "", false
}

// ropeEq returns a value (bool or symBool).
func (e *Exec) ropeEq(a, b symStr) value {
	pa, pb := normRope(a.p), normRope(b.p)
	// whole-string comparisons of single Str terms
	if ta, ok := e.strTerm(pa); ok {
		if tb, ok := e.strTerm(pb); ok {
			if ta == tb {
				return true
			}
			if len(pa) <= 1 && len(pb) <= 1 && (len(pa) == 0 || pa[0].k == pLit) && (len(pb) == 0 || pb[0].k == pLit) {
				return false // two different literals
			}
			return symBool{"(= " + ta + " " + tb + ")"}
		}
	}
	// a single token against a composite: decide by structure where possible
	pa = append([]piece{}, pa...)
	pb = append([]piece{}, pb...)
	// strip what the two sides visibly share at the end (the loop below consumes shared
	// prefixes): x+t == y+t <=> x == y, and literals that end differently differ
	for len(pa) > 0 && len(pb) > 0 {
		x, y := pa[len(pa)-1], pb[len(pb)-1]
		if x.k == pLit && y.k == pLit {
			n := 0
			for n < len(x.lit) && n < len(y.lit) && x.lit[len(x.lit)-1-n] == y.lit[len(y.lit)-1-n] {
				n++
			}
			if n < len(x.lit) && n < len(y.lit) {
				return false
			}
			pa[len(pa)-1].lit = x.lit[:len(x.lit)-n]
			pb[len(pb)-1].lit = y.lit[:len(y.lit)-n]
			if pa[len(pa)-1].lit == "" {
				pa = pa[:len(pa)-1]
			}
			if pb[len(pb)-1].lit == "" {
				pb = pb[:len(pb)-1]
			}
			if n == 0 {
				break
			}
			continue
		}
		if x.k != pLit && x.k == y.k && x.t == y.t && x.fmtc == y.fmtc {
			pa = pa[:len(pa)-1]
			pb = pb[:len(pb)-1]
			continue
		}
		break
	}
	var conj []string
	i, j := 0, 0
	for i < len(pa) && j < len(pb) {
		x, y := pa[i], pb[j]
		switch {
		case x.k == pLit && y.k == pLit:
			n := len(x.lit)
			if len(y.lit) < n {
				n = len(y.lit)
			}
			if x.lit[:n] != y.lit[:n] {
				return false
			}
			pa[i].lit = x.lit[n:]
			pb[j].lit = y.lit[n:]
			if pa[i].lit == "" {
				i++
			}
			if pb[j].lit == "" {
				j++
			}
			continue
		case x.k == pTok && y.k == pTok:
			if x.t != y.t {
				conj = append(conj, "(= "+x.t+" "+y.t+")")
			}
		case (x.k == pItoa || x.k == pUtoa) && x.k == y.k:
			if x.t != y.t {
				conj = append(conj, "(= "+x.t+" "+y.t+")")
			}
		case x.k == pFtoa && y.k == pFtoa && x.fmtc == y.fmtc:
			if x.t != y.t {
				// equal renderings <=> equal values (shortest round-trip formatting is injective up to -0/NaN)
				conj = append(conj, "(or (= "+x.t+" "+y.t+") (and (fp.isNaN "+x.t+") (fp.isNaN "+y.t+")))")
			}
		case x.k == pByte && y.k == pByte:
			if x.t != y.t {
				conj = append(conj, "(= "+x.t+" "+y.t+")")
			}
		case x.k == pByte && y.k == pLit:
			conj = append(conj, "(= "+x.t+" "+bvConst(int64(y.lit[0]), 8)+")")
			i++
			pb[j].lit = y.lit[1:]
			if pb[j].lit == "" {
				j++
			}
			continue
		case x.k == pLit && y.k == pByte:
			conj = append(conj, "(= "+y.t+" "+bvConst(int64(x.lit[0]), 8)+")")
			j++
			pa[i].lit = x.lit[1:]
			if pa[i].lit == "" {
				i++
			}
			continue
		case (x.k == pItoa || x.k == pUtoa) && y.k == pLit, x.k == pLit && (y.k == pItoa || y.k == pUtoa):
			it, lit := x, y
			first := true
			if x.k == pLit {
				it, lit = y, x
				first = false
			}
			k := 0
			if it.k == pItoa && k < len(lit.lit) && lit.lit[k] == '-' {
				k++
			}
			for k < len(lit.lit) && lit.lit[k] >= '0' && lit.lit[k] <= '9' {
				k++
			}
			var cst string
			if it.k == pItoa {
				n, err := strconv.ParseInt(lit.lit[:k], 10, 64)
				if err != nil || strconv.FormatInt(n, 10) != lit.lit[:k] {
					return false
				}
				cst = bvConst(n, 64)
			} else {
				n, err := strconv.ParseUint(lit.lit[:k], 10, 64)
				if err != nil || strconv.FormatUint(n, 10) != lit.lit[:k] {
					return false
				}
				cst = bvConst(int64(n), 64)
			}
			// NOTE: this aligns the maximal digit run of the literal with the number; sound when the
			// next piece on the number's side does not start with a digit (true for RESP framing).
			conj = append(conj, "(= "+it.t+" "+cst+")")
			rest := lit.lit[k:]
			if first {
				i++
				pb[j].lit = rest
				if rest == "" {
					j++
				}
			} else {
				j++
				pa[i].lit = rest
				if rest == "" {
					i++
				}
			}
			continue
		case x.k == pFtoa && y.k == pLit, x.k == pLit && y.k == pFtoa:
			ft, lit := x, y
			first := true
			if x.k == pLit {
				ft, lit = y, x
				first = false
			}
			if ft.fmtc == '6' {
				panic(abortPath{why: "ropeEq: %f rendering against literal", kind: "unsupported"})
			}
			k := 0
			for k < len(lit.lit) && strings.IndexByte("0123456789.eE+-InfNa", lit.lit[k]) >= 0 {
				k++
			}
			pf, perr := strconv.ParseFloat(lit.lit[:k], 64)
			if perr != nil || strconv.FormatFloat(pf, ft.fmtc, -1, 64) != lit.lit[:k] {
				return false
			}
			if pf != pf {
				conj = append(conj, "(fp.isNaN "+ft.t+")")
			} else {
				conj = append(conj, "(= "+ft.t+" "+fpConst(pf)+")")
			}
			rest := lit.lit[k:]
			if first {
				i++
				pb[j].lit = rest
				if rest == "" {
					j++
				}
			} else {
				j++
				pa[i].lit = rest
				if rest == "" {
					i++
				}
			}
			continue
		case x.k == pTok && y.k == pLit || x.k == pLit && y.k == pTok:
			tok, lit := x, y
			tokFirst := true
			if x.k == pLit {
				tok, lit = y, x
				tokFirst = false
			}
			// The token must cover a prefix of the literal whose length is determined by what
			// follows. Only the case "token is the last piece on its side / literal is consumed up to
			// a delimiter decided by length" is handled: require that the rest of both sides have
			// concrete length so the split point is concrete.
			var restTok, restLit []piece
			if tokFirst {
				restTok, restLit = pa[i+1:], pb[j+1:]
			} else {
				restTok, restLit = pb[j+1:], pa[i+1:]
			}
			lt, okT := concreteLen(restTok)
			ll, okL := concreteLen(restLit)
			if !okT || !okL {
				panic(abortPath{why: "ropeEq: token against literal with symbolic-length remainder", kind: "unsupported"})
			}
			n := len(lit.lit) + ll - lt
			if n < 0 || n > len(lit.lit) {
				if n < 0 {
					return false
				}
				panic(abortPath{why: "ropeEq: token spans several pieces", kind: "unsupported"})
			}
			conj = append(conj, "(= "+tok.t+" "+e.solver.lit(lit.lit[:n])+")")
			rest := lit.lit[n:]
			if tokFirst {
				i++
				pb[j].lit = rest
				if rest == "" {
					j++
				}
			} else {
				j++
				pa[i].lit = rest
				if rest == "" {
					i++
				}
			}
			continue
		case x.k == pTok && (y.k == pItoa || y.k == pUtoa || y.k == pFtoa), y.k == pTok && (x.k == pItoa || x.k == pUtoa || x.k == pFtoa):
			// a token equal to a rendered number would be numeric
			tok := x
			if y.k == pTok {
				tok = y
			}
			conj = append(conj, "(numeric "+tok.t+")", "false")
		default:
			panic(abortPath{why: fmt.Sprintf("ropeEq: unsupported alignment %d/%d", x.k, y.k), kind: "unsupported"})
		}
		i++
		j++
	}
	// leftovers must be empty
	for ; i < len(pa); i++ {
		c, t := pieceLenTerm(pa[i])
		if c > 0 {
			return false
		}
		conj = append(conj, "(= "+t+" "+bvConst(0, 64)+")")
	}
	for ; j < len(pb); j++ {
		c, t := pieceLenTerm(pb[j])
		if c > 0 {
			return false
		}
		conj = append(conj, "(= "+t+" "+bvConst(0, 64)+")")
	}
	if len(conj) == 0 {
		return true
	}
	for _, c := range conj {
		if c == "false" {
			return false
		}
	}
	if len(conj) == 1 {
		return symBool{conj[0]}
	}
	return symBool{"(and " + strings.Join(conj, " ") + ")"}
}

func concreteLen(p []piece) (int, bool) {
	n := 0
	for _, x := range p {
		switch x.k {
		case pLit:
			n += len(x.lit)
		case pByte:
			n++
		case pTok, pItoa, pUtoa:
			if x.n <= 0 {
				return 0, false
			}
			n += x.n
		default:
			return 0, false
		}
	}
	return n, true
}

func allBytePieces(p []piece) bool {
	hasByte := false
	for _, x := range p {
		switch x.k {
		case pByte:
			hasByte = true
		case pLit:
		default:
			return false
		}
	}
	return hasByte
}

// ropeIndex returns byte i of the rope (i concrete).
func ropeIndex(r symStr, i int) value {
	off := 0
	for _, x := range r.p {
		switch x.k {
		case pLit:
			if i < off+len(x.lit) {
				return x.lit[i-off]
			}
			off += len(x.lit)
		case pByte:
			if i == off {
				return symBV{x.t, 8}
			}
			off++
		case pTok, pItoa, pUtoa:
			if x.n > 0 && i >= off+x.n {
				off += x.n
				continue
			}
			panic(abortPath{why: "index into opaque string piece", kind: "unsupported"})
		default:
			panic(abortPath{why: "index into opaque string piece", kind: "unsupported"})
		}
	}
	panic("runtime error: index out of range")
}

// ropeSlice returns r[lo:hi] for concrete lo, hi where the cut points fall in the
// concrete-length prefix/suffix structure.
func ropeSlice(r symStr, lo, hi int, fromEnd bool) symStr {
	var out []piece
	off := 0
	for idx, x := range r.p {
		var n int
		switch {
		case x.k == pLit:
			n = len(x.lit)
		case x.k == pByte:
			n = 1
		case (x.k == pTok || x.k == pItoa || x.k == pUtoa) && x.n > 0:
			n = x.n
		default:
			// opaque piece: allowed only if the slice takes everything from here on and lo <= off
			if off >= lo && hi < 0 {
				out = append(out, r.p[idx:]...)
				return symStr{p: normRope(out), bytes: r.bytes}
			}
			if hi >= 0 && hi <= off {
				return symStr{p: normRope(out), bytes: r.bytes}
			}
			panic(abortPath{why: "slice through opaque string piece", kind: "unsupported"})
		}
		s, e := off, off+n
		a, b := lo, hi
		if b < 0 {
			b = e
		}
		if a < s {
			a = s
		}
		if b > e {
			b = e
		}
		if a < b {
			switch x.k {
			case pLit:
				out = append(out, piece{k: pLit, lit: x.lit[a-s : b-s]})
			case pTok, pItoa, pUtoa:
				if a != s || b != e {
					panic(abortPath{why: "slice cuts through an opaque fixed-length piece", kind: "unsupported"})
				}
				out = append(out, x)
			default:
				out = append(out, x)
			}
		}
		off = e
	}
	return symStr{p: normRope(out), bytes: r.bytes}
}

// ---- binary / unary operators ----

func (e *Exec) symBinop(op token.Token, t types.Type, x, y value) value {
	_, xs := x.(symStr)
	_, ys := y.(symStr)
	if xs || ys {
		a, b := toRope(x), toRope(y)
		switch op {
		case token.ADD:
			return ropeConcat(a, b)
		case token.EQL:
			return e.ropeEq(a, b)
		case token.NEQ:
			return symNot(e.ropeEq(a, b))
		case token.LSS, token.GTR, token.LEQ, token.GEQ:
			return e.ropeLess(op, a, b)
		}
		panic(abortPath{why: "string binop " + op.String(), kind: "unsupported"})
	}
	bt, _ := t.Underlying().(*types.Basic)
	if bt != nil && bt.Info()&types.IsBoolean != 0 {
		a, c := boolTerm(x), boolTerm(y)
		switch op {
		case token.EQL:
			return mkBool("(= " + a + " " + c + ")")
		case token.NEQ:
			return mkBool("(not (= " + a + " " + c + "))")
		}
		panic(abortPath{why: "bool binop " + op.String(), kind: "unsupported"})
	}
	if bt != nil && bt.Info()&types.IsFloat != 0 {
		a, b := fpTerm(x), fpTerm(y)
		f := func(o string) value { return symFP{"(" + o + " RNE " + a + " " + b + ")"} }
		g := func(o string) value { return symBool{"(" + o + " " + a + " " + b + ")"} }
		switch op {
		case token.ADD:
			return f("fp.add")
		case token.SUB:
			return f("fp.sub")
		case token.MUL:
			return f("fp.mul")
		case token.QUO:
			return f("fp.div")
		case token.LSS:
			return g("fp.lt")
		case token.LEQ:
			return g("fp.leq")
		case token.GTR:
			return g("fp.gt")
		case token.GEQ:
			return g("fp.geq")
		case token.EQL:
			return g("fp.eq")
		case token.NEQ:
			return symBool{"(not (fp.eq " + a + " " + b + "))"}
		}
		panic(abortPath{why: "float binop " + op.String(), kind: "unsupported"})
	}
	w, signed, ok := typeWidth(t)
	if !ok {
		panic(abortPath{why: fmt.Sprintf("symbolic binop %s on %s", op, t), kind: "unsupported"})
	}
	a, wa := bvTerm(x)
	b, wb := bvTerm(y)
	_ = wa
	if op == token.SHL || op == token.SHR {
		// shift count may have another width
		if wb < w {
			b = fmt.Sprintf("((_ zero_extend %d) %s)", w-wb, b)
		} else if wb > w {
			// saturate: count >= w gives 0 / sign; conservative: extract after clamp
			b = fmt.Sprintf("(ite (bvuge %s %s) %s ((_ extract %d 0) %s))", b, bvConst(int64(w), wb), bvConst(int64(w), w), w-1, b)
		}
		switch {
		case op == token.SHL:
			return symBV{"(bvshl " + a + " " + b + ")", w}
		case signed:
			return symBV{"(bvashr " + a + " " + b + ")", w}
		default:
			return symBV{"(bvlshr " + a + " " + b + ")", w}
		}
	}
	if w == 64 {
		switch op {
		case token.LSS, token.LEQ, token.GTR, token.GEQ, token.EQL, token.NEQ:
			// compare factorised terms (time arithmetic) on their bases
			if a2, b2, ok := e.scaledPair(x, y, a, b); ok {
				a, b = a2, b2
			}
		}
	}
	f := func(o string) value { return symBV{"(" + o + " " + a + " " + b + ")", w} }
	g := func(o string) value { return symBool{"(" + o + " " + a + " " + b + ")"} }
	sel := func(s, u string) string {
		if signed {
			return s
		}
		return u
	}
	switch op {
	case token.ADD:
		r := f("bvadd")
		e.noteScaled(r, op, x, y, a, b, w)
		return r
	case token.SUB:
		r := f("bvsub")
		e.noteScaled(r, op, x, y, a, b, w)
		return r
	case token.MUL:
		r := f("bvmul")
		e.noteScaled(r, op, x, y, a, b, w)
		return r
	case token.QUO:
		if e.decide("(= " + b + " " + bvConst(0, w) + ")") {
			panic(targetPanic{iface{t: types.Typ[types.String], v: "runtime error: integer divide by zero"}})
		}
		return f(sel("bvsdiv", "bvudiv"))
	case token.REM:
		if e.decide("(= " + b + " " + bvConst(0, w) + ")") {
			panic(targetPanic{iface{t: types.Typ[types.String], v: "runtime error: integer divide by zero"}})
		}
		return f(sel("bvsrem", "bvurem"))
	case token.AND:
		return f("bvand")
	case token.OR:
		return f("bvor")
	case token.XOR:
		return f("bvxor")
	case token.AND_NOT:
		return symBV{"(bvand " + a + " (bvnot " + b + "))", w}
	case token.LSS:
		return g(sel("bvslt", "bvult"))
	case token.LEQ:
		return g(sel("bvsle", "bvule"))
	case token.GTR:
		return g(sel("bvsgt", "bvugt"))
	case token.GEQ:
		return g(sel("bvsge", "bvuge"))
	case token.EQL:
		return g("=")
	case token.NEQ:
		return symBool{"(not (= " + a + " " + b + "))"}
	}
	panic(abortPath{why: "int binop " + op.String(), kind: "unsupported"})
}

// ropeLess compares strings lexicographically when both are byte-transparent.
func (e *Exec) ropeLess(op token.Token, a, b symStr) value {
	na, oka := concreteLen(a.p)
	nb, okb := concreteLen(b.p)
	if !oka || !okb {
		panic(abortPath{why: "ordered comparison of opaque strings", kind: "unsupported"})
	}
	byteT := func(r symStr, i int) string {
		v := ropeIndex(r, i)
		t, _ := bvTerm(v)
		return t
	}
	// less(a,b) := exists first difference
	n := na
	if nb < n {
		n = nb
	}
	lessT := "false"
	if na < nb {
		lessT = "true"
	}
	eqT := "false"
	if na == nb {
		eqT = "true"
	}
	for i := n - 1; i >= 0; i-- {
		x, y := byteT(a, i), byteT(b, i)
		lessT = fmt.Sprintf("(or (bvult %s %s) (and (= %s %s) %s))", x, y, x, y, lessT)
		eqT = fmt.Sprintf("(and (= %s %s) %s)", x, y, eqT)
	}
	switch op {
	case token.LSS:
		return mkBool(lessT)
	case token.LEQ:
		return mkBool("(or " + lessT + " " + eqT + ")")
	case token.GTR:
		return mkBool("(not (or " + lessT + " " + eqT + "))")
	case token.GEQ:
		return mkBool("(not " + lessT + ")")
	}
	panic("ropeLess")
}

func (e *Exec) symUnop(op token.Token, t types.Type, x value) value {
	switch op {
	case token.NOT:
		return symNot(x)
	case token.SUB:
		if f, ok := x.(symFP); ok {
			return symFP{"(fp.neg " + f.t + ")"}
		}
		a, w := bvTerm(x)
		return symBV{"(bvneg " + a + ")", w}
	case token.XOR:
		a, w := bvTerm(x)
		return symBV{"(bvnot " + a + ")", w}
	}
	panic(abortPath{why: "sym unop " + op.String(), kind: "unsupported"})
}

func (e *Exec) symConv(t_dst, t_src types.Type, x value) value {
	switch x := x.(type) {
	case symBV:
		if w, _, ok := typeWidth(t_dst); ok {
			_, ssigned, _ := typeWidth(t_src)
			switch {
			case w == x.w:
				return x
			case w < x.w:
				return symBV{fmt.Sprintf("((_ extract %d 0) %s)", w-1, x.t), w}
			case ssigned:
				return symBV{fmt.Sprintf("((_ sign_extend %d) %s)", w-x.w, x.t), w}
			default:
				return symBV{fmt.Sprintf("((_ zero_extend %d) %s)", w-x.w, x.t), w}
			}
		}
		if b, ok := t_dst.Underlying().(*types.Basic); ok && b.Info()&types.IsFloat != 0 {
			_, ssigned, _ := typeWidth(t_src)
			if ssigned {
				return symFP{"((_ to_fp 11 53) RNE " + x.t + ")"}
			}
			return symFP{"((_ to_fp_unsigned 11 53) RNE " + x.t + ")"}
		}
		if b, ok := t_dst.Underlying().(*types.Basic); ok && b.Kind() == types.String {
			if x.w == 8 {
				return symStr{p: []piece{{k: pByte, t: x.t}}}
			}
		}
	case symFP:
		if w, signed, ok := typeWidth(t_dst); ok {
			if signed {
				return symBV{fmt.Sprintf("((_ fp.to_sbv %d) RTZ %s)", w, x.t), w}
			}
			return symBV{fmt.Sprintf("((_ fp.to_ubv %d) RTZ %s)", w, x.t), w}
		}
		if b, ok := t_dst.Underlying().(*types.Basic); ok && b.Info()&types.IsFloat != 0 {
			return x
		}
	case symStr:
		if sl, ok := t_dst.Underlying().(*types.Slice); ok {
			if eb, isB := sl.Elem().Underlying().(*types.Basic); isB && eb.Kind() == types.Int32 {
				return e.ropeToRunes(x)
			}
			// a short string made of literal and single-byte pieces only becomes a real (mutable, fresh)
			// byte slice, as the conversion does in Go; longer or opaque strings stay ropes (read-only)
			if allBytePieces(x.p) {
				if n, ok := concreteLen(x.p); ok && n <= 64 {
					out := make([]value, n)
					for i := 0; i < n; i++ {
						out[i] = ropeIndex(x, i)
					}
					return out
				}
			}
			x.bytes = true
			return x
		}
		if b, ok := t_dst.Underlying().(*types.Basic); ok && b.Kind() == types.String {
			x.bytes = false
			return ropeVal(x)
		}
	case symBool:
		return x
	}
	panic(abortPath{why: fmt.Sprintf("symConv %T (%s) -> %s", x, t_src, t_dst), kind: "unsupported"})
}

// concretize a symbolic int within [lo,hi) by forking.
func (e *Exec) concretize(v symBV, lo, hi int64) int64 {
	for k := lo; k < hi; k++ {
		if k == hi-1 {
			// last candidate: must hold if range was established
			if e.valid("(= " + v.t + " " + bvConst(k, v.w) + ")") {
				e.addPC("(= " + v.t + " " + bvConst(k, v.w) + ")")
				return k
			}
		}
		if e.decide("(= " + v.t + " " + bvConst(k, v.w) + ")") {
			return k
		}
	}
	panic(abortPath{why: "concretize: value outside expected range", kind: "unsupported"})
}

// eqValue is the symbolic-aware version of equals().
func (e *Exec) eqValue(t types.Type, x, y value) value {
	if isSym(x) || isSym(y) {
		return e.symBinop(token.EQL, symStaticType(t, x, y), x, y)
	}
	switch x := x.(type) {
	case timeVal:
		yt := y.(timeVal)
		if isSym(x.ns) || isSym(yt.ns) {
			return e.symBinop(token.EQL, types.Typ[types.Int64], x.ns, yt.ns)
		}
		return x.ns == yt.ns
	case structure:
		ys := y.(structure)
		st := t.Underlying().(*types.Struct)
		var acc value = true
		for i := range x {
			if f := st.Field(i); !f.Anonymous() && f.Name() == "_" {
				continue
			}
			acc = symAnd(acc, e.eqValue(st.Field(i).Type(), x[i], ys[i]))
			if b, ok := acc.(bool); ok && !b {
				return false
			}
		}
		return acc
	case array:
		ya := y.(array)
		et := t.Underlying().(*types.Array).Elem()
		var acc value = true
		for i := range x {
			acc = symAnd(acc, e.eqValue(et, x[i], ya[i]))
		}
		return acc
	case iface:
		yi := y.(iface)
		if x.t == nil || yi.t == nil {
			return x.t == nil && yi.t == nil
		}
		if !sameType(x.t, yi.t) {
			return false
		}
		return e.eqValue(x.t, x.v, yi.v)
	}
	return equals(t, x, y)
}

// symStaticType picks a usable static type for a comparison when t is an interface.
func symStaticType(t types.Type, x, y value) types.Type {
	if _, ok := t.Underlying().(*types.Basic); ok {
		return t
	}
	for _, v := range []value{x, y} {
		switch v := v.(type) {
		case symStr:
			return types.Typ[types.String]
		case symBool:
			return types.Typ[types.Bool]
		case symFP:
			return types.Typ[types.Float64]
		case symBV:
			switch v.w {
			case 8:
				return types.Typ[types.Uint8]
			case 16:
				return types.Typ[types.Int16]
			case 32:
				return types.Typ[types.Int32]
			}
			return types.Typ[types.Int64]
		}
	}
	return t
}


func concreteI64(v value) (int64, bool) {
	switch x := v.(type) {
	case int:
		return int64(x), true
	case int64:
		return x, true
	case uint64:
		return int64(x), true
	case uint:
		return int64(x), true
	}
	return 0, false
}

func gcd64(a, b int64) int64 {
	if a < 0 {
		a = -a
	}
	if b < 0 {
		b = -b
	}
	for b != 0 {
		a, b = b, a%b
	}
	return a
}

func (e *Exec) scaledOf(v value, term string) (scaledTerm, bool) {
	if c, ok := concreteI64(v); ok {
		_ = c
		return scaledTerm{}, false
	}
	if st, ok := e.scaled[term]; ok {
		return st, true
	}
	return scaledTerm{base: term, mul: 1}, true
}

// noteScaled propagates factorisations through +, - and * by constants (64-bit only).
func (e *Exec) noteScaled(res value, op token.Token, x, y value, a, b string, w int) {
	if w != 64 {
		return
	}
	r, ok := res.(symBV)
	if !ok {
		return
	}
	if e.scaled == nil {
		e.scaled = map[string]scaledTerm{}
	}
	cx, xc := concreteI64(x)
	cy, yc := concreteI64(y)
	switch op {
	case token.MUL:
		var st scaledTerm
		var c int64
		switch {
		case xc && !yc:
			st, _ = e.scaledOf(y, b)
			c = cx
		case yc && !xc:
			st, _ = e.scaledOf(x, a)
			c = cy
		default:
			return
		}
		if c == 0 || c == 1 || st.mul == 0 {
			return
		}
		m := st.mul * c
		if m/c != st.mul || m <= 0 {
			return
		}
		e.scaled[r.t] = scaledTerm{base: st.base, mul: m}
	case token.ADD, token.SUB:
		o := "bvadd"
		if op == token.SUB {
			o = "bvsub"
		}
		var sx, sy scaledTerm
		switch {
		case xc && !yc:
			sy, _ = e.scaledOf(y, b)
			if sy.mul <= 1 || cx%sy.mul != 0 {
				return
			}
			e.scaled[r.t] = scaledTerm{base: "(" + o + " " + bvConst(cx/sy.mul, 64) + " " + sy.base + ")", mul: sy.mul}
			return
		case yc && !xc:
			sx, _ = e.scaledOf(x, a)
			if sx.mul <= 1 || cy%sx.mul != 0 {
				return
			}
			e.scaled[r.t] = scaledTerm{base: "(" + o + " " + sx.base + " " + bvConst(cy/sx.mul, 64) + ")", mul: sx.mul}
			return
		case xc && yc:
			return
		}
		sx, _ = e.scaledOf(x, a)
		sy, _ = e.scaledOf(y, b)
		g := gcd64(sx.mul, sy.mul)
		if g <= 1 {
			return
		}
		bx, by := sx.base, sy.base
		if sx.mul/g != 1 {
			bx = "(bvmul " + bvConst(sx.mul/g, 64) + " " + bx + ")"
		}
		if sy.mul/g != 1 {
			by = "(bvmul " + bvConst(sy.mul/g, 64) + " " + by + ")"
		}
		e.scaled[r.t] = scaledTerm{base: "(" + o + " " + bx + " " + by + ")", mul: g}
	}
}


// scaledPair rewrites a comparison of base1*m1 with base2*m2 into one of the bases scaled by
// m1/g and m2/g (g = gcd), under the no-overflow range assumption.
func (e *Exec) scaledPair(x, y value, a, b string) (string, string, bool) {
	var sx, sy scaledTerm
	cx, xc := concreteI64(x)
	cy, yc := concreteI64(y)
	if xc && yc {
		return "", "", false
	}
	if xc {
		sx = scaledTerm{base: "", mul: cx}
	} else if st, ok := e.scaled[a]; ok {
		sx = st
	} else {
		return "", "", false
	}
	if yc {
		sy = scaledTerm{base: "", mul: cy}
	} else if st, ok := e.scaled[b]; ok {
		sy = st
	} else {
		return "", "", false
	}
	// concrete side: value c = c/g * g
	var g int64
	switch {
	case xc:
		g = gcd64(cx, sy.mul)
		if cx == 0 {
			g = sy.mul
		}
	case yc:
		g = gcd64(cy, sx.mul)
		if cy == 0 {
			g = sx.mul
		}
	default:
		g = gcd64(sx.mul, sy.mul)
	}
	if g <= 1 {
		return "", "", false
	}
	side := func(st scaledTerm, c int64, isC bool) string {
		if isC {
			return bvConst(c/g, 64)
		}
		e.assumeTimeRange(st.base, st.mul)
		if st.mul/g == 1 {
			return st.base
		}
		return "(bvmul " + bvConst(st.mul/g, 64) + " " + st.base + ")"
	}
	return side(sx, cx, xc), side(sy, cy, yc), true
}

func containsStr(l []string, x string) bool {
	for _, e := range l {
		if e == x {
			return true
		}
	}
	return false
}

// noteAssumption records a modelling assumption that was actually exercised (reported in evidence).
func (e *Exec) noteAssumption(s string) {
	if e.Stats != nil && e.Stats.Assumptions != nil {
		e.Stats.Assumptions[s] = true
	}
}
