package sym

// Model of the cluster environment (hashicorp/raft and the gossip layer). The repository's own
// code around it runs for real: RaftInit, the FSM, raftApplyCommand, handleCommand's routing.
// hashicorp/raft is replaced by an ideal replicated log: every *raft.Raft created on a path
// belongs to one cluster, the bootstrapping node is the leader, Apply on the leader hands the
// entry to the FSM of every node (leader first, then the followers in creation order) and returns
// the leader's response; Apply on a follower fails with ErrNotLeader. Elections, timeouts, log
// truncation, snapshots-by-raft, membership changes and the gossip layer (memberlist: join,
// forwarding queues) are outside the model.

import (
	"go/token"
	"go/types"

	"golang.org/x/tools/go/ssa"
)

type hraftNode struct {
	fsm    value // raft.FSM interface value
	conf   value
	leader bool
	id     int
	down   bool
	// snapshot: the chunks written to the sink by the last Snapshot()
	snapshot []value
}

const hraftPkg = "github.com/hashicorp/raft"

// zeroResultStubs: constructors of the environment whose results are only passed around.
var zeroResultStubs = map[string]bool{
	hraftPkg + ".DefaultConfig":         true,
	hraftPkg + ".NewInmemStore":         true,
	hraftPkg + ".NewInmemSnapshotStore": true,
	hraftPkg + ".NewTCPTransport":       true,
	"net.ResolveTCPAddr":                true,
}

func zeroResults(fn *ssa.Function) value {
	res := fn.Signature.Results()
	mk := func(t types.Type) value {
		if p, ok := t.Underlying().(*types.Pointer); ok {
			z := zero(p.Elem())
			return &z
		}
		return zero(t)
	}
	if res.Len() == 1 {
		return mk(res.At(0).Type())
	}
	out := make(tuple, res.Len())
	for k := range out {
		out[k] = mk(res.At(k).Type())
	}
	return out
}

func (i *interpreter) hraftType(name string) types.Type {
	p := i.prog.ImportedPackage(hraftPkg)
	if p == nil {
		panic(abortPath{why: "hashicorp/raft is not loaded", kind: "unsupported"})
	}
	return p.Pkg.Scope().Lookup(name).Type()
}

// hraftFuture builds a raft Future: the errorFuture type carries (error, response) here.
func (i *interpreter) hraftFuture(err value, resp value) value {
	if err == nil {
		err = iface{}
	}
	if resp == nil {
		resp = iface{}
	}
	return iface{t: i.hraftType("errorFuture"), v: structure{err, resp}}
}

func hraftOf(v value) *hraftNode {
	p, ok := v.(*value)
	if !ok || p == nil {
		panic(targetPanic{iface{t: types.Typ[types.String], v: "runtime error: invalid memory address or nil pointer dereference (raft not initialised)"}})
	}
	op, ok := (*p).(*opaque)
	if !ok || op.kind != "hraft" {
		panic(abortPath{why: "raft.Raft value not created by the model", kind: "unsupported"})
	}
	return op.data.(*hraftNode)
}

func init() {
	intrinsics[hraftPkg+".NewRaft"] = func(fr *frame, args []value) value {
		i := fr.i
		n := &hraftNode{conf: args[0], fsm: args[1], id: len(i.hraftNodes)}
		i.hraftNodes = append(i.hraftNodes, n)
		fr.i.ex.noteAssumption("hashicorp/raft is modelled as an ideal replicated log: the bootstrapping node leads, Apply on the leader runs the entry through every node's real FSM in log order, Apply elsewhere fails with ErrNotLeader; elections, timeouts, membership changes and the gossip layer are outside the model")
		var v value = &opaque{kind: "hraft", data: n}
		return tuple{&v, nilErr()}
	}
	intrinsics["(*"+hraftPkg+".Raft).BootstrapCluster"] = func(fr *frame, args []value) value {
		n := hraftOf(args[0])
		for _, o := range fr.i.hraftNodes {
			if o.leader && o != n {
				return fr.i.hraftFuture(fr.i.newError(fr, "bootstrap only works on new clusters"), nil)
			}
		}
		n.leader = true
		return fr.i.hraftFuture(nil, nil)
	}
	intrinsics["(*"+hraftPkg+".Raft).State"] = func(fr *frame, args []value) value {
		if hraftOf(args[0]).leader {
			return uint32(2) // raft.Leader
		}
		return uint32(0) // raft.Follower
	}
	intrinsics["(*"+hraftPkg+".Raft).LeaderWithID"] = func(fr *frame, args []value) value {
		for _, o := range fr.i.hraftNodes {
			if o.leader && !o.down {
				return tuple{"leader-addr", "leader-id"}
			}
		}
		return tuple{"", ""}
	}
	intrinsics["(*"+hraftPkg+".Raft).Apply"] = func(fr *frame, args []value) value {
		i := fr.i
		n := hraftOf(args[0])
		if !n.leader || n.down {
			return i.hraftFuture(i.newError(fr, "node is not the leader"), nil)
		}
		i.hraftIndex++
		var resp value
		order := []*hraftNode{n}
		for _, o := range i.hraftNodes {
			if o != n && !o.down {
				order = append(order, o)
			}
		}
		for _, o := range order {
			lt := i.hraftType("Log")
			lg := zero(lt).(structure)
			st := lt.Underlying().(*types.Struct)
			for k := 0; k < st.NumFields(); k++ {
				switch st.Field(k).Name() {
				case "Index":
					lg[k] = uint64(i.hraftIndex)
				case "Term":
					lg[k] = uint64(1)
				case "Type":
					lg[k] = uint8(0) // raft.LogCommand
				case "Data":
					lg[k] = args[1]
				}
			}
			var lv value = lg
			f := o.fsm.(iface)
			m := findMethod(i, f.t, "Apply")
			if m == nil {
				panic(abortPath{why: "raft model: FSM has no Apply", kind: "unsupported"})
			}
			r := callSSA(i, fr, token.NoPos, m, []value{f.v, &lv}, nil)
			if o == n {
				resp = r
			}
		}
		return i.hraftFuture(nil, resp)
	}
	// Snapshot: what raft's snapshot goroutine does with the state machine — FSM.Snapshot(), Persist into
	// a sink (an in-memory one whose ID carries a concrete millisecond stamp), Release. The persisted
	// bytes are kept on the node. Log compaction and shipping the snapshot to other nodes are outside.
	intrinsics["(*"+hraftPkg+".Raft).Snapshot"] = func(fr *frame, args []value) value {
		i := fr.i
		n := hraftOf(args[0])
		f := n.fsm.(iface)
		m := findMethod(i, f.t, "Snapshot")
		if m == nil {
			panic(abortPath{why: "raft model: FSM has no Snapshot", kind: "unsupported"})
		}
		r := callSSA(i, fr, token.NoPos, m, []value{f.v}, nil).(tuple)
		if e, ok := r[1].(iface); ok && e.t != nil {
			return i.hraftFuture(r[1], nil)
		}
		snap := r[0].(iface)
		sinkT := i.hraftType("InmemSnapshotSink")
		z := zero(sinkT)
		sink := iface{t: types.NewPointer(sinkT), v: &z}
		n.snapshot = nil
		i.hraftSink = n
		var perr value = iface{}
		if pm := findMethod(i, snap.t, "Persist"); pm != nil {
			perr = callSSA(i, fr, token.NoPos, pm, []value{snap.v, sink}, nil)
		}
		if rm := findMethod(i, snap.t, "Release"); rm != nil {
			callSSA(i, fr, token.NoPos, rm, []value{snap.v}, nil)
		}
		return i.hraftFuture(perr, nil)
	}
	intrinsics["(*"+hraftPkg+".InmemSnapshotSink).ID"] = func(fr *frame, args []value) value {
		return "1-1-1700000000000"
	}
	intrinsics["(*"+hraftPkg+".InmemSnapshotSink).Write"] = func(fr *frame, args []value) value {
		if n := fr.i.hraftSink; n != nil {
			n.snapshot = append(n.snapshot, args[1])
		}
		var ln value
		switch x := args[1].(type) {
		case symStr:
			ln = ropeLen(x)
		case string:
			ln = len(x)
		case []value:
			ln = len(x)
		default:
			ln = int(0)
		}
		return tuple{ln, nilErr()}
	}
	intrinsics["(*"+hraftPkg+".InmemSnapshotSink).Close"] = func(fr *frame, args []value) value { return nilErr() }
	intrinsics["(*"+hraftPkg+".InmemSnapshotSink).Cancel"] = func(fr *frame, args []value) value { return nilErr() }
	for _, m := range []string{"AddVoter", "RemoveServer", "LeadershipTransfer", "AddNonvoter", "DemoteVoter"} {
		intrinsics["(*"+hraftPkg+".Raft)."+m] = func(fr *frame, args []value) value {
			return fr.i.hraftFuture(nil, nil)
		}
	}
	intrinsics["(*"+hraftPkg+".Raft).GetConfiguration"] = func(fr *frame, args []value) value {
		t := fr.i.hraftType("configurationsFuture")
		z := zero(t)
		return iface{t: types.NewPointer(t), v: &z}
	}
	intrinsics["(*"+hraftPkg+".configurationsFuture).Error"] = func(fr *frame, args []value) value { return nilErr() }
	intrinsics["(*"+hraftPkg+".configurationsFuture).Index"] = func(fr *frame, args []value) value { return uint64(0) }
	intrinsics["(*"+hraftPkg+".configurationsFuture).Configuration"] = func(fr *frame, args []value) value {
		return zero(fr.i.hraftType("Configuration"))
	}
	intrinsics["(*"+hraftPkg+".Raft).Shutdown"] = func(fr *frame, args []value) value {
		hraftOf(args[0]).down = true
		return fr.i.hraftFuture(nil, nil)
	}
	intrinsics["("+hraftPkg+".errorFuture).Error"] = func(fr *frame, args []value) value {
		return args[0].(structure)[0]
	}
	intrinsics["("+hraftPkg+".errorFuture).Response"] = func(fr *frame, args []value) value {
		s := args[0].(structure)
		if len(s) < 2 {
			return iface{}
		}
		return s[1]
	}
	intrinsics["("+hraftPkg+".errorFuture).Index"] = func(fr *frame, args []value) value { return uint64(0) }

	intrinsics["github.com/echovault/sugardb/internal.GetFreePort"] = func(fr *frame, args []value) value {
		fr.i.freePort++
		return tuple{int(20000 + fr.i.freePort), nilErr()}
	}
}

// ---- gossip (hashicorp/memberlist) ----
//
// The repository's MemberListInit, delegate and broadcast-message code run for real; hashicorp's
// memberlist is an ideal channel to the leader: a message queued for broadcast is handed, as the
// bytes its Message() method produces, to the NotifyMsg of the current leader's delegate (every
// node re-broadcasts until the leader has it, so eventually that is what happens). Joining is
// implicit. Loss, duplication, delay and re-ordering of gossip are outside the model.

const hmlPkg = "github.com/hashicorp/memberlist"

func structField(t types.Type, v value, name string) value {
	st := t.Underlying().(*types.Struct)
	for k := 0; k < st.NumFields(); k++ {
		if st.Field(k).Name() == name {
			return v.(structure)[k]
		}
	}
	return nil
}

func init() {
	zeroResultStubs[hmlPkg+".DefaultWANConfig"] = true
	zeroResultStubs[hmlPkg+".DefaultLANConfig"] = true
	zeroResultStubs[hmlPkg+".DefaultLocalConfig"] = true
	zeroResultStubs["github.com/sethvargo/go-retry.NewFibonacci"] = true
	zeroResultStubs["github.com/sethvargo/go-retry.NewConstant"] = true
	zeroResultStubs["github.com/sethvargo/go-retry.NewExponential"] = true
	for _, n := range []string{"WithMaxRetries", "WithJitter", "WithCappedDuration", "WithMaxDuration", "WithJitterPercent"} {
		intrinsics["github.com/sethvargo/go-retry."+n] = func(fr *frame, args []value) value { return args[1] }
	}
	intrinsics["github.com/sethvargo/go-retry.RetryableError"] = func(fr *frame, args []value) value { return args[0] }
	intrinsics["github.com/sethvargo/go-retry.Do"] = func(fr *frame, args []value) value {
		return call(fr.i, fr, token.NoPos, args[2], []value{args[0]})
	}
	intrinsics[hmlPkg+".Create"] = func(fr *frame, args []value) value {
		i := fr.i
		cfgT := i.prog.ImportedPackage(hmlPkg).Pkg.Scope().Lookup("Config").Type()
		cfg := *(args[0].(*value))
		d := structField(cfgT, cfg, "Delegate")
		i.hmlDelegates = append(i.hmlDelegates, d)
		fr.i.ex.noteAssumption("hashicorp/memberlist is modelled as an ideal channel to the leader: a queued broadcast is delivered once, as the bytes of its Message(), to the leader's delegate; joining is implicit")
		var v value = &opaque{kind: "hml", data: len(i.hmlDelegates) - 1}
		return tuple{&v, nilErr()}
	}
	intrinsics["(*"+hmlPkg+".Memberlist).Join"] = func(fr *frame, args []value) value { return tuple{int(1), nilErr()} }
	intrinsics["(*"+hmlPkg+".Memberlist).Leave"] = func(fr *frame, args []value) value { return nilErr() }
	intrinsics["(*"+hmlPkg+".Memberlist).Shutdown"] = func(fr *frame, args []value) value { return nilErr() }
	intrinsics["(*"+hmlPkg+".TransmitLimitedQueue).QueueBroadcast"] = func(fr *frame, args []value) value {
		i := fr.i
		b := args[1].(iface)
		m := findMethod(i, b.t, "Message")
		if m == nil {
			panic(abortPath{why: "gossip model: broadcast without Message()", kind: "unsupported"})
		}
		msg := callSSA(i, fr, token.NoPos, m, []value{b.v}, nil)
		for k, n := range i.hraftNodes {
			if n.leader && !n.down && k < len(i.hmlDelegates) {
				d := i.hmlDelegates[k].(iface)
				nm := findMethod(i, d.t, "NotifyMsg")
				if nm == nil {
					panic(abortPath{why: "gossip model: delegate without NotifyMsg", kind: "unsupported"})
				}
				callSSA(i, fr, token.NoPos, nm, []value{d.v, msg}, nil)
				return nil
			}
		}
		return nil
	}
	intrinsics["(*"+hmlPkg+".TransmitLimitedQueue).GetBroadcasts"] = func(fr *frame, args []value) value { return []value(nil) }
	intrinsics["(*"+hmlPkg+".TransmitLimitedQueue).NumQueued"] = func(fr *frame, args []value) value { return int(0) }
}
