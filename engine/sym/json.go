package sym

// encoding/json model. Marshal walks the interpreter's value with its go/types type and builds a
// JSON tree, which is serialised to a rope (concrete leaves are rendered by the real encoding/json
// and strconv; symbolic strings are emitted between quotes under the stated assumption that opaque
// tokens are JSON-clean; symbolic integers are itoa pieces; symbolic times are fresh tokens
// remembered in a side table). Unmarshal parses a rope back into a tree (real encoding/json when
// the bytes are concrete, a structural rope parser otherwise) and decodes it into the target type
// with encoding/json's typing rules: numbers become float64 in interface{} targets, arrays become
// []interface{}, objects map[string]interface{}, struct fields match by tag/name case-insensitively,
// unexported fields are skipped. Types with their own MarshalJSON/UnmarshalJSON in the analysed
// program are called through the interpreter.

import (
	"bytes"
	"encoding/base64"
	"encoding/json"
	"fmt"
	"go/token"
	"go/types"
	"reflect"
	"sort"
	"strconv"
	"strings"
	"time"

	"golang.org/x/tools/go/ssa"
)

type jnode struct {
	kind  byte // 'n' null, 'b' bool, '#' number, 's' string, 'a' array, 'o' object
	b     bool
	num   string // '#': concrete literal text, or "" when sym is set
	sym   *piece // '#': symbolic number piece (pItoa/pUtoa)
	str   value  // 's': string or symStr (unescaped content)
	elems []*jnode
	keys  []value // 'o': strings / symStr
	vals  []*jnode
}

type jsonErr struct{ msg string }

func init() {
	intrinsics["encoding/json.Marshal"] = func(fr *frame, args []value) value {
		e := fr.i.ex
		v := args[0].(iface)
		n, err := e.jsonEncode(fr, v.t, v.v, true)
		if err != nil {
			return tuple{[]value(nil), fr.i.newError(fr, err.msg)}
		}
		var out []piece
		e.jsonWrite(n, &out)
		r := symStr{p: normRope(out), bytes: true}
		return tuple{bytesValue(r), nilErr()}
	}
	intrinsics["encoding/json.Unmarshal"] = func(fr *frame, args []value) value {
		e := fr.i.ex
		r := toRope(args[0])
		tgt := args[1].(iface)
		n, err := e.jsonParse(normRope(r.p))
		if err != nil {
			return fr.i.newError(fr, err.msg)
		}
		pt, ok := tgt.t.Underlying().(*types.Pointer)
		if !ok || tgt.v == nil {
			return fr.i.newError(fr, "json: Unmarshal(non-pointer "+tgt.t.String()+")")
		}
		p := tgt.v.(*value)
		if p == nil {
			return fr.i.newError(fr, "json: Unmarshal(nil "+tgt.t.String()+")")
		}
		nv, derr := e.jsonDecode(fr, n, pt.Elem(), *p)
		if derr != nil {
			return fr.i.newError(fr, derr.msg)
		}
		*p = nv
		return nilErr()
	}
}

func init() {
	// json.NewDecoder(r).Decode(&v) over a modelled reader: one value, trailing white space allowed
	intrinsics["encoding/json.NewDecoder"] = func(fr *frame, args []value) value {
		var v value = &opaque{kind: "jsondec", data: args[0]}
		return &v
	}
	intrinsics["(*encoding/json.Decoder).Decode"] = func(fr *frame, args []value) value {
		e := fr.i.ex
		op := (*(args[0].(*value))).(*opaque)
		r, ok := fr.i.readerContent(fr, op.data.(iface))
		if !ok {
			panic(abortPath{why: "json.Decoder over an unmodelled reader", kind: "unsupported"})
		}
		p := normRope(r.p)
		blank := true
		for _, x := range p {
			if x.k != pLit || strings.TrimSpace(x.lit) != "" {
				blank = false
			}
		}
		if blank {
			return fr.i.ioEOF()
		}
		n, err := e.jsonParse(p)
		if err != nil {
			return fr.i.newError(fr, err.msg)
		}
		tgt := args[1].(iface)
		pt, okp := tgt.t.Underlying().(*types.Pointer)
		if !okp || tgt.v == nil {
			return fr.i.newError(fr, "json: Unmarshal(non-pointer "+tgt.t.String()+")")
		}
		ptr := tgt.v.(*value)
		nv, derr := e.jsonDecode(fr, n, pt.Elem(), *ptr)
		if derr != nil {
			return fr.i.newError(fr, derr.msg)
		}
		*ptr = nv
		return nilErr()
	}
	intrinsics["(*encoding/json.Decoder).UseNumber"] = func(fr *frame, args []value) value { return nil }
	intrinsics["(*encoding/json.Decoder).DisallowUnknownFields"] = func(fr *frame, args []value) value { return nil }
}

// bytesValue turns a byte rope into the interpreter's []byte representation.
func bytesValue(r symStr) value {
	r.bytes = true
	r.p = normRope(r.p)
	allLit := true
	for _, x := range r.p {
		if x.k != pLit {
			allLit = false
		}
	}
	if allLit {
		s := ""
		for _, x := range r.p {
			s += x.lit
		}
		out := make([]value, len(s))
		for i := 0; i < len(s); i++ {
			out[i] = s[i]
		}
		return out
	}
	return r
}

func findMethod(i *interpreter, t types.Type, name string) *ssa.Function {
	for _, tt := range []types.Type{t, types.NewPointer(t)} {
		ms := i.prog.MethodSets.MethodSet(tt)
		for k := 0; k < ms.Len(); k++ {
			sel := ms.At(k)
			if sel.Obj().Name() == name {
				return i.prog.MethodValue(sel)
			}
		}
	}
	return nil
}

func isStdType(t types.Type) bool {
	n, ok := t.(*types.Named)
	if !ok || n.Obj().Pkg() == nil {
		return true
	}
	return !strings.Contains(n.Obj().Pkg().Path(), ".")
}

func jsonFieldName(st *types.Struct, k int) (name string, omitEmpty, skip, asString bool) {
	f := st.Field(k)
	if !f.Exported() {
		return "", false, true, false
	}
	name = f.Name()
	tag := reflect.StructTag(st.Tag(k)).Get("json")
	if tag == "-" {
		return "", false, true, false
	}
	parts := strings.Split(tag, ",")
	if parts[0] != "" {
		name = parts[0]
	}
	for _, o := range parts[1:] {
		if o == "omitempty" {
			omitEmpty = true
		}
		if o == "string" {
			asString = true
		}
	}
	return
}

func (e *Exec) jsonEncode(fr *frame, t types.Type, v value, top bool) (*jnode, *jsonErr) {
	if t == nil {
		return &jnode{kind: 'n'}, nil
	}
	if isTimeType(t) {
		tv, ok := v.(timeVal)
		if !ok {
			panic(abortPath{why: fmt.Sprintf("json: time value %T", v), kind: "unsupported"})
		}
		switch ns := tv.ns.(type) {
		case int64:
			var tm time.Time
			if ns != zeroTimeNS {
				tm = time.Unix(0, ns).UTC()
			}
			return &jnode{kind: 's', str: tm.Format(time.RFC3339Nano)}, nil
		case symBV:
			// a fresh token stands for the rendering; the side table maps it back
			if e.jsonTimes == nil {
				e.jsonTimes = map[string]value{}
				e.jsonTimeOf = map[string]string{}
			}
			name, ok := e.jsonTimeOf[ns.t]
			if !ok {
				name = fmt.Sprintf("jtime_%d", len(e.jsonTimes))
				e.declare(name, "Str")
				e.jsonTimes[name] = ns
				e.jsonTimeOf[ns.t] = name
			}
			e.noteAssumption("json: a symbolic instant is rendered as an opaque token and parsed back to the same nanosecond (RFC3339Nano round trip)")
			return &jnode{kind: 's', str: symStr{p: []piece{{k: pTok, t: name}}}}, nil
		}
		panic(abortPath{why: fmt.Sprintf("json: time ns %T", tv.ns), kind: "unsupported"})
	}
	if _, isNamed := t.(*types.Named); isNamed && !isStdType(t) {
		if m := findMethod(fr.i, t, "MarshalJSON"); m != nil {
			recv := v
			if _, ptrRecv := m.Signature.Recv().Type().(*types.Pointer); ptrRecv {
				if _, isPtr := t.Underlying().(*types.Pointer); !isPtr {
					cp := v
					recv = &cp
				}
			}
			res := callSSA(fr.i, fr, token.NoPos, m, []value{recv}, nil).(tuple)
			if er, ok := res[1].(iface); ok && er.t != nil {
				return nil, &jsonErr{"json: error calling MarshalJSON for type " + t.String()}
			}
			n, perr := e.jsonParse(normRope(toRope(res[0]).p))
			if perr != nil {
				return nil, &jsonErr{"json: error calling MarshalJSON for type " + t.String() + ": " + perr.msg}
			}
			return n, nil
		}
	}
	switch u := t.Underlying().(type) {
	case *types.Pointer:
		p, _ := v.(*value)
		if p == nil {
			return &jnode{kind: 'n'}, nil
		}
		if _, isNamed := u.Elem().(*types.Named); isNamed && !isStdType(u.Elem()) {
			if m := findMethod(fr.i, u.Elem(), "MarshalJSON"); m != nil {
				res := callSSA(fr.i, fr, token.NoPos, m, []value{p}, nil).(tuple)
				if er, ok := res[1].(iface); ok && er.t != nil {
					return nil, &jsonErr{"json: error calling MarshalJSON for type " + t.String()}
				}
				n, perr := e.jsonParse(normRope(toRope(res[0]).p))
				if perr != nil {
					return nil, &jsonErr{"json: error calling MarshalJSON for type " + t.String() + ": " + perr.msg}
				}
				return n, nil
			}
		}
		return e.jsonEncode(fr, u.Elem(), *p, false)
	case *types.Interface:
		x, _ := v.(iface)
		if x.t == nil {
			return &jnode{kind: 'n'}, nil
		}
		return e.jsonEncode(fr, x.t, x.v, false)
	case *types.Struct:
		sv := v.(structure)
		n := &jnode{kind: 'o'}
		for k := 0; k < u.NumFields(); k++ {
			name, omit, skip, _ := jsonFieldName(u, k)
			if skip {
				continue
			}
			if u.Field(k).Embedded() && reflect.StructTag(u.Tag(k)).Get("json") == "" {
				if _, isStruct := u.Field(k).Type().Underlying().(*types.Struct); isStruct {
					// fields of an embedded struct are promoted
					c, err := e.jsonEncode(fr, u.Field(k).Type(), sv[k], false)
					if err != nil {
						return nil, err
					}
					n.keys = append(n.keys, c.keys...)
					n.vals = append(n.vals, c.vals...)
					continue
				}
				panic(abortPath{why: "json: embedded non-struct field", kind: "unsupported"})
			}
			if omit && jsonEmpty(sv[k]) {
				continue
			}
			c, err := e.jsonEncode(fr, u.Field(k).Type(), sv[k], false)
			if err != nil {
				return nil, err
			}
			n.keys = append(n.keys, name)
			n.vals = append(n.vals, c)
		}
		return n, nil
	case *types.Map:
		m, _ := v.(*amap)
		if m == nil {
			return &jnode{kind: 'n'}, nil
		}
		n := &jnode{kind: 'o'}
		type kv struct {
			k    value
			sk   string
			conc bool
			v    *jnode
		}
		var kvs []kv
		allConc := true
		for _, en := range m.ents {
			if en.dead {
				continue
			}
			var key value
			conc := true
			sk := ""
			switch kk := en.k.(type) {
			case string:
				key, sk = kk, kk
			case symStr:
				key, conc = kk, false
			case symBV:
				key, conc = symStr{p: []piece{{k: pItoa, t: sext64(kk)}}}, false
			default:
				if isIntKind(en.k) {
					sk = strconv.FormatInt(asInt64(en.k), 10)
					key = sk
				} else {
					return nil, &jsonErr{"json: unsupported type: " + t.String()}
				}
			}
			c, err := e.jsonEncode(fr, u.Elem(), en.v, false)
			if err != nil {
				return nil, err
			}
			if !conc {
				allConc = false
			}
			kvs = append(kvs, kv{key, sk, conc, c})
		}
		if allConc {
			sort.SliceStable(kvs, func(a, b int) bool { return kvs[a].sk < kvs[b].sk })
		} else if len(kvs) > 1 {
			e.jsonUnsorted = true
			e.noteAssumption("json: a map with symbolic keys is emitted in insertion order (encoding/json sorts keys); byte-level digests of such output are not relied upon")
		}
		for _, x := range kvs {
			n.keys = append(n.keys, x.k)
			n.vals = append(n.vals, x.v)
		}
		return n, nil
	case *types.Slice:
		if b, ok := u.Elem().Underlying().(*types.Basic); ok && b.Kind() == types.Uint8 {
			if v == nil {
				return &jnode{kind: 'n'}, nil
			}
			if sl, ok := v.([]value); ok && sl == nil {
				return &jnode{kind: 'n'}, nil
			}
			r := toRope(v)
			s := ""
			for _, x := range normRope(r.p) {
				if x.k != pLit {
					panic(abortPath{why: "json: base64 of symbolic bytes", kind: "unsupported"})
				}
				s += x.lit
			}
			return &jnode{kind: 's', str: base64.StdEncoding.EncodeToString([]byte(s))}, nil
		}
		sl, _ := v.([]value)
		if sl == nil {
			return &jnode{kind: 'n'}, nil
		}
		n := &jnode{kind: 'a', elems: []*jnode{}}
		for _, x := range sl {
			c, err := e.jsonEncode(fr, u.Elem(), x, false)
			if err != nil {
				return nil, err
			}
			n.elems = append(n.elems, c)
		}
		return n, nil
	case *types.Array:
		av := v.(array)
		n := &jnode{kind: 'a', elems: []*jnode{}}
		for _, x := range av {
			c, err := e.jsonEncode(fr, u.Elem(), x, false)
			if err != nil {
				return nil, err
			}
			n.elems = append(n.elems, c)
		}
		return n, nil
	case *types.Basic:
		switch {
		case u.Info()&types.IsString != 0:
			return &jnode{kind: 's', str: v}, nil
		case u.Info()&types.IsBoolean != 0:
			b, ok := v.(bool)
			if !ok {
				sb, isSym := v.(symBool)
				if !isSym {
					panic(abortPath{why: "json: bool value", kind: "unsupported"})
				}
				b = e.decide(sb.t) // a symbolic flag is rendered on both branches
			}
			return &jnode{kind: 'b', b: b}, nil
		case u.Info()&types.IsInteger != 0:
			if sb, ok := v.(symBV); ok {
				k := pItoa
				t64 := sext64(sb)
				if u.Info()&types.IsUnsigned != 0 {
					k = pUtoa
					t64 = zext64(sb)
				}
				return &jnode{kind: '#', sym: &piece{k: k, t: t64}}, nil
			}
			if u.Info()&types.IsUnsigned != 0 {
				return &jnode{kind: '#', num: strconv.FormatUint(asUint64(v), 10)}, nil
			}
			return &jnode{kind: '#', num: strconv.FormatInt(asInt64(v), 10)}, nil
		case u.Info()&types.IsFloat != 0:
			f, ok := v.(float64)
			if !ok {
				if f32, ok32 := v.(float32); ok32 {
					f, ok = float64(f32), true
				}
			}
			if !ok {
				panic(abortPath{why: "json: symbolic float", kind: "unsupported"})
			}
			b, err := json.Marshal(f)
			if err != nil {
				return nil, &jsonErr{"json: unsupported value: " + strconv.FormatFloat(f, 'g', -1, 64)}
			}
			return &jnode{kind: '#', num: string(b)}, nil
		}
	case *types.Signature, *types.Chan:
		return nil, &jsonErr{"json: unsupported type: " + t.String()}
	}
	panic(abortPath{why: "json: encode " + t.String(), kind: "unsupported"})
}

func sext64(b symBV) string {
	if b.w == 64 {
		return b.t
	}
	return fmt.Sprintf("((_ sign_extend %d) %s)", 64-b.w, b.t)
}

func zext64(b symBV) string {
	if b.w == 64 {
		return b.t
	}
	return fmt.Sprintf("((_ zero_extend %d) %s)", 64-b.w, b.t)
}

func isIntKind(v value) bool {
	switch v.(type) {
	case int, int8, int16, int32, int64, uint, uint8, uint16, uint32, uint64, uintptr:
		return true
	}
	return false
}

func jsonEmpty(v value) bool {
	switch x := v.(type) {
	case nil:
		return true
	case bool:
		return !x
	case string:
		return x == ""
	case []value:
		return len(x) == 0
	case *amap:
		return x.len() == 0
	case *value:
		return x == nil
	case iface:
		return x.t == nil
	case float64:
		return x == 0
	}
	if isIntKind(v) {
		return asInt64(v) == 0
	}
	return false
}

func jsonQuote(s string) string {
	b, _ := json.Marshal(s)
	return string(b)
}

func (e *Exec) jsonWriteString(v value, out *[]piece) {
	switch s := v.(type) {
	case string:
		*out = append(*out, piece{k: pLit, lit: jsonQuote(s)})
	case symStr:
		*out = append(*out, piece{k: pLit, lit: `"`})
		for _, x := range s.p {
			if x.k == pLit {
				q := jsonQuote(x.lit)
				*out = append(*out, piece{k: pLit, lit: q[1 : len(q)-1]})
			} else {
				if x.k == pTok || x.k == pByte {
					e.noteAssumption("json: opaque string tokens are JSON-clean (no quote, backslash, control, <>& or invalid UTF-8), so they are written and read back verbatim")
				}
				*out = append(*out, x)
			}
		}
		*out = append(*out, piece{k: pLit, lit: `"`})
	default:
		panic(abortPath{why: fmt.Sprintf("json: string value %T", v), kind: "unsupported"})
	}
}

func (e *Exec) jsonWrite(n *jnode, out *[]piece) {
	lit := func(s string) { *out = append(*out, piece{k: pLit, lit: s}) }
	switch n.kind {
	case 'n':
		lit("null")
	case 'b':
		if n.b {
			lit("true")
		} else {
			lit("false")
		}
	case '#':
		if n.sym != nil {
			*out = append(*out, *n.sym)
		} else {
			lit(n.num)
		}
	case 's':
		e.jsonWriteString(n.str, out)
	case 'a':
		lit("[")
		for k, c := range n.elems {
			if k > 0 {
				lit(",")
			}
			e.jsonWrite(c, out)
		}
		lit("]")
	case 'o':
		lit("{")
		for k := range n.keys {
			if k > 0 {
				lit(",")
			}
			e.jsonWriteString(n.keys[k], out)
			lit(":")
			e.jsonWrite(n.vals[k], out)
		}
		lit("}")
	}
}

// ---- parsing ----

func jsonFromNative(x interface{}) *jnode {
	switch v := x.(type) {
	case nil:
		return &jnode{kind: 'n'}
	case bool:
		return &jnode{kind: 'b', b: v}
	case json.Number:
		return &jnode{kind: '#', num: string(v)}
	case string:
		return &jnode{kind: 's', str: v}
	case []interface{}:
		n := &jnode{kind: 'a', elems: []*jnode{}}
		for _, c := range v {
			n.elems = append(n.elems, jsonFromNative(c))
		}
		return n
	case map[string]interface{}:
		n := &jnode{kind: 'o'}
		ks := make([]string, 0, len(v))
		for k := range v {
			ks = append(ks, k)
		}
		sort.Strings(ks)
		for _, k := range ks {
			n.keys = append(n.keys, k)
			n.vals = append(n.vals, jsonFromNative(v[k]))
		}
		return n
	}
	panic(fmt.Sprintf("jsonFromNative: %T", x))
}

func (e *Exec) jsonParse(p []piece) (*jnode, *jsonErr) {
	conc := true
	s := ""
	for _, x := range p {
		if x.k != pLit {
			conc = false
			break
		}
		s += x.lit
	}
	if conc {
		if !json.Valid([]byte(s)) {
			// reproduce encoding/json's message
			var tmp interface{}
			err := json.Unmarshal([]byte(s), &tmp)
			msg := "invalid JSON"
			if err != nil {
				msg = err.Error()
			}
			return nil, &jsonErr{msg}
		}
		d := json.NewDecoder(bytes.NewReader([]byte(s)))
		d.UseNumber()
		var x interface{}
		if err := d.Decode(&x); err != nil {
			return nil, &jsonErr{err.Error()}
		}
		return jsonFromNative(x), nil
	}
	jp := &jsonRopeParser{e: e, p: p}
	n, err := jp.value()
	if err != nil {
		return nil, err
	}
	jp.ws()
	if !jp.eof() {
		return nil, &jsonErr{"invalid character after top-level value"}
	}
	return n, nil
}

type jsonRopeParser struct {
	e   *Exec
	p   []piece
	i   int // piece index
	off int // offset in a literal piece
}

func (j *jsonRopeParser) eof() bool {
	for j.i < len(j.p) && j.p[j.i].k == pLit && j.off >= len(j.p[j.i].lit) {
		j.i++
		j.off = 0
	}
	return j.i >= len(j.p)
}

// peek returns the next literal byte, or 0 with sym=true at a symbolic piece.
func (j *jsonRopeParser) peek() (c byte, sym bool) {
	if j.eof() {
		return 0, false
	}
	if j.p[j.i].k != pLit {
		return 0, true
	}
	return j.p[j.i].lit[j.off], false
}

func (j *jsonRopeParser) ws() {
	for !j.eof() {
		c, sym := j.peek()
		if sym || !(c == ' ' || c == '\t' || c == '\n' || c == '\r') {
			return
		}
		j.off++
	}
}

var errJSONEOF = &jsonErr{"unexpected end of JSON input"}

func (j *jsonRopeParser) value() (*jnode, *jsonErr) {
	j.ws()
	if j.eof() {
		return nil, errJSONEOF
	}
	c, sym := j.peek()
	if sym {
		x := j.p[j.i]
		if x.k == pItoa || x.k == pUtoa {
			j.i++
			j.off = 0
			// a number piece must not run into further digits
			if c2, s2 := j.peek(); !j.eof() && (s2 || (c2 >= '0' && c2 <= '9') || c2 == '.' || c2 == 'e' || c2 == 'E') {
				panic(abortPath{why: "json: symbolic number followed by number characters", kind: "unsupported"})
			}
			return &jnode{kind: '#', sym: &x}, nil
		}
		panic(abortPath{why: "json: opaque token where a JSON value starts", kind: "unsupported"})
	}
	switch {
	case c == '{':
		j.off++
		n := &jnode{kind: 'o'}
		j.ws()
		if c, sym := j.peek(); !sym && c == '}' && !j.eof() {
			j.off++
			return n, nil
		}
		for {
			j.ws()
			if j.eof() {
				return nil, errJSONEOF
			}
			if c, sym := j.peek(); sym || c != '"' {
				return nil, &jsonErr{"invalid character looking for beginning of object key string"}
			}
			k, err := j.str()
			if err != nil {
				return nil, err
			}
			j.ws()
			if j.eof() {
				return nil, errJSONEOF
			}
			if c, sym := j.peek(); sym || c != ':' {
				return nil, &jsonErr{"invalid character after object key"}
			}
			j.off++
			v, err := j.value()
			if err != nil {
				return nil, err
			}
			n.keys = append(n.keys, k)
			n.vals = append(n.vals, v)
			j.ws()
			if j.eof() {
				return nil, errJSONEOF
			}
			c, sym := j.peek()
			if !sym && c == ',' {
				j.off++
				continue
			}
			if !sym && c == '}' {
				j.off++
				return n, nil
			}
			return nil, &jsonErr{"invalid character after object key:value pair"}
		}
	case c == '[':
		j.off++
		n := &jnode{kind: 'a', elems: []*jnode{}}
		j.ws()
		if c, sym := j.peek(); !sym && c == ']' && !j.eof() {
			j.off++
			return n, nil
		}
		for {
			v, err := j.value()
			if err != nil {
				return nil, err
			}
			n.elems = append(n.elems, v)
			j.ws()
			if j.eof() {
				return nil, errJSONEOF
			}
			c, sym := j.peek()
			if !sym && c == ',' {
				j.off++
				continue
			}
			if !sym && c == ']' {
				j.off++
				return n, nil
			}
			return nil, &jsonErr{"invalid character after array element"}
		}
	case c == '"':
		s, err := j.str()
		if err != nil {
			return nil, err
		}
		return &jnode{kind: 's', str: s}, nil
	case c == 't' || c == 'f' || c == 'n':
		for _, w := range []string{"true", "false", "null"} {
			if w[0] != c {
				continue
			}
			rest := j.p[j.i].lit[j.off:]
			if len(rest) < len(w) {
				if strings.HasPrefix(w, rest) && j.i == len(j.p)-1 {
					return nil, errJSONEOF
				}
				return nil, &jsonErr{"invalid character in literal " + w}
			}
			if rest[:len(w)] != w {
				return nil, &jsonErr{"invalid character in literal " + w}
			}
			j.off += len(w)
			switch w {
			case "true":
				return &jnode{kind: 'b', b: true}, nil
			case "false":
				return &jnode{kind: 'b', b: false}, nil
			}
			return &jnode{kind: 'n'}, nil
		}
	case c == '-' || (c >= '0' && c <= '9'):
		lit := j.p[j.i].lit
		k := j.off
		for k < len(lit) && strings.IndexByte("+-0123456789.eE", lit[k]) >= 0 {
			k++
		}
		txt := lit[j.off:k]
		if k == len(lit) && j.i == len(j.p)-1 {
			// the number runs to the end of the input: complete only if it is a valid number
			if !json.Valid([]byte(txt)) {
				return nil, errJSONEOF
			}
		} else if k == len(lit) && j.i+1 < len(j.p) && j.p[j.i+1].k != pLit {
			panic(abortPath{why: "json: number literal followed by a symbolic piece", kind: "unsupported"})
		}
		if !json.Valid([]byte(txt)) {
			return nil, &jsonErr{"invalid character in numeric literal"}
		}
		j.off = k
		return &jnode{kind: '#', num: txt}, nil
	}
	return nil, &jsonErr{fmt.Sprintf("invalid character %q looking for beginning of value", string(rune(c)))}
}

// str parses a string starting at the opening quote; the content may contain symbolic pieces.
func (j *jsonRopeParser) str() (value, *jsonErr) {
	j.off++ // opening quote
	var out []piece
	for {
		if j.eof() {
			return nil, errJSONEOF
		}
		x := j.p[j.i]
		if x.k != pLit {
			out = append(out, x)
			j.i++
			j.off = 0
			continue
		}
		rest := x.lit[j.off:]
		// find the closing quote, skipping escapes
		k := 0
		for k < len(rest) && rest[k] != '"' {
			if rest[k] == '\\' {
				k++
			}
			if k < len(rest) && rest[k] < 0x20 {
				return nil, &jsonErr{"invalid character in string literal"}
			}
			k++
		}
		if k > len(rest) {
			panic(abortPath{why: "json: escape sequence across pieces", kind: "unsupported"})
		}
		seg := rest[:k]
		if strings.IndexByte(seg, '\\') >= 0 {
			var dec string
			if err := json.Unmarshal([]byte(`"`+seg+`"`), &dec); err != nil {
				if k == len(rest) {
					panic(abortPath{why: "json: escape sequence across pieces", kind: "unsupported"})
				}
				return nil, &jsonErr{"invalid character in string escape code"}
			}
			seg = dec
		}
		if seg != "" {
			out = append(out, piece{k: pLit, lit: seg})
		}
		if k < len(rest) {
			j.off += k + 1
			return ropeVal(symStr{p: normRope(out)}), nil
		}
		j.i++
		j.off = 0
	}
}

// ---- decoding into a typed value ----

func jsonKindName(n *jnode) string {
	switch n.kind {
	case 'b':
		return "bool"
	case '#':
		return "number"
	case 's':
		return "string"
	case 'a':
		return "array"
	case 'o':
		return "object"
	}
	return "null"
}

var emptyIface = types.NewInterfaceType(nil, nil).Complete()

func (e *Exec) jsonDecode(fr *frame, n *jnode, t types.Type, old value) (value, *jsonErr) {
	mismatch := func() (value, *jsonErr) {
		return old, &jsonErr{"json: cannot unmarshal " + jsonKindName(n) + " into Go value of type " + t.String()}
	}
	if isTimeType(t) {
		if n.kind == 'n' {
			return old, nil
		}
		if n.kind != 's' {
			return old, &jsonErr{"Time.UnmarshalJSON: input is not a JSON string"}
		}
		switch s := n.str.(type) {
		case string:
			tm, err := time.Parse(time.RFC3339, s)
			if err != nil {
				return old, &jsonErr{err.Error()}
			}
			if tm.IsZero() {
				return timeVal{zeroTimeNS}, nil
			}
			return timeVal{tm.UnixNano()}, nil
		case symStr:
			if len(s.p) == 1 && s.p[0].k == pTok {
				if ns, ok := e.jsonTimes[s.p[0].t]; ok {
					return timeVal{ns}, nil
				}
			}
		}
		panic(abortPath{why: "json: time from a symbolic string", kind: "unsupported"})
	}
	if _, isNamed := t.(*types.Named); isNamed && !isStdType(t) {
		if m := findMethod(fr.i, t, "UnmarshalJSON"); m != nil {
			var out []piece
			e.jsonWrite(n, &out)
			cp := old
			res := callSSA(fr.i, fr, token.NoPos, m, []value{&cp, bytesValue(symStr{p: out})}, nil)
			if er, ok := res.(iface); ok && er.t != nil {
				return old, &jsonErr{"json: UnmarshalJSON of " + t.String() + " failed"}
			}
			return cp, nil
		}
	}
	switch u := t.Underlying().(type) {
	case *types.Pointer:
		if n.kind == 'n' {
			return (*value)(nil), nil
		}
		p, _ := old.(*value)
		if p == nil {
			z := zero(u.Elem())
			p = &z
		}
		nv, err := e.jsonDecode(fr, n, u.Elem(), *p)
		if err != nil {
			return old, err
		}
		*p = nv
		return p, nil
	case *types.Interface:
		if u.NumMethods() != 0 {
			return mismatch()
		}
		switch n.kind {
		case 'n':
			return iface{}, nil
		case 'b':
			return iface{t: types.Typ[types.Bool], v: n.b}, nil
		case 's':
			return iface{t: types.Typ[types.String], v: n.str}, nil
		case '#':
			if n.sym != nil {
				conv := "((_ to_fp 11 53) RNE " + n.sym.t + ")"
				if n.sym.k == pUtoa {
					conv = "((_ to_fp_unsigned 11 53) RNE " + n.sym.t + ")"
				}
				return iface{t: types.Typ[types.Float64], v: symFP{conv}}, nil
			}
			f, err := strconv.ParseFloat(n.num, 64)
			if err != nil {
				return old, &jsonErr{"json: cannot unmarshal number " + n.num + " into Go value of type float64"}
			}
			return iface{t: types.Typ[types.Float64], v: f}, nil
		case 'a':
			st := types.NewSlice(emptyIface)
			sl := make([]value, len(n.elems))
			for k, c := range n.elems {
				v, err := e.jsonDecode(fr, c, emptyIface, iface{})
				if err != nil {
					return old, err
				}
				sl[k] = v
			}
			return iface{t: st, v: sl}, nil
		case 'o':
			mt := types.NewMap(types.Typ[types.String], emptyIface)
			m := newAmap(types.Typ[types.String])
			for k := range n.keys {
				v, err := e.jsonDecode(fr, n.vals[k], emptyIface, iface{})
				if err != nil {
					return old, err
				}
				m.insert(e, n.keys[k], v)
			}
			return iface{t: mt, v: m}, nil
		}
	case *types.Struct:
		if n.kind == 'n' {
			return old, nil
		}
		if n.kind != 'o' {
			return mismatch()
		}
		sv := append(structure{}, old.(structure)...)
		for k := range n.keys {
			ks, ok := n.keys[k].(string)
			if !ok {
				panic(abortPath{why: "json: symbolic object key for a struct", kind: "unsupported"})
			}
			fi := -1
			for f := 0; f < u.NumFields(); f++ {
				name, _, skip, _ := jsonFieldName(u, f)
				if skip {
					continue
				}
				if name == ks {
					fi = f
					break
				}
				if fi < 0 && strings.EqualFold(name, ks) {
					fi = f
				}
			}
			if fi < 0 {
				// promoted fields of embedded structs
				for f := 0; f < u.NumFields(); f++ {
					est, isStruct := u.Field(f).Type().Underlying().(*types.Struct)
					if !u.Field(f).Embedded() || !isStruct {
						continue
					}
					for g := 0; g < est.NumFields(); g++ {
						name, _, skip, _ := jsonFieldName(est, g)
						if !skip && strings.EqualFold(name, ks) {
							one := &jnode{kind: 'o', keys: []value{ks}, vals: []*jnode{n.vals[k]}}
							nv, err := e.jsonDecode(fr, one, u.Field(f).Type(), sv[f])
							if err != nil {
								return old, err
							}
							sv[f] = nv
						}
					}
				}
				continue
			}
			nv, err := e.jsonDecode(fr, n.vals[k], u.Field(fi).Type(), sv[fi])
			if err != nil {
				return old, err
			}
			sv[fi] = nv
		}
		return sv, nil
	case *types.Map:
		if n.kind == 'n' {
			return (*amap)(nil), nil
		}
		if n.kind != 'o' {
			return mismatch()
		}
		m, _ := old.(*amap)
		if m == nil {
			m = newAmap(u.Key())
		}
		kb, _ := u.Key().Underlying().(*types.Basic)
		for k := range n.keys {
			var key value
			switch {
			case kb != nil && kb.Info()&types.IsString != 0:
				key = n.keys[k]
			case kb != nil && kb.Info()&types.IsInteger != 0:
				switch ks := n.keys[k].(type) {
				case string:
					iv, err := strconv.ParseInt(ks, 10, 64)
					if err != nil {
						return old, &jsonErr{"json: cannot unmarshal number " + ks + " into Go value of type " + u.Key().String()}
					}
					key = convInt(kb, iv)
				case symStr:
					if len(ks.p) == 1 && (ks.p[0].k == pItoa || ks.p[0].k == pUtoa) {
						key = e.truncTo(kb, ks.p[0].t)
					} else {
						panic(abortPath{why: "json: symbolic integer map key", kind: "unsupported"})
					}
				}
			default:
				return old, &jsonErr{"json: cannot unmarshal object into Go value of type " + t.String()}
			}
			var prev value = zero(u.Elem())
			nv, err := e.jsonDecode(fr, n.vals[k], u.Elem(), prev)
			if err != nil {
				return old, err
			}
			m.insert(e, key, nv)
		}
		return m, nil
	case *types.Slice:
		if n.kind == 'n' {
			return []value(nil), nil
		}
		if b, ok := u.Elem().Underlying().(*types.Basic); ok && b.Kind() == types.Uint8 && n.kind == 's' {
			s, ok := n.str.(string)
			if !ok {
				panic(abortPath{why: "json: base64 of a symbolic string", kind: "unsupported"})
			}
			raw, err := base64.StdEncoding.DecodeString(s)
			if err != nil {
				return old, &jsonErr{err.Error()}
			}
			out := make([]value, len(raw))
			for k := range raw {
				out[k] = raw[k]
			}
			return out, nil
		}
		if n.kind != 'a' {
			return mismatch()
		}
		sl := make([]value, len(n.elems))
		for k, c := range n.elems {
			v, err := e.jsonDecode(fr, c, u.Elem(), zero(u.Elem()))
			if err != nil {
				return old, err
			}
			sl[k] = v
		}
		return sl, nil
	case *types.Array:
		if n.kind == 'n' {
			return old, nil
		}
		if n.kind != 'a' {
			return mismatch()
		}
		av := make(array, u.Len())
		for k := range av {
			av[k] = zero(u.Elem())
			if k < len(n.elems) {
				v, err := e.jsonDecode(fr, n.elems[k], u.Elem(), av[k])
				if err != nil {
					return old, err
				}
				av[k] = v
			}
		}
		return av, nil
	case *types.Basic:
		if n.kind == 'n' {
			return old, nil
		}
		switch {
		case u.Info()&types.IsString != 0:
			if n.kind != 's' {
				return mismatch()
			}
			return n.str, nil
		case u.Info()&types.IsBoolean != 0:
			if n.kind != 'b' {
				return mismatch()
			}
			return n.b, nil
		case u.Info()&types.IsInteger != 0:
			if n.kind != '#' {
				return mismatch()
			}
			if n.sym != nil {
				return e.truncTo(u, n.sym.t), nil
			}
			if u.Info()&types.IsUnsigned != 0 {
				uv, err := strconv.ParseUint(n.num, 10, 64)
				if err != nil || !jsonFitsUint(u, uv) {
					return old, &jsonErr{"json: cannot unmarshal number " + n.num + " into Go value of type " + t.String()}
				}
				return convUint(u, uv), nil
			}
			iv, err := strconv.ParseInt(n.num, 10, 64)
			if err != nil || !jsonFitsInt(u, iv) {
				return old, &jsonErr{"json: cannot unmarshal number " + n.num + " into Go value of type " + t.String()}
			}
			return convInt(u, iv), nil
		case u.Info()&types.IsFloat != 0:
			if n.kind != '#' {
				return mismatch()
			}
			if n.sym != nil {
				return symFP{"((_ to_fp 11 53) RNE " + n.sym.t + ")"}, nil
			}
			f, err := strconv.ParseFloat(n.num, 64)
			if err != nil {
				return old, &jsonErr{"json: cannot unmarshal number " + n.num + " into Go value of type " + t.String()}
			}
			if u.Kind() == types.Float32 {
				return float32(f), nil
			}
			return f, nil
		}
	}
	panic(abortPath{why: "json: decode into " + t.String(), kind: "unsupported"})
}

func basicBits(b *types.Basic) int {
	switch b.Kind() {
	case types.Int8, types.Uint8:
		return 8
	case types.Int16, types.Uint16:
		return 16
	case types.Int32, types.Uint32:
		return 32
	}
	return 64
}

func jsonFitsInt(b *types.Basic, v int64) bool {
	w := basicBits(b)
	if w == 64 {
		return true
	}
	return v >= -(1<<(w-1)) && v < 1<<(w-1)
}

func jsonFitsUint(b *types.Basic, v uint64) bool {
	w := basicBits(b)
	if w == 64 {
		return true
	}
	return v < 1<<w
}

func convInt(b *types.Basic, v int64) value {
	switch b.Kind() {
	case types.Int:
		return int(v)
	case types.Int8:
		return int8(v)
	case types.Int16:
		return int16(v)
	case types.Int32:
		return int32(v)
	case types.Int64:
		return v
	}
	return convUint(b, uint64(v))
}

func convUint(b *types.Basic, v uint64) value {
	switch b.Kind() {
	case types.Uint:
		return uint(v)
	case types.Uint8:
		return uint8(v)
	case types.Uint16:
		return uint16(v)
	case types.Uint32:
		return uint32(v)
	case types.Uint64:
		return v
	case types.Uintptr:
		return uintptr(v)
	}
	return convInt(b, int64(v))
}

// truncTo narrows a 64-bit term to the width of an integer kind (JSON range errors for symbolic
// numbers are outside the model: the value is taken to fit).
func (e *Exec) truncTo(b *types.Basic, t64 string) value {
	w := basicBits(b)
	if w == 64 {
		return symBV{t64, 64}
	}
	return symBV{fmt.Sprintf("((_ extract %d 0) %s)", w-1, t64), w}
}
