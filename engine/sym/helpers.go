package sym

import (
	"go/token"
	"fmt"
	"strconv"
	"go/types"
)

// opaque is an engine-level object standing for a value of a non-repo type whose
// representation is never inspected by interpreted code (big.Float, glob.Glob, digests, ...).
type opaque struct {
	kind string
	data interface{}
}

func runtimeError(s string) value { return s }

func isNamed(t types.Type, pkg, name string) bool {
	if a, ok := t.(*types.Alias); ok {
		t = types.Unalias(a)
	}
	n, ok := t.(*types.Named)
	if !ok {
		return false
	}
	o := n.Obj()
	return o.Pkg() != nil && o.Pkg().Path() == pkg && o.Name() == name
}

func isTimeType(t types.Type) bool { return isNamed(t, "time", "Time") }

func isOpaqueType(t types.Type) bool { return isTimeType(t) }

func containsSym(v value) bool {
	switch v := v.(type) {
	case symBV, symBool, symStr, symFP:
		return true
	case timeVal:
		return true
	case structure:
		for _, x := range v {
			if containsSym(x) {
				return true
			}
		}
	case array:
		for _, x := range v {
			if containsSym(x) {
				return true
			}
		}
	case iface:
		return containsSym(v.v)
	}
	return false
}

func hasSymByte(v value) bool {
	sl, ok := v.([]value)
	if !ok {
		return false
	}
	for _, x := range sl {
		if b, ok := x.(symBV); ok && b.w == 8 {
			return true
		}
	}
	return false
}

func isByteSliceOrString(v value) bool {
	switch v := v.(type) {
	case string, symStr:
		return true
	case []value:
		for _, x := range v {
			switch b := x.(type) {
			case uint8:
			case symBV:
				if b.w != 8 {
					return false
				}
			default:
				return false
			}
		}
		return true
	}
	return false
}

func zeroLike(v value) value {
	switch v.(type) {
	case bool, symBool:
		return false
	case int:
		return int(0)
	case int8:
		return int8(0)
	case int16:
		return int16(0)
	case int32:
		return int32(0)
	case int64:
		return int64(0)
	case uint:
		return uint(0)
	case uint8:
		return uint8(0)
	case uint16:
		return uint16(0)
	case uint32:
		return uint32(0)
	case uint64:
		return uint64(0)
	case string, symStr:
		return ""
	case float64, symFP:
		return float64(0)
	}
	panic(abortPath{why: fmt.Sprintf("clear on slice of %T", v), kind: "unsupported"})
}

// symLess decides a < b for integer operands of which at least one is symbolic (a fork when the
// path condition does not settle it). Symbolic bytes are unsigned, everything else is signed.
func symLess(ex *Exec, a, b value) bool {
	t := types.Typ[types.Int64]
	for _, x := range []value{a, b} {
		switch v := x.(type) {
		case symBV:
			switch v.w {
			case 8:
				t = types.Typ[types.Uint8]
			case 32:
				t = types.Typ[types.Int32]
			case 16:
				t = types.Typ[types.Int16]
			}
		case symFP, symStr, symBool:
			panic(abortPath{why: "min/max on symbolic non-integer operands", kind: "unsupported"})
		}
	}
	switch c := binop(ex, token.LSS, t, a, b).(type) {
	case bool:
		return c
	case symBool:
		return ex.decide(c.t)
	}
	panic(abortPath{why: "min/max: comparison", kind: "unsupported"})
}

func minv(ex *Exec, a, b value) value {
	if isSym(a) || isSym(b) {
		if symLess(ex, b, a) {
			return b
		}
		return a
	}
	return min(a, b)
}

func maxv(ex *Exec, a, b value) value {
	if isSym(a) || isSym(b) {
		if symLess(ex, a, b) {
			return b
		}
		return a
	}
	return max(a, b)
}

// indexIn checks idx against length n (forking the bounds check when symbolic) and
// returns a concrete index.
func (e *Exec) indexIn(idx value, n int) int {
	if sv, ok := idx.(symBV); ok {
		inb := "(and (bvsge " + sv.t + " " + bvConst(0, sv.w) + ") (bvslt " + sv.t + " " + bvConst(int64(n), sv.w) + "))"
		if n == 0 || !e.decide(inb) {
			panic(runtimeError(fmt.Sprintf("runtime error: index out of range [sym] with length %d", n)))
		}
		return int(e.concretize(sv, 0, int64(n)))
	}
	i := asInt64(idx)
	if i < 0 || i >= int64(n) {
		panic(runtimeError(fmt.Sprintf("runtime error: index out of range [%d] with length %d", i, n)))
	}
	return int(i)
}

// concreteSize concretises a make() size (bounded by engine cap).
func (e *Exec) concreteSize(v value) int64 {
	if sv, ok := v.(symBV); ok {
		if !e.decide("(and (bvsge " + sv.t + " " + bvConst(0, sv.w) + ") (bvsle " + sv.t + " " + bvConst(int64(e.maxMake), sv.w) + "))") {
			if e.decide("(bvslt " + sv.t + " " + bvConst(0, sv.w) + ")") {
				panic(runtimeError("runtime error: makeslice: len out of range"))
			}
			panic(abortPath{why: fmt.Sprintf("make() with symbolic size above engine cap %d", e.maxMake), kind: "assume"})
		}
		return e.concretize(sv, 0, int64(e.maxMake)+1)
	}
	n := asInt64(v)
	if n < 0 {
		panic(runtimeError("runtime error: makeslice: len out of range"))
	}
	return n
}

// ropeTotalLen returns the concrete length of the rope or forks to make it concrete when
// every opaque piece has a length the path condition pins down; otherwise (-1,false).
// concretizeNumbers replaces rendered-number pieces whose value is provably small by literals
// (forking over the values), so that byte-level operations can proceed.
func (e *Exec) concretizeNumbers(r symStr) symStr {
	var out []piece
	changed := false
	for _, x := range r.p {
		if x.k == pItoa {
			if e.valid("(and (bvsge " + x.t + " " + bvConst(-16, 64) + ") (bvsle " + x.t + " " + bvConst(16, 64) + "))") {
				v := e.concretize(symBV{x.t, 64}, -16, 17)
				out = append(out, piece{k: pLit, lit: strconv.FormatInt(v, 10)})
				changed = true
				continue
			}
		}
		out = append(out, x)
	}
	if !changed {
		return r
	}
	return symStr{p: normRope(out), bytes: r.bytes}
}

func (e *Exec) indexRope(r symStr, idx value) value {
	r = e.concretizeNumbers(r)
	n, ok := concreteLen(r.p)
	if ok {
		return ropeIndex(r, e.indexIn(idx, n))
	}
	// index inside the concrete-length prefix?
	if _, isSymIdx := idx.(symBV); !isSymIdx {
		i := int(asInt64(idx))
		pre := 0
		for _, x := range r.p {
			if x.k == pLit {
				pre += len(x.lit)
			} else if x.k == pByte {
				pre++
			} else {
				break
			}
		}
		if i >= 0 && i < pre {
			return ropeIndex(r, i)
		}
		// need len > i: bounds check
		l := ropeLen(r).(symBV)
		if !e.decide("(bvsgt " + l.t + " " + bvConst(int64(i), 64) + ")") {
			panic(runtimeError(fmt.Sprintf("runtime error: index out of range [%d]", i)))
		}
	}
	panic(abortPath{why: "index into opaque string", kind: "unsupported"})
}

// pinLengths turns opaque tokens whose length is uniquely determined by the path condition into
// fixed-length pieces (content stays opaque).
func (e *Exec) pinLengths(r symStr) symStr {
	var out []piece
	changed := false
	for _, x := range r.p {
		if (x.k == pTok || x.k == pItoa || x.k == pUtoa) && x.n == 0 {
			_, lenTerm := pieceLenTerm(x)
			if e.check() == "sat" {
				e.solver.send("(get-value (" + lenTerm + "))")
				vals := parseGetValue(e.solver.readSexp())
				e.pop()
				if len(vals) == 1 {
					c := bvValue(vals[0], "(_ BitVec 64)")
					if n, err := strconv.ParseInt(c, 10, 64); err == nil && n > 0 && n < 1<<20 {
						if e.valid("(= " + lenTerm + " " + bvConst(n, 64) + ")") {
							x.n = int(n)
							changed = true
						}
					}
				}
			} else {
				e.pop()
			}
		}
		out = append(out, x)
	}
	if !changed {
		return r
	}
	return symStr{p: out, bytes: r.bytes}
}

// boundaryCut finds k and c (0..8) such that bound == len(pieces[:k]) + c holds on this path and the
// c extra bytes are literal; it returns pieces[:k] + those bytes.
func (e *Exec) boundaryCut(r symStr, bound symBV) (symStr, bool) {
	p := normRope(r.p)
	for k := 0; k <= len(p); k++ {
		prefix := symStr{p: append([]piece{}, p[:k]...), bytes: r.bytes}
		lt, _ := bvTerm(toI64(ropeLen(prefix)))
		for c := 0; c <= 8; c++ {
			if c > 0 {
				if k >= len(p) || p[k].k != pLit || len(p[k].lit) < c {
					break
				}
			}
			if e.valid("(= " + bound.t + " (bvadd " + lt + " " + bvConst(int64(c), 64) + "))") {
				out := prefix
				if c > 0 {
					out.p = append(out.p, piece{k: pLit, lit: p[k].lit[:c]})
				}
				out.p = normRope(out.p)
				return out, true
			}
		}
	}
	return symStr{}, false
}

func (e *Exec) sliceRope(r symStr, lo, hi value) value {
	var boundaryResult *symStr
	if _, isC := concreteLen(r.p); !isC {
		r = e.concretizeNumbers(r)
	}
	if _, isC := concreteLen(r.p); !isC {
		r = e.pinLengths(r)
	}
	n, ok := concreteLen(r.p)
	conc := func(v value) int {
		if sv, isSym := v.(symBV); isSym {
			if !ok {
				// a bound that provably equals "length of a prefix of the pieces + c" (c = 0..8) cuts
				// at (or just after) a piece boundary: materialise that prefix
				if cut, found := e.boundaryCut(r, sv); found {
					boundaryResult = &cut
					return -2
				}
				panic(abortPath{why: "symbolic slice bound on opaque string", kind: "unsupported"})
			}
			inb := "(and (bvsge " + sv.t + " " + bvConst(0, sv.w) + ") (bvsle " + sv.t + " " + bvConst(int64(n), sv.w) + "))"
			if !e.decide(inb) {
				panic(runtimeError(fmt.Sprintf("runtime error: slice bounds out of range [sym] with length %d", n)))
			}
			return int(e.concretize(sv, 0, int64(n)+1))
		}
		return int(asInt64(v))
	}
	l := 0
	if lo != nil {
		l = conc(lo)
		if l == -2 {
			panic(abortPath{why: "symbolic lower slice bound on opaque string", kind: "unsupported"})
		}
	}
	h := -1
	if hi != nil {
		h = conc(hi)
		if h == -2 {
			// r[:hi] with hi at a piece boundary (+ a few literal bytes)
			res := *boundaryResult
			if l != 0 {
				panic(abortPath{why: "slice with symbolic upper and non-zero lower bound on opaque string", kind: "unsupported"})
			}
			return ropeVal(res)
		}
	}
	if ok {
		if h < 0 {
			if hi != nil {
				panic(runtimeError(fmt.Sprintf("runtime error: slice bounds out of range [:%d]", h)))
			}
			h = n
		}
		if l < 0 || h < l || h > n {
			panic(runtimeError(fmt.Sprintf("runtime error: slice bounds out of range [%d:%d] with length %d", l, h, n)))
		}
	} else {
		if l < 0 || (hi != nil && (h < 0 || h < l)) {
			panic(runtimeError(fmt.Sprintf("runtime error: slice bounds out of range [%d:%d]", l, h)))
		}
		// bounds check against symbolic length
		need := l
		if h > need {
			need = h
		}
		if need > 0 {
			ln := ropeLen(r).(symBV)
			if !e.decide("(bvsge " + ln.t + " " + bvConst(int64(need), 64) + ")") {
				panic(runtimeError(fmt.Sprintf("runtime error: slice bounds out of range [%d:%d]", l, h)))
			}
		}
	}
	return ropeVal(ropeSlice(r, l, h, false))
}

// ropeToRunes converts a byte-transparent rope to []rune assuming every symbolic byte is ASCII.
func (e *Exec) ropeToRunes(r symStr) value {
	r = e.concretizeNumbers(r)
	n, ok := concreteLen(r.p)
	if !ok {
		panic(abortPath{why: "[]rune of opaque string", kind: "unsupported"})
	}
	out := make([]value, 0, n)
	for i := 0; i < n; i++ {
		switch b := ropeIndex(r, i).(type) {
		case uint8:
			if b >= 0x80 {
				panic(abortPath{why: "[]rune of non-ASCII literal inside a symbolic string", kind: "unsupported"})
			}
			out = append(out, rune(b))
		case symBV:
			e.Stats.Assumptions["symbolic bytes that are converted to runes are ASCII (< 0x80)"] = true
			if !e.decide("(bvult " + b.t + " #x80)") {
				panic(abortPath{why: "non-ASCII symbolic byte", kind: "assume"})
			}
			out = append(out, symBV{"((_ zero_extend 24) " + b.t + ")", 32})
		}
	}
	return out
}

// runesToRope converts []rune with symbolic elements back to a string (ASCII assumed).
func (e *Exec) runesToRope(rs []value) value {
	var out symStr
	for _, r := range rs {
		switch x := r.(type) {
		case int32:
			out.p = append(out.p, piece{k: pLit, lit: string(rune(x))})
		case symBV:
			e.Stats.Assumptions["symbolic runes converted to strings are ASCII (< 0x80)"] = true
			if !e.decide("(bvult " + x.t + " #x00000080)") {
				panic(abortPath{why: "non-ASCII symbolic rune", kind: "assume"})
			}
			out.p = append(out.p, piece{k: pByte, t: "((_ extract 7 0) " + x.t + ")"})
		default:
			panic(abortPath{why: fmt.Sprintf("runesToRope: %T", r), kind: "unsupported"})
		}
	}
	return ropeVal(out)
}

// ropeIter iterates a byte-transparent rope as a string (ASCII/bytes only: each byte is a rune
// when < 0x80; symbolic bytes are assumed ASCII).
type ropeIter struct {
	r symStr
	i int
}

func (it *ropeIter) next() tuple {
	n, ok := concreteLen(it.r.p)
	if !ok {
		panic(abortPath{why: "range over opaque string", kind: "unsupported"})
	}
	if it.i >= n {
		return tuple{false, nil, nil}
	}
	b := ropeIndex(it.r, it.i)
	k := it.i
	it.i++
	switch b := b.(type) {
	case uint8:
		return tuple{true, k, rune(b)}
	case symBV:
		return tuple{true, k, symBV{"((_ zero_extend 24) " + b.t + ")", 32}}
	}
	panic("ropeIter")
}

type goroutineParked struct{}

type memFile struct {
	data symStr
}

func (f *memFile) content() symStr { return f.data }
