package sym

// Strict RESP parsing over ropes. Used (a) as the model of tidwall/resp's Reader.ReadValue
// (the real library is outside the repo module) and (b) by the harness primitive verifrt.Decode.

import (
	"fmt"
	"strconv"
	"strings"
)

type respNode struct {
	typ      byte // '+', '-', ':', '$', '*', '_', '#', ',', '%', '~', '('
	str      symStr
	intv     value // int64 or symBV
	children []*respNode
	null     bool
	boolv    bool
}

type respCursor struct {
	p   []piece
	i   int // piece index
	off int // offset in literal piece
}

func (c *respCursor) eof() bool {
	for c.i < len(c.p) {
		if c.p[c.i].k == pLit && c.off >= len(c.p[c.i].lit) {
			c.i++
			c.off = 0
			continue
		}
		return false
	}
	return true
}

// peekLit returns the remaining literal text at the cursor ("" if the cursor is at a non-literal piece).
func (c *respCursor) peekLit() string {
	if c.eof() {
		return ""
	}
	if c.p[c.i].k != pLit {
		return ""
	}
	return c.p[c.i].lit[c.off:]
}

func (c *respCursor) advance(n int) {
	c.off += n
}

type respErr struct{ msg string }

// readLineInt reads "<int>\r\n" where <int> is literal digits or a rendered number piece.
func (e *Exec) respReadInt(c *respCursor) (value, *respErr) {
	if c.eof() {
		return nil, &respErr{"unexpected end"}
	}
	pc := c.p[c.i]
	switch pc.k {
	case pLit:
		rest := pc.lit[c.off:]
		nl := strings.Index(rest, "\r\n")
		if nl < 0 {
			// digits followed by a non-literal piece: "12" + tok is not valid here
			return nil, &respErr{"unterminated integer line"}
		}
		n, err := strconv.ParseInt(rest[:nl], 10, 64)
		if err != nil {
			return nil, &respErr{"invalid integer " + strconv.Quote(rest[:nl])}
		}
		c.advance(nl + 2)
		return n, nil
	case pItoa, pUtoa:
		c.i++
		c.off = 0
		if !strings.HasPrefix(c.peekLit(), "\r\n") {
			return nil, &respErr{"integer not followed by CRLF"}
		}
		c.advance(2)
		return symBV{pc.t, 64}, nil
	}
	return nil, &respErr{"integer line made of opaque text"}
}

// readLineText reads "<text>\r\n" for simple strings / errors / doubles / big numbers.
// The text may contain opaque tokens; each of them yields a cleanliness obligation.
func (e *Exec) respReadLine(c *respCursor) (symStr, []string, *respErr) {
	var out []piece
	var dirty []string // tokens that must be clean for the frame to be well formed
	for {
		if c.eof() {
			return symStr{}, nil, &respErr{"unterminated line"}
		}
		pc := c.p[c.i]
		if pc.k == pLit {
			rest := pc.lit[c.off:]
			nl := strings.IndexAny(rest, "\r\n")
			if nl < 0 {
				out = append(out, piece{k: pLit, lit: rest})
				c.i++
				c.off = 0
				continue
			}
			if !strings.HasPrefix(rest[nl:], "\r\n") {
				return symStr{}, nil, &respErr{"bare CR or LF inside a line"}
			}
			out = append(out, piece{k: pLit, lit: rest[:nl]})
			c.advance(nl + 2)
			return symStr{p: normRope(out)}, dirty, nil
		}
		if pc.k == pTok {
			dirty = append(dirty, pc.t)
		}
		if pc.k == pByte {
			dirty = append(dirty, "byte:"+pc.t)
		}
		out = append(out, pc)
		c.i++
		c.off = 0
	}
}

// respParse parses exactly one value at the cursor. strict: cleanliness of tokens inside lines is a
// fork (clean -> continue; dirty -> malformed).
func (e *Exec) respParse(c *respCursor, depth int) (*respNode, *respErr) {
	if depth > 8 {
		return nil, &respErr{"nesting too deep"}
	}
	if c.eof() {
		return nil, &respErr{"empty input"}
	}
	lit := c.peekLit()
	if lit == "" {
		return nil, &respErr{"type byte is not literal"}
	}
	t := lit[0]
	c.advance(1)
	switch t {
	case '+', '-', ',', '(':
		s, dirty, err := e.respReadLine(c)
		if err != nil {
			return nil, err
		}
		for _, d := range dirty {
			if strings.HasPrefix(d, "byte:") {
				b := d[5:]
				if e.decide("(or (= " + b + " #x0d) (= " + b + " #x0a))") {
					return nil, &respErr{"CR/LF byte inside a simple line"}
				}
				continue
			}
			if !e.decide("(clean " + d + ")") {
				return nil, &respErr{"CR/LF inside a simple line"}
			}
		}
		return &respNode{typ: t, str: s}, nil
	case ':':
		n, err := e.respReadInt(c)
		if err != nil {
			return nil, err
		}
		return &respNode{typ: t, intv: n}, nil
	case '_':
		if !strings.HasPrefix(c.peekLit(), "\r\n") {
			return nil, &respErr{"null not terminated"}
		}
		c.advance(2)
		return &respNode{typ: t, null: true}, nil
	case '#':
		l := c.peekLit()
		if !strings.HasPrefix(l, "t\r\n") && !strings.HasPrefix(l, "f\r\n") {
			return nil, &respErr{"bad boolean"}
		}
		c.advance(3)
		return &respNode{typ: t, boolv: l[0] == 't'}, nil
	case '$':
		n, err := e.respReadInt(c)
		if err != nil {
			return nil, err
		}
		if k, ok := n.(int64); ok && k < 0 {
			if k == -1 {
				return &respNode{typ: t, null: true}, nil
			}
			return nil, &respErr{"negative bulk length"}
		}
		payload, err := e.respBulkPayload(c, n)
		if err != nil {
			return nil, err
		}
		return &respNode{typ: t, str: payload}, nil
	case '*', '~', '%', '>':
		n, err := e.respReadInt(c)
		if err != nil {
			return nil, err
		}
		var cnt int64
		switch k := n.(type) {
		case int64:
			cnt = k
		case symBV:
			// counts are concrete in every reply we build; fork small values
			if e.decide("(bvslt " + k.t + " " + bvConst(0, 64) + ")") {
				cnt = -1
			} else {
				cnt = e.concretize(k, 0, 64)
			}
		}
		if cnt < 0 {
			if cnt == -1 {
				return &respNode{typ: t, null: true}, nil
			}
			return nil, &respErr{"negative array length"}
		}
		if t == '%' {
			cnt *= 2
		}
		node := &respNode{typ: t}
		for k := int64(0); k < cnt; k++ {
			ch, err := e.respParse(c, depth+1)
			if err != nil {
				return nil, err
			}
			node.children = append(node.children, ch)
		}
		return node, nil
	}
	return nil, &respErr{fmt.Sprintf("unknown type byte %q", t)}
}

// respBulkPayload consumes a bulk payload of declared length n followed by CRLF.
func (e *Exec) respBulkPayload(c *respCursor, n value) (symStr, *respErr) {
	var acc []piece
	accLen := func() value { return ropeLen(symStr{p: normRope(acc)}) }
	lenEq := func() value {
		l := accLen()
		return e.i64eq(l, n)
	}
	for {
		// candidate end: the cursor is at a literal starting with CRLF
		if strings.HasPrefix(c.peekLit(), "\r\n") || (c.eof()) {
			atEnd := c.eof()
			if !atEnd {
				switch r := lenEq().(type) {
				case bool:
					if r {
						c.advance(2)
						return symStr{p: normRope(acc)}, nil
					}
				case symBool:
					if e.decide(r.t) {
						c.advance(2)
						return symStr{p: normRope(acc)}, nil
					}
				}
			} else {
				return symStr{}, &respErr{"bulk payload not terminated"}
			}
		}
		if c.eof() {
			return symStr{}, &respErr{"bulk payload shorter than declared"}
		}
		pc := c.p[c.i]
		if pc.k == pLit {
			rest := pc.lit[c.off:]
			// concrete declared length with concrete accumulated length: jump
			if k, ok := n.(int64); ok {
				if al, ok := accLen().(int); ok {
					need := int(k) - al
					if need < 0 {
						return symStr{}, &respErr{"bulk payload longer than declared"}
					}
					if need <= len(rest) && need > 0 {
						acc = append(acc, piece{k: pLit, lit: rest[:need]})
						c.advance(need)
						continue
					}
					if need == 0 {
						return symStr{}, &respErr{"bulk payload not followed by CRLF"}
					}
				}
			}
			// otherwise extend up to (and excluding) the next CRLF in this literal, or take it whole
			nl := strings.Index(rest, "\r\n")
			if nl == 0 {
				// CRLF belongs to the payload (candidate rejected above)
				acc = append(acc, piece{k: pLit, lit: "\r\n"})
				c.advance(2)
				continue
			}
			if nl < 0 {
				acc = append(acc, piece{k: pLit, lit: rest})
				c.i++
				c.off = 0
				continue
			}
			acc = append(acc, piece{k: pLit, lit: rest[:nl]})
			c.advance(nl)
			continue
		}
		acc = append(acc, pc)
		c.i++
		c.off = 0
		if len(acc) > 64 {
			return symStr{}, &respErr{"bulk payload too fragmented"}
		}
	}
}

func (e *Exec) i64eq(a, b value) value {
	ta, tb := intTerm(toI64(a)), intTerm(toI64(b))
	if ta == tb {
		return true
	}
	_, aok := toI64(a).(int64)
	_, bok := toI64(b).(int64)
	if aok && bok {
		return false
	}
	return symBool{"(= " + ta + " " + tb + ")"}
}

// parseWhole parses a rope as exactly one RESP value (no trailing bytes).
func (e *Exec) respParseWhole(r symStr) (*respNode, *respErr) {
	c := &respCursor{p: normRope(r.p)}
	n, err := e.respParse(c, 0)
	if err != nil {
		return nil, err
	}
	if !c.eof() {
		// trailing opaque pieces might be empty
		for k := c.i; k < len(c.p); k++ {
			cl, t := pieceLenTerm(c.p[k])
			if k == c.i && c.p[k].k == pLit {
				cl -= int64(c.off)
			}
			if cl > 0 {
				return nil, &respErr{"trailing bytes after value"}
			}
			if t != "" && !e.decide("(= "+t+" "+bvConst(0, 64)+")") {
				return nil, &respErr{"trailing bytes after value"}
			}
		}
	}
	return n, nil
}
