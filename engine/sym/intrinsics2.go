package sym

// Intrinsics: time model, sync/atomic, math/big (AdaptType), channels/tickers.

import (
	"fmt"
	"go/token"
	"go/types"
	"golang.org/x/tools/go/ssa"
	"math"
	"math/big"
	"reflect"
	"strconv"
	"time"
)

func tns(v value) value { return v.(timeVal).ns }

func (e *Exec) i64(op token.Token, a, b value) value {
	return binop(e, op, types.Typ[types.Int64], toI64(a), toI64(b))
}

func toI64(v value) value {
	switch x := v.(type) {
	case int:
		return int64(x)
	case symBV:
		return x
	}
	return v
}

func init() {
	intrinsics["time.Now"] = func(fr *frame, args []value) value {
		return fr.i.ex.timeNow()
	}
	intrinsics["time.Unix"] = func(fr *frame, args []value) value {
		e := fr.i.ex
		return timeVal{e.i64(token.ADD, e.i64(token.MUL, args[0], int64(1e9)), args[1])}
	}
	intrinsics["time.UnixMilli"] = func(fr *frame, args []value) value {
		return timeVal{fr.i.ex.i64(token.MUL, args[0], int64(1e6))}
	}
	intrinsics["time.UnixMicro"] = func(fr *frame, args []value) value {
		return timeVal{fr.i.ex.i64(token.MUL, args[0], int64(1e3))}
	}
	intrinsics["(time.Time).Add"] = func(fr *frame, args []value) value {
		return timeVal{fr.i.ex.i64(token.ADD, tns(args[0]), args[1])}
	}
	intrinsics["(time.Time).Sub"] = func(fr *frame, args []value) value {
		return fr.i.ex.i64(token.SUB, tns(args[0]), tns(args[1]))
	}
	intrinsics["time.Since"] = func(fr *frame, args []value) value {
		return fr.i.ex.i64(token.SUB, tns(fr.i.ex.timeNow()), tns(args[0]))
	}
	intrinsics["time.Until"] = func(fr *frame, args []value) value {
		return fr.i.ex.i64(token.SUB, tns(args[0]), tns(fr.i.ex.timeNow()))
	}
	cmp := func(op token.Token) intrinsicFn {
		return func(fr *frame, args []value) value {
			return fr.i.ex.i64(op, tns(args[0]), tns(args[1]))
		}
	}
	intrinsics["(time.Time).Before"] = cmp(token.LSS)
	intrinsics["(time.Time).After"] = cmp(token.GTR)
	intrinsics["(time.Time).Equal"] = cmp(token.EQL)
	intrinsics["(time.Time).Compare"] = func(fr *frame, args []value) value {
		e := fr.i.ex
		if e.decideVal(e.i64(token.LSS, tns(args[0]), tns(args[1]))) {
			return -1
		}
		if e.decideVal(e.i64(token.GTR, tns(args[0]), tns(args[1]))) {
			return 1
		}
		return 0
	}
	intrinsics["(time.Time).IsZero"] = func(fr *frame, args []value) value {
		return fr.i.ex.i64(token.EQL, tns(args[0]), zeroTimeNS)
	}
	intrinsics["(time.Time).UnixNano"] = func(fr *frame, args []value) value { return tns(args[0]) }
	intrinsics["(time.Time).UnixMilli"] = func(fr *frame, args []value) value {
		return fr.i.ex.timeDiv(tns(args[0]), int64(1e6))
	}
	intrinsics["(time.Time).UnixMicro"] = func(fr *frame, args []value) value {
		return fr.i.ex.timeDiv(tns(args[0]), int64(1e3))
	}
	intrinsics["(time.Time).Unix"] = func(fr *frame, args []value) value {
		return fr.i.ex.timeDiv(tns(args[0]), int64(1e9))
	}
	ident := func(fr *frame, args []value) value { return args[0] }
	for _, n := range []string{"(time.Time).UTC", "(time.Time).Local", "(time.Time).Round", "(time.Time).Truncate"} {
		intrinsics[n] = ident
	}
	intrinsics["(time.Time).In"] = ident
	intrinsics["(time.Time).String"] = func(fr *frame, args []value) value { return "<time>" }
	intrinsics["(time.Time).Format"] = func(fr *frame, args []value) value {
		if ns, ok := tns(args[0]).(int64); ok {
			if l, ok := args[1].(string); ok && ns != zeroTimeNS {
				return time.Unix(0, ns).UTC().Format(l)
			}
		}
		return "<time>"
	}
	intrinsics["time.Parse"] = func(fr *frame, args []value) value {
		l, ok1 := args[0].(string)
		s, ok2 := args[1].(string)
		if !ok1 || !ok2 {
			panic(abortPath{why: "time.Parse of symbolic string", kind: "unsupported"})
		}
		t, err := time.Parse(l, s)
		if err != nil {
			return tuple{timeVal{zeroTimeNS}, fr.i.newError(fr, err.Error())}
		}
		return tuple{timeVal{t.UnixNano()}, nilErr()}
	}
	intrinsics["time.Sleep"] = func(fr *frame, args []value) value { return nil }
	intrinsics["time.NewTicker"] = func(fr *frame, args []value) value {
		// *Ticker{C <-chan Time, r runtimeTimer}: only C is used; nothing ever fires it.
		ch := make(chan value, 1)
		fr.i.tickers = append(fr.i.tickers, ch)
		var c value = structure{ch, nil}
		return &c
	}
	intrinsics["(*time.Ticker).Stop"] = func(fr *frame, args []value) value { return nil }
	intrinsics["(*time.Ticker).Reset"] = func(fr *frame, args []value) value { return nil }
	intrinsics["time.After"] = func(fr *frame, args []value) value { return make(chan value, 1) }
	intrinsics["time.Tick"] = func(fr *frame, args []value) value { return make(chan value, 1) }
	intrinsics["(time.Duration).String"] = func(fr *frame, args []value) value {
		if d, ok := args[0].(int64); ok {
			return time.Duration(d).String()
		}
		return "<duration>"
	}

	// ---- sync/atomic: plain memory in the sequential model ----
	load := func(fr *frame, args []value) value {
		p := args[0].(*value)
		fr.i.spinCheck(p)
		return *p
	}
	store := func(fr *frame, args []value) value {
		*(args[0].(*value)) = args[1]
		fr.i.progress++
		return nil
	}
	for _, n := range []string{"LoadUint32", "LoadUint64", "LoadInt64", "LoadInt32", "LoadPointer", "LoadUintptr"} {
		intrinsics["sync/atomic."+n] = load
	}
	for _, n := range []string{"StoreUint32", "StoreUint64", "StoreInt64", "StoreInt32", "StorePointer", "StoreUintptr"} {
		intrinsics["sync/atomic."+n] = store
	}
	addT := func(t types.Type) intrinsicFn {
		return func(fr *frame, args []value) value {
			p := args[0].(*value)
			*p = binop(fr.i.ex, token.ADD, t, *p, args[1])
			return *p
		}
	}
	intrinsics["sync/atomic.AddUint64"] = addT(types.Typ[types.Uint64])
	intrinsics["sync/atomic.AddInt64"] = addT(types.Typ[types.Int64])
	intrinsics["sync/atomic.AddUint32"] = addT(types.Typ[types.Uint32])
	intrinsics["sync/atomic.AddInt32"] = addT(types.Typ[types.Int32])
	swap := func(fr *frame, args []value) value {
		p := args[0].(*value)
		old := *p
		*p = args[1]
		return old
	}
	for _, n := range []string{"SwapUint32", "SwapUint64", "SwapInt64", "SwapInt32"} {
		intrinsics["sync/atomic."+n] = swap
	}
	casT := func(t types.Type) intrinsicFn {
		return func(fr *frame, args []value) value {
			p := args[0].(*value)
			if fr.i.ex.decideVal(binop(fr.i.ex, token.EQL, t, *p, args[1])) {
				*p = args[2]
				return true
			}
			return false
		}
	}
	intrinsics["sync/atomic.CompareAndSwapUint32"] = casT(types.Typ[types.Uint32])
	intrinsics["sync/atomic.CompareAndSwapInt32"] = casT(types.Typ[types.Int32])
	intrinsics["sync/atomic.CompareAndSwapUint64"] = casT(types.Typ[types.Uint64])
	intrinsics["sync/atomic.CompareAndSwapInt64"] = casT(types.Typ[types.Int64])
	// atomic.Value: struct{ v any }
	intrinsics["(*sync/atomic.Value).Store"] = func(fr *frame, args []value) value {
		p := args[0].(*value)
		(*p).(structure)[0] = args[1]
		return nil
	}
	intrinsics["(*sync/atomic.Value).Load"] = func(fr *frame, args []value) value {
		p := args[0].(*value)
		return (*p).(structure)[0]
	}

	// ---- math/big as used by internal.AdaptType ----
	intrinsics["math/big.ParseFloat"] = func(fr *frame, args []value) value {
		e := fr.i.ex
		nilF := (*value)(nil)
		mk := func(d interface{}) value {
			var c value = &opaque{kind: "bigfloat", data: d}
			return &c
		}
		switch s := args[0].(type) {
		case string:
			f, b, err := big.ParseFloat(s, args[1].(int), uint(asUint64(args[2])), big.RoundingMode(asInt64(args[3])))
			if err != nil {
				return tuple{nilF, 0, fr.i.newError(fr, err.Error())}
			}
			return tuple{mk(f), b, nilErr()}
		case symStr:
			p := normRope(s.p)
			if len(p) == 1 {
				switch p[0].k {
				case pTok:
					e.assumeNotNumeric(p[0].t)
					return tuple{nilF, 0, fr.i.newError(fr, "number has no digits")}
				case pItoa:
					return tuple{mk(symBV{p[0].t, 64}), 10, nilErr()}
				case pFtoa:
					// rendered finite floats parse back exactly; Inf parses as Inf; NaN fails
					if e.decide("(fp.isNaN " + p[0].t + ")") {
						return tuple{nilF, 0, fr.i.newError(fr, "number has no digits")}
					}
					return tuple{mk(symFP{p[0].t}), 10, nilErr()}
				}
			}
			for _, x := range p {
				if x.k == pTok {
					e.Stats.Assumptions["a string built from an opaque token and other text is not numeric"] = true
					return tuple{nilF, 0, fr.i.newError(fr, "number has no digits")}
				}
			}
			if e.cannotBeNumeric(p) {
				return tuple{nilF, 0, fr.i.newError(fr, "number has no digits")}
			}
			panic(abortPath{why: "big.ParseFloat of composite symbolic string", kind: "unsupported"})
		}
		panic("big.ParseFloat")
	}
	bigOf := func(v value) interface{} {
		return (*(v.(*value))).(*opaque).data
	}
	intrinsics["(*math/big.Float).IsInt"] = func(fr *frame, args []value) value {
		switch d := bigOf(args[0]).(type) {
		case *big.Float:
			return d.IsInt()
		case symBV:
			return true
		case symFP:
			// integral and finite
			return symBool{"(and (not (fp.isInfinite " + d.t + ")) (fp.eq (fp.roundToIntegral RTZ " + d.t + ") " + d.t + "))"}
		}
		panic("IsInt")
	}
	intrinsics["(*math/big.Float).Int64"] = func(fr *frame, args []value) value {
		switch d := bigOf(args[0]).(type) {
		case *big.Float:
			n, acc := d.Int64()
			return tuple{n, int8(acc)}
		case symBV:
			return tuple{d, int8(0)}
		case symFP:
			e := fr.i.ex
			// saturating conversion as big.Float.Int64 does
			lo, hi := fpConst(-9223372036854775808.0), fpConst(9223372036854775808.0)
			if e.decide("(fp.lt " + d.t + " " + lo + ")") {
				return tuple{int64(math.MinInt64), int8(1)}
			}
			if e.decide("(fp.geq " + d.t + " " + hi + ")") {
				return tuple{int64(math.MaxInt64), int8(-1)}
			}
			return tuple{symBV{"((_ fp.to_sbv 64) RTZ " + d.t + ")", 64}, int8(0)}
		}
		panic("Int64")
	}
	intrinsics["(*math/big.Float).Float64"] = func(fr *frame, args []value) value {
		switch d := bigOf(args[0]).(type) {
		case *big.Float:
			f, acc := d.Float64()
			return tuple{f, int8(acc)}
		case symBV:
			return tuple{symFP{"((_ to_fp 11 53) RNE " + d.t + ")"}, int8(0)}
		case symFP:
			return tuple{d, int8(0)}
		}
		panic("Float64")
	}
}

func (e *Exec) timeNow() value {
	// wall clock: an arbitrary whole-millisecond instant between 2001 and 2100, non-decreasing
	// within a path (sub-millisecond readings are outside the model)
	name := e.freshName("t_nowms")
	e.declare(name, "(_ BitVec 64)")
	e.Stats.Assumptions["time.Now() readings are arbitrary whole-millisecond instants between 2001 and 2100, non-decreasing within an execution"] = true
	e.addPC("(and (bvsge " + name + " " + bvConst(1000000000_000, 64) + ") (bvsle " + name + " " + bvConst(4102444800_000, 64) + "))")
	if e.lastNow != "" {
		e.addPC("(bvsge " + name + " " + e.lastNow + ")")
	}
	e.lastNow = name
	return timeVal{e.i64(token.MUL, symBV{name, 64}, int64(1e6))}
}

// timeDiv divides a nanosecond count by a positive constant with floor semantics (Go's
// Time.Unix* methods floor). For symbolic operands the quotient is an opaque function of the
// operand ("congruence only"): div_<c>(x) with the defining sandwich c*q <= x < c*q + c, which
// keeps queries linear instead of bit-blasting a 64-bit division.
func (e *Exec) timeDiv(ns value, c int64) value {
	if n, ok := ns.(int64); ok {
		q := n / c
		if n%c < 0 {
			q--
		}
		return q
	}
	x := ns.(symBV)
	return e.floorDiv(x.t, c)
}

// floorDiv computes floor(x / c) for c > 0. When x is known to be base*mul (time arithmetic in
// whole ms / s), the division is carried out on the factorisation, exactly, under the recorded
// no-overflow range assumption.
func (e *Exec) floorDiv(x string, c int64) value {
	if st, ok := e.scaled[x]; ok && st.mul > 1 {
		g := gcd64(st.mul, c)
		if g > 1 {
			e.assumeTimeRange(st.base, st.mul)
			if st.mul%c == 0 {
				k := st.mul / c
				if k == 1 {
					return e.rescale(st.base)
				}
				t := "(bvmul " + bvConst(k, 64) + " " + st.base + ")"
				if e.scaled == nil {
					e.scaled = map[string]scaledTerm{}
				}
				e.scaled[t] = scaledTerm{base: st.base, mul: k}
				return symBV{t, 64}
			}
			if c%st.mul == 0 {
				// floor(base*mul / c) = floor(base / (c/mul))
				return e.floorDiv(st.base, c/st.mul)
			}
		}
	}
	if c <= 1000 {
		// small constant: real signed division with floor correction
		q := "(bvsdiv " + x + " " + bvConst(c, 64) + ")"
		r := "(bvsrem " + x + " " + bvConst(c, 64) + ")"
		return symBV{"(ite (bvslt " + r + " " + bvConst(0, 64) + ") (bvsub " + q + " " + bvConst(1, 64) + ") " + q + ")", 64}
	}
	return symBV{e.divTerm(x, c), 64}
}

func (e *Exec) rescale(base string) value {
	return symBV{base, 64}
}

func (e *Exec) assumeTimeRange(base string, mul int64) {
	lim := int64(1) << 62 / mul
	e.Stats.Assumptions["time arithmetic: instants and durations are within +-2^62 ns so that ms/s/ns scaling does not overflow (paths outside are not explored)"] = true
	c := "(and (bvslt " + base + " " + bvConst(lim, 64) + ") (bvsgt " + base + " " + bvConst(-lim, 64) + "))"
	if !e.decide(c) {
		panic(abortPath{why: "time value outside modelled range", kind: "assume"})
	}
}

func (e *Exec) divTerm(x string, c int64) string {
	fn := "fdiv_" + strconv.FormatInt(c, 10)
	e.solver.declareFun(fn, "((_ BitVec 64)) (_ BitVec 64)")
	q := "(" + fn + " " + x + ")"
	key := "div " + q
	if !e.solver.lowered[key] {
		e.solver.lowered[key] = true
		cq := "(bvmul " + bvConst(c, 64) + " " + q + ")"
		// |x| < 2^62 is assumed for these axioms to be overflow free
		lim := (int64(1) << 62) / c
		e.solver.send(fmt.Sprintf("(assert (=> (and (bvslt %s #x4000000000000000) (bvsgt %s #xc000000000000000)) (and (bvsle %s %s) (bvslt (bvsub %s %s) %s) (bvsle %s %s) (bvsge %s %s))))", x, x, cq, x, x, cq, bvConst(c, 64), q, bvConst(lim, 64), q, bvConst(-lim-1, 64)))
	}
	return q
}

// deepEq: reflect.DeepEqual over interpreter values (structural; symbolic leaves fork).
func (e *Exec) deepEq(a, b value, seen map[[2]*value]bool) bool {
	switch x := a.(type) {
	case iface:
		y, ok := b.(iface)
		if !ok {
			return false
		}
		if x.t == nil || y.t == nil {
			return x.t == nil && y.t == nil
		}
		if !sameType(x.t, y.t) {
			return false
		}
		return e.deepEq(x.v, y.v, seen)
	case *value:
		y, ok := b.(*value)
		if !ok {
			return false
		}
		if x == nil || y == nil {
			return x == y
		}
		if x == y {
			return true
		}
		key := [2]*value{x, y}
		if seen[key] {
			return true
		}
		seen[key] = true
		return e.deepEq(*x, *y, seen)
	case structure:
		y, ok := b.(structure)
		if !ok || len(x) != len(y) {
			return false
		}
		for i := range x {
			if !e.deepEq(x[i], y[i], seen) {
				return false
			}
		}
		return true
	case array:
		y, ok := b.(array)
		if !ok || len(x) != len(y) {
			return false
		}
		for i := range x {
			if !e.deepEq(x[i], y[i], seen) {
				return false
			}
		}
		return true
	case []value:
		y, ok := b.([]value)
		if !ok {
			if ys, isS := b.(symStr); isS {
				return e.decideVal(e.ropeEq(toRope(x), ys))
			}
			return false
		}
		if (x == nil) != (y == nil) || len(x) != len(y) {
			return false
		}
		for i := range x {
			if !e.deepEq(x[i], y[i], seen) {
				return false
			}
		}
		return true
	case *amap:
		y, ok := b.(*amap)
		if !ok {
			return false
		}
		if (x == nil) != (y == nil) || x.len() != y.len() {
			return false
		}
		if x == nil {
			return true
		}
		for _, en := range x.ents {
			if en.dead {
				continue
			}
			v, has := y.lookup(e, en.k)
			if !has || !e.deepEq(en.v, v, seen) {
				return false
			}
		}
		return true
	case *ssa.Function:
		// funcs are deeply equal only when both are nil
		y, ok := b.(*ssa.Function)
		return ok && x == nil && y == nil
	case *closure:
		return false
	case timeVal:
		y, ok := b.(timeVal)
		return ok && e.decideVal(e.i64(token.EQL, x.ns, y.ns))
	case *opaque:
		return a == b
	case nil:
		return b == nil
	}
	if isSym(a) || isSym(b) {
		if _, isS := a.(symStr); isS {
			return e.decideVal(e.ropeEq(toRope(a), toRope(b)))
		}
		if _, isS := b.(symStr); isS {
			return e.decideVal(e.ropeEq(toRope(a), toRope(b)))
		}
		return e.decideVal(e.eqValue(symStaticType(types.Typ[types.Int64], a, b), a, b))
	}
	if reflect.TypeOf(a) != reflect.TypeOf(b) {
		return false
	}
	return a == b
}

func init() {
	intrinsics["reflect.DeepEqual"] = func(fr *frame, args []value) value {
		return fr.i.ex.deepEq(args[0], args[1], map[[2]*value]bool{})
	}
}

func init() {
	// errors.Is without reflectlite: identity / == on the chain of Unwrap() error.
	intrinsics["errors.Is"] = func(fr *frame, args []value) value {
		err, target := args[0].(iface), args[1].(iface)
		for depth := 0; depth < 16; depth++ {
			if err.t == nil {
				return target.t == nil
			}
			if target.t != nil && sameType(err.t, target.t) {
				if b, ok := fr.i.ex.eqValue(err.t, err.v, target.v).(bool); ok && b {
					return true
				}
			}
			ms := fr.i.prog.MethodSets.MethodSet(err.t)
			var next *iface
			for k := 0; k < ms.Len(); k++ {
				sel := ms.At(k)
				if sel.Obj().Name() == "Unwrap" {
					sig := sel.Type().(*types.Signature)
					if sig.Params().Len() == 0 && sig.Results().Len() == 1 {
						if f := fr.i.prog.MethodValue(sel); f != nil {
							r := call(fr.i, fr, token.NoPos, f, []value{err.v})
							if ri, ok := r.(iface); ok {
								next = &ri
							}
						}
					}
				}
			}
			if next == nil {
				return false
			}
			err = *next
		}
		return false
	}
}
