package sym

// Model of github.com/gobwas/glob (outside the repo module): concrete pattern x concrete string
// runs the real library natively; anything symbolic becomes the uninterpreted predicate
// globmatch(pattern, string) with the axioms stated in DESIGN.md §2.5.

import (
	"fmt"
	"go/types"
	"strings"

	"github.com/gobwas/glob"
)

type globObj struct {
	pat   value // string or symStr (single Str term)
	comp  glob.Glob
	plain bool // the pattern has no metacharacter: it matches exactly itself
}

func (i *interpreter) globIface(g *globObj) value {
	// any concrete type implementing glob.Glob works as the dynamic type; calls are intercepted.
	mp := i.prog.ImportedPackage("github.com/gobwas/glob/match")
	t := mp.Type("Nothing").Type()
	return iface{t: t, v: &opaque{kind: "glob", data: g}}
}

func init() {
	compile := func(fr *frame, args []value) (value, error) {
		g := &globObj{pat: args[0]}
		if s, ok := args[0].(string); ok {
			var seps []rune
			if sl, ok := args[1].([]value); ok {
				for _, r := range sl {
					seps = append(seps, r.(rune))
				}
			}
			c, err := glob.Compile(s, seps...)
			if err != nil {
				return nil, err
			}
			g.comp = c
		} else {
			r := toRope(args[0])
			if np := normRope(r.p); len(np) == 1 && (np[0].k == pItoa || np[0].k == pUtoa) {
				// a rendered integer: digits and a sign only, a valid pattern that matches exactly itself
				g.plain = true
				return fr.i.globIface(g), nil
			}
			if _, ok := fr.i.ex.strTerm(normRope(r.p)); !ok {
				panic(abortPath{why: "glob pattern built from several symbolic pieces", kind: "unsupported"})
			}
			// a symbolic pattern may be syntactically invalid (gobwas rejects e.g. an unclosed "["):
			// uninterpreted predicate globvalid(p); patterns free of metacharacters and "*" are valid
			e := fr.i.ex
			pt, _ := e.strTerm(normRope(r.p))
			e.solver.declareFun("globvalid", "(Str) Bool")
			e.solver.declareFun("metafree", "(Str) Bool")
			if !e.solver.lowered["gv "+pt] {
				e.solver.lowered["gv "+pt] = true
				e.solver.send(fmt.Sprintf("(assert (=> (metafree %s) (globvalid %s)))", pt, pt))
				e.solver.send(fmt.Sprintf("(assert (=> (= %s %s) (globvalid %s)))", pt, e.solver.lit("*"), pt))
			}
			known := false
			for _, g := range e.globCompiles {
				if g == pt {
					known = true
				}
			}
			if !known {
				e.globCompiles = append(e.globCompiles, pt)
			}
			if !e.decide("(globvalid " + pt + ")") {
				return nil, fmt.Errorf("unexpected end of input")
			}
			fr.i.ex.Stats.Assumptions["gobwas/glob: symbolic patterns are modelled by the uninterpreted predicate globmatch(p,s) with axioms globmatch(\"*\",s) and, for patterns free of glob metacharacters, globmatch(p,s) <=> p = s; glob syntax itself is outside the claim"] = true
		}
		return fr.i.globIface(g), nil
	}
	intrinsics["github.com/gobwas/glob.MustCompile"] = func(fr *frame, args []value) value {
		v, err := compile(fr, args)
		if err != nil {
			panic(targetPanic{iface{t: types.Typ[types.String], v: err.Error()}})
		}
		return v
	}
	intrinsics["github.com/gobwas/glob.Compile"] = func(fr *frame, args []value) value {
		v, err := compile(fr, args)
		if err != nil {
			return tuple{iface{}, fr.i.newError(fr, err.Error())}
		}
		return tuple{v, nilErr()}
	}
	intrinsics["(github.com/gobwas/glob/match.Nothing).Match"] = func(fr *frame, args []value) value {
		op, ok := args[0].(*opaque)
		if !ok {
			return false // a real match.Nothing
		}
		g := op.data.(*globObj)
		e := fr.i.ex
		if s, ok := args[1].(string); ok && g.comp != nil {
			return g.comp.Match(s)
		}
		if g.plain {
			return e.ropeEq(toRope(g.pat), toRope(args[1]))
		}
		if ps, ok := g.pat.(string); ok {
			if ps == "*" {
				return true
			}
			if !strings.ContainsAny(ps, "*?[]{}\\!") {
				return e.ropeEq(toRope(ps), toRope(args[1]))
			}
		}
		pt, ok1 := e.strTerm(normRope(toRope(g.pat).p))
		st, ok2 := e.strTerm(normRope(toRope(args[1]).p))
		if !ok1 || !ok2 {
			panic(abortPath{why: "glob match on composite symbolic strings", kind: "unsupported"})
		}
		return symBool{e.globMatchTerm(pt, st)}
	}
}

func (e *Exec) globMatchTerm(p, s string) string {
	e.solver.declareFun("globmatch", "(Str Str) Bool")
	e.solver.declareFun("metafree", "(Str) Bool")
	app := "(globmatch " + p + " " + s + ")"
	known := false
	for _, g := range e.globApps {
		if g[0] == p && g[1] == s {
			known = true
		}
	}
	if !known {
		e.globApps = append(e.globApps, [2]string{p, s})
	}
	key := "gm " + app
	if !e.solver.lowered[key] {
		e.solver.lowered[key] = true
		star := e.solver.lit("*")
		e.solver.send(fmt.Sprintf("(assert (=> (= %s %s) %s))", p, star, app))
		e.solver.send(fmt.Sprintf("(assert (=> (metafree %s) (= %s (= %s %s))))", p, app, p, s))
		e.solver.send(fmt.Sprintf("(assert (not (metafree %s)))", star))
	}
	return app
}
