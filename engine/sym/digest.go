package sym

// Model of crypto/sha256 + encoding/hex as used for password hashes: concrete input runs the
// real functions; symbolic input becomes hexenc(sha256raw(x)) over the Str sort, injective by
// inverse-function axioms (collision freedom is assumed and listed in the evidence).

import (
	"crypto/sha256"
	"encoding/hex"
	"fmt"
	"go/types"
	"strings"
)

type shaState struct{ acc symStr }

type digestTerm struct {
	term string // Str term hexenc(sha256raw(arg))
	arg  string // Str term of the hashed string
}

func (e *Exec) shaHexTerm(arg string) string {
	e.solver.declareFun("sha256raw", "(Str) Str")
	e.solver.declareFun("unsha256raw", "(Str) Str")
	e.solver.declareFun("hexenc", "(Str) Str")
	e.solver.declareFun("unhexenc", "(Str) Str")
	raw := "(sha256raw " + arg + ")"
	hx := "(hexenc " + raw + ")"
	key := "sha " + arg
	if !e.solver.lowered[key] {
		e.solver.lowered[key] = true
		e.solver.send(fmt.Sprintf("(assert (= (unsha256raw %s) %s))", raw, arg))
		e.solver.send(fmt.Sprintf("(assert (= (unhexenc %s) %s))", hx, raw))
		e.solver.send(fmt.Sprintf("(assert (= (slen %s) #x0000000000000020))", raw))
		e.solver.send(fmt.Sprintf("(assert (= (slen %s) #x0000000000000040))", hx))
		e.solver.send(fmt.Sprintf("(assert (clean %s))", hx))
		e.solver.send(fmt.Sprintf("(assert (not (numeric %s)))", hx))
		e.solver.send(fmt.Sprintf("(assert (= (lower %s) %s))", hx, hx))
		e.solver.send(fmt.Sprintf("(assert (>= (litid %s) 0))", hx))
	}
	found := false
	for _, d := range e.digests {
		if d.term == hx {
			found = true
		}
	}
	if !found {
		e.digests = append(e.digests, digestTerm{term: hx, arg: arg})
	}
	e.Stats.Assumptions["crypto/sha256 + hex: digests of symbolic strings are modelled by an injective uninterpreted function (collision freedom assumed); concrete strings are hashed natively"] = true
	return hx
}

func init() {
	intrinsics["crypto/sha256.New"] = func(fr *frame, args []value) value {
		t := fr.i.prog.ImportedPackage("crypto/sha256").Type("digest").Type()
		var cell value = &opaque{kind: "sha256", data: &shaState{}}
		return iface{t: types.NewPointer(t), v: &cell}
	}
	intrinsics["(*crypto/sha256.digest).Write"] = func(fr *frame, args []value) value {
		st := (*(args[0].(*value))).(*opaque).data.(*shaState)
		r := toRope(args[1])
		st.acc = symStr{p: normRope(append(append([]piece{}, st.acc.p...), r.p...))}
		n := ropeLen(r)
		return tuple{n, nilErr()}
	}
	intrinsics["(*crypto/sha256.digest).Sum"] = func(fr *frame, args []value) value {
		st := (*(args[0].(*value))).(*opaque).data.(*shaState)
		p := normRope(st.acc.p)
		if len(p) == 0 || (len(p) == 1 && p[0].k == pLit) {
			s := ""
			if len(p) == 1 {
				s = p[0].lit
			}
			sum := sha256.Sum256([]byte(s))
			out := make([]value, 0, 32)
			for _, b := range sum {
				out = append(out, b)
			}
			return out
		}
		arg, ok := fr.i.ex.strTerm(p)
		if !ok {
			panic(abortPath{why: "sha256 of a composite symbolic string", kind: "unsupported"})
		}
		fr.i.ex.shaHexTerm(arg)
		return symStr{bytes: true, p: []piece{{k: pTok, t: "(sha256raw " + arg + ")"}}}
	}
	// sha256.Sum256(data): the array form of the same digest. For symbolic data its 32 bytes are the
	// terms (sha256byte k arg); hex.EncodeToString recognises the complete sequence again.
	intrinsics["crypto/sha256.Sum256"] = func(fr *frame, args []value) value {
		r := toRope(args[0])
		p := normRope(r.p)
		if len(p) == 0 || (len(p) == 1 && p[0].k == pLit) {
			s := ""
			if len(p) == 1 {
				s = p[0].lit
			}
			sum := sha256.Sum256([]byte(s))
			out := make(array, 0, 32)
			for _, b := range sum {
				out = append(out, b)
			}
			return out
		}
		arg, ok := fr.i.ex.strTerm(p)
		if !ok {
			panic(abortPath{why: "sha256 of a composite symbolic string", kind: "unsupported"})
		}
		fr.i.ex.shaHexTerm(arg)
		fr.i.ex.solver.declareFun("sha256byte", "(Int Str) (_ BitVec 8)")
		out := make(array, 0, 32)
		for k := 0; k < 32; k++ {
			out = append(out, symBV{fmt.Sprintf("(sha256byte %d %s)", k, arg), 8})
		}
		return out
	}
	intrinsics["encoding/hex.EncodeToString"] = func(fr *frame, args []value) value {
		switch x := args[0].(type) {
		case []value:
			// the 32 bytes of one symbolic digest, in order
			if len(x) == 32 {
				if b0, ok := x[0].(symBV); ok && strings.HasPrefix(b0.t, "(sha256byte 0 ") {
					arg := strings.TrimSuffix(strings.TrimPrefix(b0.t, "(sha256byte 0 "), ")")
					whole := true
					for k := range x {
						bk, ok := x[k].(symBV)
						if !ok || bk.t != fmt.Sprintf("(sha256byte %d %s)", k, arg) {
							whole = false
						}
					}
					if whole {
						return symStr{p: []piece{{k: pTok, t: "(hexenc (sha256raw " + arg + "))"}}}
					}
				}
			}
			b := make([]byte, len(x))
			for i := range x {
				c, ok := x[i].(uint8)
				if !ok {
					panic(abortPath{why: "hex of symbolic bytes", kind: "unsupported"})
				}
				b[i] = c
			}
			return hex.EncodeToString(b)
		case symStr:
			if len(x.p) == 1 && x.p[0].k == pTok {
				return symStr{p: []piece{{k: pTok, t: "(hexenc " + x.p[0].t + ")"}}}
			}
		}
		panic(abortPath{why: "hex.EncodeToString of composite symbolic bytes", kind: "unsupported"})
	}
}

func realShaHex(s string) string {
	sum := sha256.Sum256([]byte(s))
	return hex.EncodeToString(sum[:])
}
