package sym

// Harness API (package verifrt, injected by overlay) and the tidwall/resp Reader model.

import (
	"fmt"
	"go/token"
	"go/types"
	"strings"
)

var rtIntrinsics = map[string]intrinsicFn{}

func nameArg(v value) string {
	s, ok := v.(string)
	if !ok {
		panic("verifrt: input names must be literal strings")
	}
	for _, c := range s {
		if !(c >= 'a' && c <= 'z' || c >= 'A' && c <= 'Z' || c >= '0' && c <= '9' || c == '_') {
			panic("verifrt: bad input name " + s)
		}
	}
	return s
}

func init() {
	rt := rtIntrinsics
	rt["Int"] = func(fr *frame, args []value) value {
		name := "i_" + nameArg(args[0])
		fr.i.ex.declare(name, "(_ BitVec 64)")
		return symBV{name, 64}
	}
	rt["Int64"] = func(fr *frame, args []value) value {
		name := "i_" + nameArg(args[0])
		fr.i.ex.declare(name, "(_ BitVec 64)")
		return symBV{name, 64}
	}
	rt["Uint64"] = rt["Int64"]
	rt["Byte"] = func(fr *frame, args []value) value {
		name := "y_" + nameArg(args[0])
		fr.i.ex.declare(name, "(_ BitVec 8)")
		return symBV{name, 8}
	}
	rt["Bool"] = func(fr *frame, args []value) value {
		name := "b_" + nameArg(args[0])
		fr.i.ex.declare(name, "Bool")
		return symBool{name}
	}
	rt["Float"] = func(fr *frame, args []value) value {
		name := "f_" + nameArg(args[0])
		fr.i.ex.declare(name, "(_ FloatingPoint 11 53)")
		return symFP{name}
	}
	rt["Tok"] = func(fr *frame, args []value) value {
		name := "s_" + nameArg(args[0])
		fr.i.ex.declare(name, "Str")
		return symStr{p: []piece{{k: pTok, t: name}}}
	}
	// TokN(name, n): an opaque string of exactly n bytes (n concrete)
	rt["TokN"] = func(fr *frame, args []value) value {
		name := "s_" + nameArg(args[0])
		n, ok := args[1].(int)
		if !ok || n <= 0 {
			panic("verifrt.TokN: length must be a positive constant")
		}
		fr.i.ex.declare(name, "Str")
		fr.i.ex.addPC("(= (slen " + name + ") " + bvConst(int64(n), 64) + ")")
		return symStr{p: []piece{{k: pTok, t: name, n: n}}}
	}
	rt["Bytes"] = func(fr *frame, args []value) value {
		base := nameArg(args[0])
		n, ok := args[1].(int)
		if !ok {
			panic("verifrt.Bytes: length must be concrete")
		}
		var out symStr
		for k := 0; k < n; k++ {
			name := fmt.Sprintf("y_%s_%d", base, k)
			fr.i.ex.declare(name, "(_ BitVec 8)")
			out.p = append(out.p, piece{k: pByte, t: name})
		}
		return ropeVal(out)
	}
	// Choose(name, n): arbitrary value in 0..n-1, concretised by forking.
	rt["Choose"] = func(fr *frame, args []value) value {
		e := fr.i.ex
		name := "c_" + nameArg(args[0])
		n, ok := args[1].(int)
		if !ok || n <= 0 {
			panic("verifrt.Choose: n must be a positive constant")
		}
		e.declare(name, "(_ BitVec 64)")
		e.addPC("(bvult " + name + " " + bvConst(int64(n), 64) + ")")
		return int(e.concretize(symBV{name, 64}, 0, int64(n)))
	}
	rt["Assume"] = func(fr *frame, args []value) value {
		switch c := args[0].(type) {
		case bool:
			if !c {
				panic(abortPath{why: "assume false", kind: "assume"})
			}
		case symBool:
			if !fr.i.ex.decide(c.t) {
				panic(abortPath{why: "assume false", kind: "assume"})
			}
		}
		return nil
	}
	rt["Assert"] = func(fr *frame, args []value) value {
		fr.i.ex.assertProp(args[0], args[1].(string))
		return nil
	}
	rt["Reach"] = func(fr *frame, args []value) value {
		fr.i.ex.Stats.Reached[args[0].(string)]++
		return nil
	}
	rt["Observe"] = func(fr *frame, args []value) value {
		fr.i.ex.observed = append(fr.i.ex.observed, args[0].(string)+"="+toString(args[1]))
		return nil
	}
	rt["Clean"] = func(fr *frame, args []value) value {
		switch s := args[0].(type) {
		case string:
			return !strings.ContainsAny(s, "\r\n")
		case symStr:
			var acc value = true
			for _, x := range s.p {
				switch x.k {
				case pLit:
					if strings.ContainsAny(x.lit, "\r\n") {
						return false
					}
				case pTok:
					acc = symAnd(acc, symBool{"(clean " + x.t + ")"})
				case pByte:
					acc = symAnd(acc, symBool{"(and (not (= " + x.t + " #x0d)) (not (= " + x.t + " #x0a)))"})
				}
			}
			return acc
		}
		panic("Clean")
	}
	rt["And"] = func(fr *frame, args []value) value { return symAnd(args[0], args[1]) }
	rt["Or"] = func(fr *frame, args []value) value { return symOr(args[0], args[1]) }
	rt["Not"] = func(fr *frame, args []value) value { return symNot(args[0]) }
	rt["Implies"] = func(fr *frame, args []value) value { return symOr(symNot(args[0]), args[1]) }
	rt["StrEq"] = func(fr *frame, args []value) value {
		return fr.i.ex.ropeEq(toRope(args[0]), toRope(args[1]))
	}
	// ---- file system model ----
	rt["FSReset"] = func(fr *frame, args []value) value {
		fr.i.memfs = nil
		m := fr.i.fs()
		m.nodes[fsRoot] = &fsNode{dir: true}
		return fsRoot
	}
	rt["FSCrashBefore"] = func(fr *frame, args []value) value {
		m := fr.i.fs()
		var n int
		if sb, ok := args[0].(symBV); ok {
			n = int(fr.i.ex.concretize(sb, 0, 64))
		} else {
			n = int(asInt64(args[0]))
		}
		if n <= 0 {
			m.crashAt = 0
		} else {
			m.crashAt = m.ops + n
		}
		return nil
	}
	rt["FSOps"] = func(fr *frame, args []value) value { return fr.i.fs().ops }
	rt["FSReboot"] = func(fr *frame, args []value) value {
		fr.i.fsReboot()
		return nil
	}
	rt["FireTickers"] = func(fr *frame, args []value) value {
		fr.i.runQueued() // let goroutines reach the point where they create and wait on their tickers
		for _, ch := range fr.i.tickers {
			select {
			case ch <- timeVal{tns(fr.i.ex.timeNow())}:
			default:
			}
		}
		fr.i.runQueued()
		return nil
	}
	rt["Tier"] = func(fr *frame, args []value) value { return fr.i.ex.tier }
	rt["Symbolic"] = func(fr *frame, args []value) value { return true }
	rt["Quiesce"] = func(fr *frame, args []value) value {
		fr.i.runQueued()
		return nil
	}
	rt["ScheduleND"] = func(fr *frame, args []value) value {
		fr.i.ex.schedND = args[0].(bool)
		return nil
	}
	// Yield: a scheduling point between harness threads started with verifrt.Go. The decision
	// "hand over to the other thread?" is a named symbolic choice (c_sched_<k>), so that a
	// counterexample carries its schedule and the native twin can force it.
	rt["Yield"] = func(fr *frame, args []value) value {
		fr.i.schedPoint(false)
		return nil
	}
	// PreemptAtLocks(n): from now on every mutex acquisition is a scheduling point as well; at
	// most n pre-emptions are taken on one path (context bound).
	rt["PreemptAtLocks"] = func(fr *frame, args []value) value {
		fr.i.preemptLocks = true
		fr.i.preemptLeft = int(asInt64(args[0]))
		return nil
	}
	// Rounds(n): how many times a free-running native stress repeats the scenario; once here.
	rt["Rounds"] = func(fr *frame, args []value) value { return int(1) }
	// Go(f): start f as a harness thread (runs when the scheduler hands it the baton).
	rt["Go"] = func(fr *frame, args []value) value {
		i := fr.i
		f := args[0]
		t := i.spawn(func() {
			call(i, nil, token.NoPos, f, nil)
		})
		t.harness = true
		i.deadlockIsEvent = true
		return nil
	}
	// Join: wait until every thread started with Go has finished.
	rt["Join"] = func(fr *frame, args []value) value {
		i := fr.i
		me := i.cur
		i.blockUntil(func() bool { return len(i.liveOthers(me)) == 0 || i.allOthersParked(me) }, "Join")
		return nil
	}
	rt["MapOrderND"] = func(fr *frame, args []value) value {
		fr.i.ex.mapOrderND = args[0].(bool)
		return nil
	}
	// SameTerm(a,b): engine-level check that two values are the identical term (no solver).
	rt["RawEqual"] = func(fr *frame, args []value) value {
		return fr.i.ex.eqValue(types.Typ[types.String], args[0], args[1])
	}
	// DecodeOK(reply) (kindString, ok): parses reply as exactly one strict RESP value.
	// Decode returns a flat description: kind byte, integer, string, n children; children via DecodeChild.
	rt["Decode"] = func(fr *frame, args []value) value {
		e := fr.i.ex
		r := toRope(args[0])
		node, err := e.respParseWhole(r)
		if err != nil {
			return e.respToHarness(fr, nil, err.msg)
		}
		return e.respToHarness(fr, node, "")
	}
}

// respToHarness builds the harness-side verifrt.Resp struct:
//
//	type Resp struct { OK bool; Err string; Kind byte; Null bool; Int int64; Str string; Bool bool; Elems []Resp }
func (e *Exec) respToHarness(fr *frame, n *respNode, errmsg string) value {
	if n == nil {
		return structure{false, errmsg, uint8(0), false, int64(0), "", false, []value(nil)}
	}
	var iv value = int64(0)
	if n.intv != nil {
		iv = n.intv
	}
	s := n.str
	s.bytes = false
	var elems []value
	for _, ch := range n.children {
		elems = append(elems, e.respToHarness(fr, ch, ""))
	}
	return structure{true, "", n.typ, n.null, iv, ropeVal(s), n.boolv, elems}
}

// ---- tidwall/resp Reader model ----

type respReader struct {
	cur  *respCursor
	pipe *pipeEnd // non-nil: the reader takes its bytes from this end of a modelled net.Pipe
}

func init() {
	intrinsics["github.com/tidwall/resp.NewReader"] = func(fr *frame, args []value) value {
		rd := args[0].(iface)
		// *bytes.Reader{s []byte, i int64, prevRune int}
		if p, ok := rd.v.(*value); ok && p != nil && strings.HasSuffix(rd.t.String(), "bytes.Reader") {
			st := (*p).(structure)
			r := toRope(st[0])
			var c value = &opaque{kind: "respreader", data: &respReader{cur: &respCursor{p: normRope(r.p)}}}
			return &c
		}
		// any other io.Reader: keep it for models that supply ReadAll-able content
		if src, ok := fr.i.readerContent(fr, rd); ok {
			// the reader buffers what the connection delivers: the harness connection is told that its
			// bytes have been taken (a second reader over the same connection finds nothing left)
			if rd.t != nil {
				ms := fr.i.prog.MethodSets.MethodSet(rd.t)
				for k := 0; k < ms.Len(); k++ {
					if ms.At(k).Obj().Name() == "VerifConsume" {
						call(fr.i, fr, token.NoPos, fr.i.prog.MethodValue(ms.At(k)), []value{rd.v})
					}
				}
			}
			var c value = &opaque{kind: "respreader", data: &respReader{cur: &respCursor{p: normRope(src.p)}}}
			return &c
		}
		panic(abortPath{why: "resp.NewReader over " + rd.t.String(), kind: "unsupported"})
	}
	intrinsics["(*github.com/tidwall/resp.Reader).ReadValue"] = func(fr *frame, args []value) value {
		e := fr.i.ex
		rp, _ := args[0].(*value)
		if rp == nil {
			panic(abortPath{why: "resp.Conn reader over a connection that is not a modelled pipe", kind: "unsupported"})
		}
		rr := (*rp).(*opaque).data.(*respReader)
		vt := fr.i.prog.ImportedPackage("github.com/tidwall/resp").Type("Value").Type()
		zeroV := zero(vt)
		if rr.pipe != nil {
			// wait for bytes, then read one value from the front of the pipe's buffer and consume it
			buf := rr.pipe.rd
			fr.i.blockUntil(func() bool { return !buf.empty() || buf.closed }, "read on a pipe nobody writes to")
			if buf.empty() {
				return tuple{zeroV, 0, fr.i.ioEOF()}
			}
			cur := &respCursor{p: buf.p}
			node, err := e.respParse(cur, 0)
			if err != nil {
				return tuple{zeroV, 0, fr.i.newError(fr, "Protocol error: "+err.msg)}
			}
			var rest []piece
			if cur.i < len(cur.p) {
				if cur.p[cur.i].k == pLit {
					if cur.off < len(cur.p[cur.i].lit) {
						rest = append(rest, piece{k: pLit, lit: cur.p[cur.i].lit[cur.off:]})
					}
					rest = append(rest, cur.p[cur.i+1:]...)
				} else {
					rest = append(rest, cur.p[cur.i:]...)
				}
			}
			buf.p = rest
			fr.i.progress++
			return tuple{respNodeToValue(node), 0, nilErr()}
		}
		if rr.cur.eof() {
			return tuple{zeroV, 0, fr.i.ioEOF()}
		}
		lit := rr.cur.peekLit()
		if lit == "" || strings.IndexByte("+-:$*", lit[0]) < 0 {
			e.Stats.Assumptions["resp.Reader: input that does not start with a RESP type byte (telnet-style inline commands) is modelled as a protocol error"] = true
			return tuple{zeroV, 0, fr.i.newError(fr, "Protocol error: not RESP")}
		}
		i0, off0 := rr.cur.i, rr.cur.off
		node, err := e.respParse(rr.cur, 0)
		if err != nil {
			return tuple{zeroV, 0, fr.i.newError(fr, "Protocol error: "+err.msg)}
		}
		// n = number of bytes consumed
		var used []piece
		for k := i0; k < len(rr.cur.p) && k <= rr.cur.i; k++ {
			x := rr.cur.p[k]
			if x.k == pLit {
				lo, hi := 0, len(x.lit)
				if k == i0 {
					lo = off0
				}
				if k == rr.cur.i {
					hi = rr.cur.off
				}
				if lo < hi {
					used = append(used, piece{k: pLit, lit: x.lit[lo:hi]})
				}
			} else if k < rr.cur.i {
				used = append(used, x)
			}
		}
		return tuple{respNodeToValue(node), ropeLen(symStr{p: used}), nilErr()}
	}
}

func respNodeToValue(n *respNode) value {
	// resp.Value{typ Type, integer int, str []byte, array []Value, null bool}
	var str value = []value(nil)
	var integer value = int(0)
	var arr []value
	typ := n.typ
	switch n.typ {
	case '+', '-', '$':
		s := n.str
		s.bytes = true
		if len(s.p) == 0 {
			str = []value{}
		} else if len(s.p) == 1 && s.p[0].k == pLit {
			b := make([]value, len(s.p[0].lit))
			for i := range b {
				b[i] = s.p[0].lit[i]
			}
			str = b
		} else {
			str = s
		}
	case ':':
		switch iv := n.intv.(type) {
		case int64:
			integer = int(iv)
		default:
			integer = iv
		}
	case '*':
		for _, ch := range n.children {
			arr = append(arr, respNodeToValue(ch))
		}
		if arr == nil && !n.null {
			arr = []value{}
		}
	}
	return structure{typ, integer, str, arr, n.null}
}

func (i *interpreter) ioEOF() value {
	g := i.prog.ImportedPackage("io").Members["EOF"].(interface{ Type() types.Type })
	_ = g
	i.ensureInit(i.prog.ImportedPackage("io"))
	for gl, cell := range i.globals {
		if gl.Pkg != nil && gl.Pkg.Pkg.Path() == "io" && gl.Name() == "EOF" {
			return *cell
		}
	}
	panic("io.EOF not found")
}

// readerContent extracts the full remaining content of a modelled io.Reader.
func (i *interpreter) readerContent(fr *frame, rd iface) (symStr, bool) {
	if p, ok := rd.v.(*value); ok && p != nil {
		if op, ok := (*p).(*opaque); ok && op.kind == "fsfile" {
			h := op.data.(*fsHandle)
			r := i.fsContentFrom(h)
			h.pos = -1
			if l, ok := ropeConcreteLen(h.node.data); ok {
				h.pos = l
			}
			return r, true
		}
		if op, ok := (*p).(*opaque); ok && op.kind == "memfile" {
			f := op.data.(*memFile)
			r := f.content()
			return r, true
		}
	}
	// harness-defined readers may expose Content() []byte
	if rd.t != nil {
		ms := i.prog.MethodSets.MethodSet(rd.t)
		for k := 0; k < ms.Len(); k++ {
			if ms.At(k).Obj().Name() == "VerifContent" {
				f := i.prog.MethodValue(ms.At(k))
				r := call(i, fr, token.NoPos, f, []value{rd.v})
				return toRope(r), true
			}
		}
	}
	return symStr{}, false
}

// ---- tidwall/resp Conn / Writer model ----

func init() {
	// io.ReadAll over a harness file that exposes VerifContent: the remaining content, with the
	// offset moved to the end through the file's own Seek
	intrinsics["io.ReadAll"] = func(fr *frame, args []value) value {
		rd := args[0].(iface)
		r, ok := fr.i.readerContent(fr, rd)
		if !ok {
			panic(abortPath{why: "io.ReadAll over " + fmt.Sprint(rd.t), kind: "unsupported"})
		}
		ms := fr.i.prog.MethodSets.MethodSet(rd.t)
		for k := 0; k < ms.Len(); k++ {
			if ms.At(k).Obj().Name() == "Seek" {
				f := fr.i.prog.MethodValue(ms.At(k))
				call(fr.i, fr, token.NoPos, f, []value{rd.v, int64(0), int(2)})
			}
		}
		return tuple{bytesValue(r), nilErr()}
	}
	intrinsics["github.com/tidwall/resp.NewConn"] = func(fr *frame, args []value) value {
		// &Conn{Reader *Reader, Writer *Writer, base net.Conn, RemoteAddr string}
		var w value = &opaque{kind: "respwriter", data: args[0]}
		var rd *value
		if cv, ok := args[0].(iface); ok {
			if pe := pipeOf(cv.v); pe != nil {
				var r value = &opaque{kind: "respreader", data: &respReader{pipe: pe}}
				rd = &r
			}
		}
		var c value = structure{rd, &w, args[0], ""}
		return &c
	}
	intrinsics["github.com/tidwall/resp.NewWriter"] = func(fr *frame, args []value) value {
		var w value = &opaque{kind: "respwriter", data: args[0]}
		return &w
	}
	writeTo := func(fr *frame, w value, r symStr) value {
		op := (*(w.(*value))).(*opaque)
		dst := op.data.(iface)
		if dst.t == nil {
			return fr.i.newError(fr, "write to nil connection")
		}
		// call dst.Write([]byte)
		ms := fr.i.prog.MethodSets.MethodSet(dst.t)
		for k := 0; k < ms.Len(); k++ {
			if ms.At(k).Obj().Name() == "Write" {
				f := fr.i.prog.MethodValue(ms.At(k))
				r.bytes = true
				var payload value = r
				if len(r.p) == 0 {
					payload = []value{}
				} else if len(r.p) == 1 && r.p[0].k == pLit {
					b := make([]value, len(r.p[0].lit))
					for i := range b {
						b[i] = r.p[0].lit[i]
					}
					payload = b
				}
				res := call(fr.i, fr, token.NoPos, f, []value{dst.v, payload})
				if t, ok := res.(tuple); ok && len(t) == 2 {
					return t[1]
				}
				return nilErr()
			}
		}
		panic(abortPath{why: "resp.Writer over a value without Write", kind: "unsupported"})
	}
	intrinsics["(*github.com/tidwall/resp.Writer).WriteArray"] = func(fr *frame, args []value) value {
		vals := args[1].([]value)
		out := symStr{p: []piece{{k: pLit, lit: "*" + fmt.Sprint(len(vals)) + "\r\n"}}}
		for _, v := range vals {
			out.p = append(out.p, respValueRope(v).p...)
		}
		out.p = normRope(out.p)
		return writeTo(fr, args[0], out)
	}
	intrinsics["(github.com/tidwall/resp.Value).MarshalRESP"] = func(fr *frame, args []value) value {
		r := respValueRope(args[0])
		r.bytes = true
		return tuple{r, nilErr()}
	}
	intrinsics["(*github.com/tidwall/resp.Writer).WriteValue"] = func(fr *frame, args []value) value {
		return writeTo(fr, args[0], respValueRope(args[1]))
	}
}

// respValueRope renders a resp.Value structure {typ, integer, str, array, null}.
func respValueRope(v value) symStr {
	st := v.(structure)
	typ := byte(asInt64(st[0]))
	null, _ := st[4].(bool)
	lenPiece := func(r symStr) []piece {
		switch l := ropeLen(r).(type) {
		case int:
			return []piece{{k: pLit, lit: fmt.Sprint(l)}}
		case symBV:
			return []piece{{k: pItoa, t: l.t}}
		}
		return nil
	}
	switch typ {
	case '$':
		if null {
			return symStr{p: []piece{{k: pLit, lit: "$-1\r\n"}}}
		}
		body := toRope(st[2])
		p := []piece{{k: pLit, lit: "$"}}
		p = append(p, lenPiece(body)...)
		p = append(p, piece{k: pLit, lit: "\r\n"})
		p = append(p, body.p...)
		p = append(p, piece{k: pLit, lit: "\r\n"})
		return symStr{p: normRope(p)}
	case '+', '-':
		body := toRope(st[2])
		p := []piece{{k: pLit, lit: string(typ)}}
		p = append(p, body.p...)
		p = append(p, piece{k: pLit, lit: "\r\n"})
		return symStr{p: normRope(p)}
	case ':':
		switch n := st[1].(type) {
		case int:
			return symStr{p: []piece{{k: pLit, lit: ":" + fmt.Sprint(n) + "\r\n"}}}
		case symBV:
			return symStr{p: []piece{{k: pLit, lit: ":"}, {k: pItoa, t: n.t}, {k: pLit, lit: "\r\n"}}}
		}
	case '*':
		if null {
			return symStr{p: []piece{{k: pLit, lit: "*-1\r\n"}}}
		}
		arr, _ := st[3].([]value)
		p := []piece{{k: pLit, lit: "*" + fmt.Sprint(len(arr)) + "\r\n"}}
		for _, e := range arr {
			p = append(p, respValueRope(e).p...)
		}
		return symStr{p: normRope(p)}
	}
	panic(abortPath{why: fmt.Sprintf("resp value of type %q", typ), kind: "unsupported"})
}
