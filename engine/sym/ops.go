// Copyright 2013 The Go Authors. All rights reserved.
// Use of this source code is governed by a BSD-style
// license that can be found in the LICENSE file.

package sym

import (
	"bytes"
	"fmt"
	"go/constant"
	"go/token"
	"go/types"
	"os"
	"strings"
	"unsafe"

	"golang.org/x/tools/go/ssa"
)

// If the target program panics, the interpreter panics with this type.
type targetPanic struct {
	v value
}

func (p targetPanic) String() string {
	return toString(p.v)
}

// If the target program calls exit, the interpreter panics with this type.
type exitPanic int

// constValue returns the value of the constant with the
// dynamic type tag appropriate for c.Type().
func constValue(c *ssa.Const) value {
	if c.Value == nil {
		return zero(c.Type()) // typed zero
	}
	// c is not a type parameter so it's underlying type is basic.

	if t, ok := c.Type().Underlying().(*types.Basic); ok {
		// TODO(adonovan): eliminate untyped constants from SSA form.
		switch t.Kind() {
		case types.Bool, types.UntypedBool:
			return constant.BoolVal(c.Value)
		case types.Int, types.UntypedInt:
			// Assume sizeof(int) is same on host and target.
			return int(c.Int64())
		case types.Int8:
			return int8(c.Int64())
		case types.Int16:
			return int16(c.Int64())
		case types.Int32, types.UntypedRune:
			return int32(c.Int64())
		case types.Int64:
			return c.Int64()
		case types.Uint:
			// Assume sizeof(uint) is same on host and target.
			return uint(c.Uint64())
		case types.Uint8:
			return uint8(c.Uint64())
		case types.Uint16:
			return uint16(c.Uint64())
		case types.Uint32:
			return uint32(c.Uint64())
		case types.Uint64:
			return c.Uint64()
		case types.Uintptr:
			// Assume sizeof(uintptr) is same on host and target.
			return uintptr(c.Uint64())
		case types.Float32:
			return float32(c.Float64())
		case types.Float64, types.UntypedFloat:
			return c.Float64()
		case types.Complex64:
			return complex64(c.Complex128())
		case types.Complex128, types.UntypedComplex:
			return c.Complex128()
		case types.String, types.UntypedString:
			if c.Value.Kind() == constant.String {
				return constant.StringVal(c.Value)
			}
			return string(rune(c.Int64()))
		}
	}

	panic(fmt.Sprintf("constValue: %s", c))
}

// fitsInt returns true if x fits in type int according to sizes.
func fitsInt(x int64, sizes types.Sizes) bool {
	intSize := sizes.Sizeof(types.Typ[types.Int])
	if intSize < sizes.Sizeof(types.Typ[types.Int64]) {
		maxInt := int64(1)<<((intSize*8)-1) - 1
		minInt := -int64(1) << ((intSize * 8) - 1)
		return minInt <= x && x <= maxInt
	}
	return true
}

// asInt64 converts x, which must be an integer, to an int64.
//
// Callers that need a value directly usable as an int should combine this with fitsInt().
func asInt64(x value) int64 {
	switch x := x.(type) {
	case int:
		return int64(x)
	case int8:
		return int64(x)
	case int16:
		return int64(x)
	case int32:
		return int64(x)
	case int64:
		return x
	case uint:
		return int64(x)
	case uint8:
		return int64(x)
	case uint16:
		return int64(x)
	case uint32:
		return int64(x)
	case uint64:
		return int64(x)
	case uintptr:
		return int64(x)
	}
	panic(fmt.Sprintf("cannot convert %T to int64", x))
}

// asUint64 converts x, which must be an unsigned integer, to a uint64
// suitable for use as a bitwise shift count.
func asUint64(x value) uint64 {
	switch x := x.(type) {
	case uint:
		return uint64(x)
	case uint8:
		return uint64(x)
	case uint16:
		return uint64(x)
	case uint32:
		return uint64(x)
	case uint64:
		return x
	case uintptr:
		return uint64(x)
	}
	panic(fmt.Sprintf("cannot convert %T to uint64", x))
}

// asUnsigned returns the value of x, which must be an integer type, as its equivalent unsigned type,
// and returns true if x is non-negative.
func asUnsigned(x value) (value, bool) {
	switch x := x.(type) {
	case int:
		return uint(x), x >= 0
	case int8:
		return uint8(x), x >= 0
	case int16:
		return uint16(x), x >= 0
	case int32:
		return uint32(x), x >= 0
	case int64:
		return uint64(x), x >= 0
	case uint, uint8, uint32, uint64, uintptr:
		return x, true
	}
	panic(fmt.Sprintf("cannot convert %T to unsigned", x))
}

// zero returns a new "zero" value of the specified type.
func zero(t types.Type) value {
	switch t := t.(type) {
	case *types.Basic:
		if t.Kind() == types.UntypedNil {
			panic("untyped nil has no zero value")
		}
		if t.Info()&types.IsUntyped != 0 {
			// TODO(adonovan): make it an invariant that
			// this is unreachable.  Currently some
			// constants have 'untyped' types when they
			// should be defaulted by the typechecker.
			t = types.Default(t).(*types.Basic)
		}
		switch t.Kind() {
		case types.Bool:
			return false
		case types.Int:
			return int(0)
		case types.Int8:
			return int8(0)
		case types.Int16:
			return int16(0)
		case types.Int32:
			return int32(0)
		case types.Int64:
			return int64(0)
		case types.Uint:
			return uint(0)
		case types.Uint8:
			return uint8(0)
		case types.Uint16:
			return uint16(0)
		case types.Uint32:
			return uint32(0)
		case types.Uint64:
			return uint64(0)
		case types.Uintptr:
			return uintptr(0)
		case types.Float32:
			return float32(0)
		case types.Float64:
			return float64(0)
		case types.Complex64:
			return complex64(0)
		case types.Complex128:
			return complex128(0)
		case types.String:
			return ""
		case types.UnsafePointer:
			return unsafe.Pointer(nil)
		default:
			panic(fmt.Sprint("zero for unexpected type:", t))
		}
	case *types.Pointer:
		return (*value)(nil)
	case *types.Array:
		a := make(array, t.Len())
		for i := range a {
			a[i] = zero(t.Elem())
		}
		return a
	case *types.Named:
		if isTimeType(t) {
			return timeVal{ns: zeroTimeNS}
		}
		return zero(t.Underlying())
	case *types.Alias:
		return zero(types.Unalias(t))
	case *types.Interface:
		return iface{} // nil type, methodset and value
	case *types.Slice:
		return []value(nil)
	case *types.Struct:
		s := make(structure, t.NumFields())
		for i := range s {
			s[i] = zero(t.Field(i).Type())
		}
		return s
	case *types.Tuple:
		if t.Len() == 1 {
			return zero(t.At(0).Type())
		}
		s := make(tuple, t.Len())
		for i := range s {
			s[i] = zero(t.At(i).Type())
		}
		return s
	case *types.Chan:
		return chan value(nil)
	case *types.Map:
		return (*amap)(nil)
	case *types.Signature:
		return (*ssa.Function)(nil)
	}
	panic(fmt.Sprint("zero: unexpected ", t))
}

// slice returns x[lo:hi:max].  Any of lo, hi and max may be nil.
func slice(ex *Exec, x, lo, hi, max value) value {
	var Len, Cap int
	var rope *symStr
	switch x := x.(type) {
	case string:
		Len = len(x)
	case symStr:
		rope = &x
	case []value:
		Len = len(x)
		Cap = cap(x)
	case *value: // *array
		a := (*x).(array)
		Len = len(a)
		Cap = cap(a)
	}
	if rope != nil {
		return ex.sliceRope(*rope, lo, hi)
	}
	// symbolic bounds: fork the bounds check, then concretise
	conc := func(v value, limit int) int64 {
		if sv, ok := v.(symBV); ok {
			inb := "(and (bvsge " + sv.t + " " + bvConst(0, sv.w) + ") (bvsle " + sv.t + " " + bvConst(int64(limit), sv.w) + "))"
			if !ex.decide(inb) {
				panic(runtimeError(fmt.Sprintf("runtime error: slice bounds out of range [sym] with capacity %d", limit)))
			}
			return ex.concretize(sv, 0, int64(limit)+1)
		}
		return asInt64(v)
	}
	limit := Cap
	if _, ok := x.(string); ok {
		limit = Len
	}

	l := int64(0)
	if lo != nil {
		l = conc(lo, limit)
	}

	h := int64(Len)
	if hi != nil {
		h = conc(hi, limit)
	}

	m := int64(Cap)
	if max != nil {
		m = conc(max, limit)
	}
	if l < 0 || h < l || h > int64(limit) || (max != nil && (m < h || m > int64(Cap))) {
		panic(runtimeError(fmt.Sprintf("runtime error: slice bounds out of range [%d:%d] with capacity %d", l, h, limit)))
	}

	switch x := x.(type) {
	case string:
		return x[l:h]
	case []value:
		return x[l:h:m]
	case *value: // *array
		a := (*x).(array)
		return []value(a)[l:h:m]
	}
	panic(fmt.Sprintf("slice: unexpected X type: %T", x))
}

// lookup returns x[idx] where x is a map.
func lookup(ex *Exec, instr *ssa.Lookup, x, idx value) value {
	switch x := x.(type) { // map or string
	case *amap:
		v, ok := x.lookup(ex, idx)
		if !ok {
			v = zero(instr.X.Type().Underlying().(*types.Map).Elem())
		}
		if instr.CommaOk {
			v = tuple{v, ok}
		}
		return v
	}
	panic(fmt.Sprintf("unexpected x type in Lookup: %T", x))
}

// binop implements all arithmetic and logical binary operators for
// numeric datatypes and strings.  Both operands must have identical
// dynamic type.
func binop(ex *Exec, op token.Token, t types.Type, x, y value) value {
	if isSym(x) || isSym(y) {
		return ex.symBinop(op, t, x, y)
	}
	if op == token.EQL || op == token.NEQ {
		if containsSym(x) || containsSym(y) {
			r := ex.eqValue(t, x, y)
			if op == token.NEQ {
				return symNot(r)
			}
			return r
		}
	}
	if op == token.QUO || op == token.REM {
		switch yy := y.(type) {
		case int, int8, int16, int32, int64:
			if asInt64(yy) == 0 {
				panic(runtimeError("runtime error: integer divide by zero"))
			}
		case uint, uint8, uint16, uint32, uint64, uintptr:
			if asUint64(yy) == 0 {
				panic(runtimeError("runtime error: integer divide by zero"))
			}
		}
	}
	switch op {
	case token.ADD:
		switch x.(type) {
		case int:
			return x.(int) + y.(int)
		case int8:
			return x.(int8) + y.(int8)
		case int16:
			return x.(int16) + y.(int16)
		case int32:
			return x.(int32) + y.(int32)
		case int64:
			return x.(int64) + y.(int64)
		case uint:
			return x.(uint) + y.(uint)
		case uint8:
			return x.(uint8) + y.(uint8)
		case uint16:
			return x.(uint16) + y.(uint16)
		case uint32:
			return x.(uint32) + y.(uint32)
		case uint64:
			return x.(uint64) + y.(uint64)
		case uintptr:
			return x.(uintptr) + y.(uintptr)
		case float32:
			return x.(float32) + y.(float32)
		case float64:
			return x.(float64) + y.(float64)
		case complex64:
			return x.(complex64) + y.(complex64)
		case complex128:
			return x.(complex128) + y.(complex128)
		case string:
			return x.(string) + y.(string)
		}

	case token.SUB:
		switch x.(type) {
		case int:
			return x.(int) - y.(int)
		case int8:
			return x.(int8) - y.(int8)
		case int16:
			return x.(int16) - y.(int16)
		case int32:
			return x.(int32) - y.(int32)
		case int64:
			return x.(int64) - y.(int64)
		case uint:
			return x.(uint) - y.(uint)
		case uint8:
			return x.(uint8) - y.(uint8)
		case uint16:
			return x.(uint16) - y.(uint16)
		case uint32:
			return x.(uint32) - y.(uint32)
		case uint64:
			return x.(uint64) - y.(uint64)
		case uintptr:
			return x.(uintptr) - y.(uintptr)
		case float32:
			return x.(float32) - y.(float32)
		case float64:
			return x.(float64) - y.(float64)
		case complex64:
			return x.(complex64) - y.(complex64)
		case complex128:
			return x.(complex128) - y.(complex128)
		}

	case token.MUL:
		switch x.(type) {
		case int:
			return x.(int) * y.(int)
		case int8:
			return x.(int8) * y.(int8)
		case int16:
			return x.(int16) * y.(int16)
		case int32:
			return x.(int32) * y.(int32)
		case int64:
			return x.(int64) * y.(int64)
		case uint:
			return x.(uint) * y.(uint)
		case uint8:
			return x.(uint8) * y.(uint8)
		case uint16:
			return x.(uint16) * y.(uint16)
		case uint32:
			return x.(uint32) * y.(uint32)
		case uint64:
			return x.(uint64) * y.(uint64)
		case uintptr:
			return x.(uintptr) * y.(uintptr)
		case float32:
			return x.(float32) * y.(float32)
		case float64:
			return x.(float64) * y.(float64)
		case complex64:
			return x.(complex64) * y.(complex64)
		case complex128:
			return x.(complex128) * y.(complex128)
		}

	case token.QUO:
		switch x.(type) {
		case int:
			return x.(int) / y.(int)
		case int8:
			return x.(int8) / y.(int8)
		case int16:
			return x.(int16) / y.(int16)
		case int32:
			return x.(int32) / y.(int32)
		case int64:
			return x.(int64) / y.(int64)
		case uint:
			return x.(uint) / y.(uint)
		case uint8:
			return x.(uint8) / y.(uint8)
		case uint16:
			return x.(uint16) / y.(uint16)
		case uint32:
			return x.(uint32) / y.(uint32)
		case uint64:
			return x.(uint64) / y.(uint64)
		case uintptr:
			return x.(uintptr) / y.(uintptr)
		case float32:
			return x.(float32) / y.(float32)
		case float64:
			return x.(float64) / y.(float64)
		case complex64:
			return x.(complex64) / y.(complex64)
		case complex128:
			return x.(complex128) / y.(complex128)
		}

	case token.REM:
		switch x.(type) {
		case int:
			return x.(int) % y.(int)
		case int8:
			return x.(int8) % y.(int8)
		case int16:
			return x.(int16) % y.(int16)
		case int32:
			return x.(int32) % y.(int32)
		case int64:
			return x.(int64) % y.(int64)
		case uint:
			return x.(uint) % y.(uint)
		case uint8:
			return x.(uint8) % y.(uint8)
		case uint16:
			return x.(uint16) % y.(uint16)
		case uint32:
			return x.(uint32) % y.(uint32)
		case uint64:
			return x.(uint64) % y.(uint64)
		case uintptr:
			return x.(uintptr) % y.(uintptr)
		}

	case token.AND:
		switch x.(type) {
		case int:
			return x.(int) & y.(int)
		case int8:
			return x.(int8) & y.(int8)
		case int16:
			return x.(int16) & y.(int16)
		case int32:
			return x.(int32) & y.(int32)
		case int64:
			return x.(int64) & y.(int64)
		case uint:
			return x.(uint) & y.(uint)
		case uint8:
			return x.(uint8) & y.(uint8)
		case uint16:
			return x.(uint16) & y.(uint16)
		case uint32:
			return x.(uint32) & y.(uint32)
		case uint64:
			return x.(uint64) & y.(uint64)
		case uintptr:
			return x.(uintptr) & y.(uintptr)
		}

	case token.OR:
		switch x.(type) {
		case int:
			return x.(int) | y.(int)
		case int8:
			return x.(int8) | y.(int8)
		case int16:
			return x.(int16) | y.(int16)
		case int32:
			return x.(int32) | y.(int32)
		case int64:
			return x.(int64) | y.(int64)
		case uint:
			return x.(uint) | y.(uint)
		case uint8:
			return x.(uint8) | y.(uint8)
		case uint16:
			return x.(uint16) | y.(uint16)
		case uint32:
			return x.(uint32) | y.(uint32)
		case uint64:
			return x.(uint64) | y.(uint64)
		case uintptr:
			return x.(uintptr) | y.(uintptr)
		}

	case token.XOR:
		switch x.(type) {
		case int:
			return x.(int) ^ y.(int)
		case int8:
			return x.(int8) ^ y.(int8)
		case int16:
			return x.(int16) ^ y.(int16)
		case int32:
			return x.(int32) ^ y.(int32)
		case int64:
			return x.(int64) ^ y.(int64)
		case uint:
			return x.(uint) ^ y.(uint)
		case uint8:
			return x.(uint8) ^ y.(uint8)
		case uint16:
			return x.(uint16) ^ y.(uint16)
		case uint32:
			return x.(uint32) ^ y.(uint32)
		case uint64:
			return x.(uint64) ^ y.(uint64)
		case uintptr:
			return x.(uintptr) ^ y.(uintptr)
		}

	case token.AND_NOT:
		switch x.(type) {
		case int:
			return x.(int) &^ y.(int)
		case int8:
			return x.(int8) &^ y.(int8)
		case int16:
			return x.(int16) &^ y.(int16)
		case int32:
			return x.(int32) &^ y.(int32)
		case int64:
			return x.(int64) &^ y.(int64)
		case uint:
			return x.(uint) &^ y.(uint)
		case uint8:
			return x.(uint8) &^ y.(uint8)
		case uint16:
			return x.(uint16) &^ y.(uint16)
		case uint32:
			return x.(uint32) &^ y.(uint32)
		case uint64:
			return x.(uint64) &^ y.(uint64)
		case uintptr:
			return x.(uintptr) &^ y.(uintptr)
		}

	case token.SHL:
		u, ok := asUnsigned(y)
		if !ok {
			panic("negative shift amount")
		}
		y := asUint64(u)
		switch x.(type) {
		case int:
			return x.(int) << y
		case int8:
			return x.(int8) << y
		case int16:
			return x.(int16) << y
		case int32:
			return x.(int32) << y
		case int64:
			return x.(int64) << y
		case uint:
			return x.(uint) << y
		case uint8:
			return x.(uint8) << y
		case uint16:
			return x.(uint16) << y
		case uint32:
			return x.(uint32) << y
		case uint64:
			return x.(uint64) << y
		case uintptr:
			return x.(uintptr) << y
		}

	case token.SHR:
		u, ok := asUnsigned(y)
		if !ok {
			panic("negative shift amount")
		}
		y := asUint64(u)
		switch x.(type) {
		case int:
			return x.(int) >> y
		case int8:
			return x.(int8) >> y
		case int16:
			return x.(int16) >> y
		case int32:
			return x.(int32) >> y
		case int64:
			return x.(int64) >> y
		case uint:
			return x.(uint) >> y
		case uint8:
			return x.(uint8) >> y
		case uint16:
			return x.(uint16) >> y
		case uint32:
			return x.(uint32) >> y
		case uint64:
			return x.(uint64) >> y
		case uintptr:
			return x.(uintptr) >> y
		}

	case token.LSS:
		switch x.(type) {
		case int:
			return x.(int) < y.(int)
		case int8:
			return x.(int8) < y.(int8)
		case int16:
			return x.(int16) < y.(int16)
		case int32:
			return x.(int32) < y.(int32)
		case int64:
			return x.(int64) < y.(int64)
		case uint:
			return x.(uint) < y.(uint)
		case uint8:
			return x.(uint8) < y.(uint8)
		case uint16:
			return x.(uint16) < y.(uint16)
		case uint32:
			return x.(uint32) < y.(uint32)
		case uint64:
			return x.(uint64) < y.(uint64)
		case uintptr:
			return x.(uintptr) < y.(uintptr)
		case float32:
			return x.(float32) < y.(float32)
		case float64:
			return x.(float64) < y.(float64)
		case string:
			return x.(string) < y.(string)
		}

	case token.LEQ:
		switch x.(type) {
		case int:
			return x.(int) <= y.(int)
		case int8:
			return x.(int8) <= y.(int8)
		case int16:
			return x.(int16) <= y.(int16)
		case int32:
			return x.(int32) <= y.(int32)
		case int64:
			return x.(int64) <= y.(int64)
		case uint:
			return x.(uint) <= y.(uint)
		case uint8:
			return x.(uint8) <= y.(uint8)
		case uint16:
			return x.(uint16) <= y.(uint16)
		case uint32:
			return x.(uint32) <= y.(uint32)
		case uint64:
			return x.(uint64) <= y.(uint64)
		case uintptr:
			return x.(uintptr) <= y.(uintptr)
		case float32:
			return x.(float32) <= y.(float32)
		case float64:
			return x.(float64) <= y.(float64)
		case string:
			return x.(string) <= y.(string)
		}

	case token.EQL:
		return eqnil(t, x, y)

	case token.NEQ:
		return !eqnil(t, x, y)

	case token.GTR:
		switch x.(type) {
		case int:
			return x.(int) > y.(int)
		case int8:
			return x.(int8) > y.(int8)
		case int16:
			return x.(int16) > y.(int16)
		case int32:
			return x.(int32) > y.(int32)
		case int64:
			return x.(int64) > y.(int64)
		case uint:
			return x.(uint) > y.(uint)
		case uint8:
			return x.(uint8) > y.(uint8)
		case uint16:
			return x.(uint16) > y.(uint16)
		case uint32:
			return x.(uint32) > y.(uint32)
		case uint64:
			return x.(uint64) > y.(uint64)
		case uintptr:
			return x.(uintptr) > y.(uintptr)
		case float32:
			return x.(float32) > y.(float32)
		case float64:
			return x.(float64) > y.(float64)
		case string:
			return x.(string) > y.(string)
		}

	case token.GEQ:
		switch x.(type) {
		case int:
			return x.(int) >= y.(int)
		case int8:
			return x.(int8) >= y.(int8)
		case int16:
			return x.(int16) >= y.(int16)
		case int32:
			return x.(int32) >= y.(int32)
		case int64:
			return x.(int64) >= y.(int64)
		case uint:
			return x.(uint) >= y.(uint)
		case uint8:
			return x.(uint8) >= y.(uint8)
		case uint16:
			return x.(uint16) >= y.(uint16)
		case uint32:
			return x.(uint32) >= y.(uint32)
		case uint64:
			return x.(uint64) >= y.(uint64)
		case uintptr:
			return x.(uintptr) >= y.(uintptr)
		case float32:
			return x.(float32) >= y.(float32)
		case float64:
			return x.(float64) >= y.(float64)
		case string:
			return x.(string) >= y.(string)
		}
	}
	panic(fmt.Sprintf("invalid binary op: %T %s %T", x, op, y))
}

// eqnil returns the comparison x == y using the equivalence relation
// appropriate for type t.
// If t is a reference type, at most one of x or y may be a nil value
// of that type.
func eqnil(t types.Type, x, y value) bool {
	switch t.Underlying().(type) {
	case *types.Map, *types.Signature, *types.Slice:
		// Since these types don't support comparison,
		// one of the operands must be a literal nil.
		switch x := x.(type) {
		case *amap:
			return (x != nil) == (y.(*amap) != nil)
		case symStr:
			return false
		case *ssa.Function:
			switch y := y.(type) {
			case *ssa.Function:
				return (x != nil) == (y != nil)
			case *closure:
				return true
			}
		case *closure:
			return (x != nil) == (y.(*ssa.Function) != nil)
		case []value:
			if _, ok := y.(symStr); ok {
				return false
			}
			return (x != nil) == (y.([]value) != nil)
		}
		panic(fmt.Sprintf("eqnil(%s): illegal dynamic type: %T", t, x))
	}

	return equals(t, x, y)
}

func unop(exI *interpreter, instr *ssa.UnOp, x value) value {
	ex := exI.ex
	if isSym(x) {
		return ex.symUnop(instr.Op, instr.X.Type(), x)
	}
	switch instr.Op {
	case token.ARROW: // receive
		var v value
		var ok bool
		ch := x.(chan value)
		got := false
		try := func() bool {
			if got {
				return true
			}
			select {
			case v, ok = <-ch:
				got = true
			default:
			}
			return got
		}
		if !try() {
			exI.blockUntil(try, "receive on an empty channel")
		}
		exI.progress++
		if !ok {
			v = zero(instr.X.Type().Underlying().(*types.Chan).Elem())
		}
		if instr.CommaOk {
			v = tuple{v, ok}
		}
		return v
	case token.SUB:
		switch x := x.(type) {
		case int:
			return -x
		case int8:
			return -x
		case int16:
			return -x
		case int32:
			return -x
		case int64:
			return -x
		case uint:
			return -x
		case uint8:
			return -x
		case uint16:
			return -x
		case uint32:
			return -x
		case uint64:
			return -x
		case uintptr:
			return -x
		case float32:
			return -x
		case float64:
			return -x
		case complex64:
			return -x
		case complex128:
			return -x
		}
	case token.MUL:
		return load(mustDeref(instr.X.Type()), x.(*value))
	case token.NOT:
		return !x.(bool)
	case token.XOR:
		switch x := x.(type) {
		case int:
			return ^x
		case int8:
			return ^x
		case int16:
			return ^x
		case int32:
			return ^x
		case int64:
			return ^x
		case uint:
			return ^x
		case uint8:
			return ^x
		case uint16:
			return ^x
		case uint32:
			return ^x
		case uint64:
			return ^x
		case uintptr:
			return ^x
		}
	}
	panic(fmt.Sprintf("invalid unary op %s %T", instr.Op, x))
}

// typeAssert checks whether dynamic type of itf is instr.AssertedType.
// It returns the extracted value on success, and panics on failure,
// unless instr.CommaOk, in which case it always returns a "value,ok" tuple.
func typeAssert(i *interpreter, instr *ssa.TypeAssert, itf iface) value {
	var v value
	err := ""
	if itf.t == nil {
		err = fmt.Sprintf("interface conversion: interface is nil, not %s", instr.AssertedType)

	} else if idst, ok := instr.AssertedType.Underlying().(*types.Interface); ok {
		v = itf
		err = checkInterface(i, idst, itf)

	} else if types.Identical(itf.t, instr.AssertedType) {
		v = itf.v // extract value

	} else {
		err = fmt.Sprintf("interface conversion: interface is %s, not %s", itf.t, instr.AssertedType)
	}
	// Note: if instr.Underlying==true ever becomes reachable from interp check that
	// types.Identical(itf.t.Underlying(), instr.AssertedType)

	if err != "" {
		if !instr.CommaOk {
			panic(err)
		}
		return tuple{zero(instr.AssertedType), false}
	}
	if instr.CommaOk {
		return tuple{v, true}
	}
	return v
}

// This variable is no longer used but remains to prevent build breakage.
var CapturedOutput *bytes.Buffer

// callBuiltin interprets a call to builtin fn with arguments args,
// returning its result.
func callBuiltin(caller *frame, callpos token.Pos, fn *ssa.Builtin, args []value) value {
	switch fn.Name() {
	case "append":
		if len(args) == 1 {
			return args[0]
		}
		if _, ok := args[0].(symStr); ok || isSym(args[1]) || hasSymByte(args[0]) || hasSymByte(args[1]) {
			if isByteSliceOrString(args[0]) && isByteSliceOrString(args[1]) {
				a := toRope(args[0])
				a.bytes = true
				return ropeConcat(a, toRope(args[1]))
			}
		}
		if s, ok := args[1].(string); ok {
			// append([]byte, ...string) []byte
			arg0 := args[0].([]value)
			for i := 0; i < len(s); i++ {
				arg0 = append(arg0, s[i])
			}
			return arg0
		}
		// append([]T, ...[]T) []T
		return append(args[0].([]value), args[1].([]value)...)

	case "copy": // copy([]T, []T) int or copy([]byte, string) int
		src := args[1]
		if _, ok := src.(string); ok {
			params := fn.Type().(*types.Signature).Params()
			src = conv(caller.i.ex, params.At(0).Type(), params.At(1).Type(), src)
		}
		if r, ok := src.(symStr); ok {
			dst := args[0].([]value)
			n, okc := concreteLen(r.p)
			if !okc {
				// rendered numbers are spelled out (forking over their few feasible values)
				r = caller.i.ex.concretizeNumbers(r)
				n, okc = concreteLen(r.p)
			}
			if !okc {
				panic(abortPath{why: "copy from opaque string", kind: "unsupported"})
			}
			if n > len(dst) {
				n = len(dst)
			}
			for i := 0; i < n; i++ {
				dst[i] = ropeIndex(r, i)
			}
			return n
		}
		return copy(args[0].([]value), src.([]value))

	case "close": // close(chan T)
		close(args[0].(chan value))
		return nil

	case "delete": // delete(map[K]value, K)
		switch m := args[0].(type) {
		case *amap:
			m.delete(caller.i.ex, args[1])
		default:
			panic(fmt.Sprintf("illegal map type: %T", m))
		}
		return nil

	case "print", "println": // print(any, ...)
		ln := fn.Name() == "println"
		var buf bytes.Buffer
		for i, arg := range args {
			if i > 0 && ln {
				buf.WriteRune(' ')
			}
			buf.WriteString(toString(arg))
		}
		if ln {
			buf.WriteRune('\n')
		}
		os.Stderr.Write(buf.Bytes())
		return nil

	case "len":
		switch x := args[0].(type) {
		case symStr:
			return ropeLen(x)
		case string:
			return len(x)
		case array:
			return len(x)
		case *value:
			return len((*x).(array))
		case []value:
			return len(x)
		case *amap:
			return x.len()
		case chan value:
			return len(x)
		default:
			panic(fmt.Sprintf("len: illegal operand: %T", x))
		}

	case "cap":
		switch x := args[0].(type) {
		case array:
			return cap(x)
		case *value:
			return cap((*x).(array))
		case []value:
			return cap(x)
		case chan value:
			return cap(x)
		default:
			panic(fmt.Sprintf("cap: illegal operand: %T", x))
		}

	case "min":
		return foldLeft(func(a, b value) value { return minv(caller.i.ex, a, b) }, args)
	case "max":
		return foldLeft(func(a, b value) value { return maxv(caller.i.ex, a, b) }, args)
	case "clear":
		switch m := args[0].(type) {
		case *amap:
			m.clear()
		case []value:
			var et types.Type
			if sig, ok := fn.Type().(*types.Signature); ok && sig.Params().Len() == 1 {
				if sl, ok := sig.Params().At(0).Type().Underlying().(*types.Slice); ok {
					et = sl.Elem()
				}
			}
			for i := range m {
				if et != nil {
					m[i] = zero(et)
				} else {
					m[i] = zeroLike(m[i])
				}
			}
		default:
			panic(fmt.Sprintf("clear: illegal operand: %T", m))
		}
		return nil

	case "real":
		switch c := args[0].(type) {
		case complex64:
			return real(c)
		case complex128:
			return real(c)
		default:
			panic(fmt.Sprintf("real: illegal operand: %T", c))
		}

	case "imag":
		switch c := args[0].(type) {
		case complex64:
			return imag(c)
		case complex128:
			return imag(c)
		default:
			panic(fmt.Sprintf("imag: illegal operand: %T", c))
		}

	case "complex":
		switch f := args[0].(type) {
		case float32:
			return complex(f, args[1].(float32))
		case float64:
			return complex(f, args[1].(float64))
		default:
			panic(fmt.Sprintf("complex: illegal operand: %T", f))
		}

	case "panic":
		// ssa.Panic handles most cases; this is only for "go
		// panic" or "defer panic".
		panic(targetPanic{args[0]})

	case "recover":
		return doRecover(caller)

	case "ssa:wrapnilchk":
		recv := args[0]
		if recv.(*value) == nil {
			recvType := args[1]
			methodName := args[2]
			panic(fmt.Sprintf("value method (%s).%s called using nil *%s pointer",
				recvType, methodName, recvType))
		}
		return recv

	case "ssa:deferstack":
		return &caller.defers
	}

	panic("unknown built-in: " + fn.Name())
}

func rangeIter(ex *Exec, x value, t types.Type) iter {
	switch x := x.(type) {
	case *amap:
		return x.iter(ex)
	case string:
		return &stringIter{Reader: strings.NewReader(x)}
	case symStr:
		return &ropeIter{r: x}
	}
	panic(fmt.Sprintf("cannot range over %T", x))
}

// widen widens a basic typed value x to the widest type of its
// category, one of:
//
//	bool, int64, uint64, float64, complex128, string.
//
// This is inefficient but reduces the size of the cross-product of
// cases we have to consider.
func widen(x value) value {
	switch y := x.(type) {
	case bool, int64, uint64, float64, complex128, string, unsafe.Pointer:
		return x
	case int:
		return int64(y)
	case int8:
		return int64(y)
	case int16:
		return int64(y)
	case int32:
		return int64(y)
	case uint:
		return uint64(y)
	case uint8:
		return uint64(y)
	case uint16:
		return uint64(y)
	case uint32:
		return uint64(y)
	case uintptr:
		return uint64(y)
	case float32:
		return float64(y)
	case complex64:
		return complex128(y)
	}
	panic(fmt.Sprintf("cannot widen %T", x))
}

// conv converts the value x of type t_src to type t_dst and returns
// the result.
// Possible cases are described with the ssa.Convert operator.
func conv(ex *Exec, t_dst, t_src types.Type, x value) value {
	if isSym(x) {
		return ex.symConv(t_dst, t_src, x)
	}
	if sl, ok := x.([]value); ok {
		if b, isB := t_dst.Underlying().(*types.Basic); isB && b.Kind() == types.String {
			if et, isS := t_src.Underlying().(*types.Slice); isS {
				if eb, isEB := et.Elem().Underlying().(*types.Basic); isEB && eb.Kind() == types.Int32 {
					for _, r := range sl {
						if _, isSym := r.(symBV); isSym {
							return ex.runesToRope(sl)
						}
					}
				}
			}
		}
	}
	if sl, ok := x.([]value); ok && hasSymByte(sl) {
		if b, ok := t_dst.Underlying().(*types.Basic); ok && b.Kind() == types.String {
			r := toRope(sl)
			r.bytes = false
			return ropeVal(r)
		}
	}
	ut_src := t_src.Underlying()
	ut_dst := t_dst.Underlying()

	// Destination type is not an "untyped" type.
	if b, ok := ut_dst.(*types.Basic); ok && b.Info()&types.IsUntyped != 0 {
		panic("oops: conversion to 'untyped' type: " + b.String())
	}

	// Nor is it an interface type.
	if _, ok := ut_dst.(*types.Interface); ok {
		if _, ok := ut_src.(*types.Interface); ok {
			panic("oops: Convert should be ChangeInterface")
		} else {
			panic("oops: Convert should be MakeInterface")
		}
	}

	// Remaining conversions:
	//    + untyped string/number/bool constant to a specific
	//      representation.
	//    + conversions between non-complex numeric types.
	//    + conversions between complex numeric types.
	//    + integer/[]byte/[]rune -> string.
	//    + string -> []byte/[]rune.
	//
	// All are treated the same: first we extract the value to the
	// widest representation (int64, uint64, float64, complex128,
	// or string), then we convert it to the desired type.

	switch ut_src := ut_src.(type) {
	case *types.Pointer:
		switch ut_dst := ut_dst.(type) {
		case *types.Basic:
			// *value to unsafe.Pointer?
			if ut_dst.Kind() == types.UnsafePointer {
				return unsafe.Pointer(x.(*value))
			}
		}

	case *types.Slice:
		// []byte or []rune -> string
		switch ut_src.Elem().Underlying().(*types.Basic).Kind() {
		case types.Byte:
			x := x.([]value)
			b := make([]byte, 0, len(x))
			for i := range x {
				b = append(b, x[i].(byte))
			}
			return string(b)

		case types.Rune:
			x := x.([]value)
			r := make([]rune, 0, len(x))
			for i := range x {
				r = append(r, x[i].(rune))
			}
			return string(r)
		}

	case *types.Basic:
		x = widen(x)

		// integer -> string?
		if ut_src.Info()&types.IsInteger != 0 {
			if ut_dst, ok := ut_dst.(*types.Basic); ok && ut_dst.Kind() == types.String {
				return fmt.Sprintf("%c", x)
			}
		}

		// string -> []rune, []byte or string?
		if s, ok := x.(string); ok {
			switch ut_dst := ut_dst.(type) {
			case *types.Slice:
				var res []value
				switch ut_dst.Elem().Underlying().(*types.Basic).Kind() {
				case types.Rune:
					for _, r := range []rune(s) {
						res = append(res, r)
					}
					return res
				case types.Byte:
					for _, b := range []byte(s) {
						res = append(res, b)
					}
					return res
				}
			case *types.Basic:
				if ut_dst.Kind() == types.String {
					return x.(string)
				}
			}
			break // fail: no other conversions for string
		}

		// unsafe.Pointer -> *value
		if ut_src.Kind() == types.UnsafePointer {
			// TODO(adonovan): this is wrong and cannot
			// really be fixed with the current design.
			//
			// return (*value)(x.(unsafe.Pointer))
			// creates a new pointer of a different
			// type but the underlying interface value
			// knows its "true" type and so cannot be
			// meaningfully used through the new pointer.
			//
			// To make this work, the interpreter needs to
			// simulate the memory layout of a real
			// compiled implementation.
			//
			// To at least preserve type-safety, we'll
			// just return the zero value of the
			// destination type.
			return zero(t_dst)
		}

		// Conversions between complex numeric types?
		if ut_src.Info()&types.IsComplex != 0 {
			switch ut_dst.(*types.Basic).Kind() {
			case types.Complex64:
				return complex64(x.(complex128))
			case types.Complex128:
				return x.(complex128)
			}
			break // fail: no other conversions for complex
		}

		// Conversions between non-complex numeric types?
		if ut_src.Info()&types.IsNumeric != 0 {
			kind := ut_dst.(*types.Basic).Kind()
			switch x := x.(type) {
			case int64: // signed integer -> numeric?
				switch kind {
				case types.Int:
					return int(x)
				case types.Int8:
					return int8(x)
				case types.Int16:
					return int16(x)
				case types.Int32:
					return int32(x)
				case types.Int64:
					return int64(x)
				case types.Uint:
					return uint(x)
				case types.Uint8:
					return uint8(x)
				case types.Uint16:
					return uint16(x)
				case types.Uint32:
					return uint32(x)
				case types.Uint64:
					return uint64(x)
				case types.Uintptr:
					return uintptr(x)
				case types.Float32:
					return float32(x)
				case types.Float64:
					return float64(x)
				}

			case uint64: // unsigned integer -> numeric?
				switch kind {
				case types.Int:
					return int(x)
				case types.Int8:
					return int8(x)
				case types.Int16:
					return int16(x)
				case types.Int32:
					return int32(x)
				case types.Int64:
					return int64(x)
				case types.Uint:
					return uint(x)
				case types.Uint8:
					return uint8(x)
				case types.Uint16:
					return uint16(x)
				case types.Uint32:
					return uint32(x)
				case types.Uint64:
					return uint64(x)
				case types.Uintptr:
					return uintptr(x)
				case types.Float32:
					return float32(x)
				case types.Float64:
					return float64(x)
				}

			case float64: // floating point -> numeric?
				switch kind {
				case types.Int:
					return int(x)
				case types.Int8:
					return int8(x)
				case types.Int16:
					return int16(x)
				case types.Int32:
					return int32(x)
				case types.Int64:
					return int64(x)
				case types.Uint:
					return uint(x)
				case types.Uint8:
					return uint8(x)
				case types.Uint16:
					return uint16(x)
				case types.Uint32:
					return uint32(x)
				case types.Uint64:
					return uint64(x)
				case types.Uintptr:
					return uintptr(x)
				case types.Float32:
					return float32(x)
				case types.Float64:
					return float64(x)
				}
			}
		}
	}

	panic(fmt.Sprintf("unsupported conversion: %s  -> %s, dynamic type %T", t_src, t_dst, x))
}

// sliceToArrayPointer converts the value x of type slice to type t_dst
// a pointer to array and returns the result.
func sliceToArrayPointer(t_dst, t_src types.Type, x value) value {
	if _, ok := t_src.Underlying().(*types.Slice); ok {
		if ptr, ok := t_dst.Underlying().(*types.Pointer); ok {
			if arr, ok := ptr.Elem().Underlying().(*types.Array); ok {
				x := x.([]value)
				if arr.Len() > int64(len(x)) {
					panic("array length is greater than slice length")
				}
				if x == nil {
					return zero(t_dst)
				}
				v := value(array(x[:arr.Len()]))
				return &v
			}
		}
	}

	panic(fmt.Sprintf("unsupported conversion: %s  -> %s, dynamic type %T", t_src, t_dst, x))
}

// checkInterface checks that the method set of x implements the
// interface itype.
// On success it returns "", on failure, an error message.
func checkInterface(i *interpreter, itype *types.Interface, x iface) string {
	if meth, _ := types.MissingMethod(x.t, itype, true); meth != nil {
		return fmt.Sprintf("interface conversion: %v is not %v: missing method %s",
			x.t, itype, meth.Name())
	}
	return "" // ok
}

func foldLeft(op func(value, value) value, args []value) value {
	x := args[0]
	for _, arg := range args[1:] {
		x = op(x, arg)
	}
	return x
}

func min(x, y value) value {
	switch x := x.(type) {
	case float32:
		return fmin(x, y.(float32))
	case float64:
		return fmin(x, y.(float64))
	}

	// return (y < x) ? y : x
	if binop(nil, token.LSS, nil, y, x).(bool) {
		return y
	}
	return x
}

func max(x, y value) value {
	switch x := x.(type) {
	case float32:
		return fmax(x, y.(float32))
	case float64:
		return fmax(x, y.(float64))
	}

	// return (y > x) ? y : x
	if binop(nil, token.GTR, nil, y, x).(bool) {
		return y
	}
	return x
}

// copied from $GOROOT/src/runtime/minmax.go

type floaty interface{ ~float32 | ~float64 }

func fmin[F floaty](x, y F) F {
	if y != y || y < x {
		return y
	}
	if x != x || x < y || x != 0 {
		return x
	}
	// x and y are both ±0
	// if either is -0, return -0; else return +0
	return forbits(x, y)
}

func fmax[F floaty](x, y F) F {
	if y != y || y > x {
		return y
	}
	if x != x || x > y || x != 0 {
		return x
	}
	// x and y are both ±0
	// if both are -0, return -0; else return +0
	return fandbits(x, y)
}

func forbits[F floaty](x, y F) F {
	switch unsafe.Sizeof(x) {
	case 4:
		*(*uint32)(unsafe.Pointer(&x)) |= *(*uint32)(unsafe.Pointer(&y))
	case 8:
		*(*uint64)(unsafe.Pointer(&x)) |= *(*uint64)(unsafe.Pointer(&y))
	}
	return x
}

func fandbits[F floaty](x, y F) F {
	switch unsafe.Sizeof(x) {
	case 4:
		*(*uint32)(unsafe.Pointer(&x)) &= *(*uint32)(unsafe.Pointer(&y))
	case 8:
		*(*uint64)(unsafe.Pointer(&x)) &= *(*uint64)(unsafe.Pointer(&y))
	}
	return x
}
