// symgo: bounded symbolic execution of Go SSA with an SMT solver, driver for /verif checks.
package main

import (
	"bytes"
	"encoding/json"
	"flag"
	"fmt"
	"go/ast"
	"go/parser"
	"go/printer"
	"go/token"
	"os"
	"os/exec"
	"path/filepath"
	"regexp"
	"runtime"
	"sort"
	"strconv"
	"strings"
	"sync"
	"time"

	"golang.org/x/tools/go/packages"
	"golang.org/x/tools/go/ssa"
	"golang.org/x/tools/go/ssa/ssautil"

	"symgo/sym"
)

type knownFile struct {
	Findings []struct {
		Property   string `json:"property"`
		Obligation string `json:"obligation"`
		Region     string `json:"region"`
		What       string `json:"what"`
		Status     string `json:"status"`
		Commit     string `json:"commit,omitempty"`
	} `json:"findings"`
}

type harnessFile struct {
	src     string // path under /verif/harness
	pkgDir  string // directory relative to repo root
	overlay string // path under /repo
}

var (
	repoDir  = flag.String("repo", "/repo", "repository root")
	verifDir = flag.String("verif", "/verif", "verif root")
	prop     = flag.String("prop", "", "property id (e.g. C15)")
	tier     = flag.String("tier", "quick", "quick | thorough")
	only     = flag.String("only", "", "regexp selecting harness functions")
	jobs     = flag.Int("j", 0, "parallel workers (0 = number of CPUs, at most 16)")
	solver   = flag.String("solver", "z3-new", "solver binary")
	replayF  = flag.String("replay", "", "replay a counterexample file natively")
	noReplay = flag.Bool("noreplay", false, "do not replay counterexamples natively (debug)")
	logSMT   = flag.String("logsmt", "", "write SMT-LIB transcript of the (single) harness to this file")
	verbose  = flag.Bool("v", false, "verbose")
	budgetS  = flag.Int("budget", 0, "per-harness wall-clock budget in seconds (0 = tier default)")
	maxDec   = flag.Int("maxdec", 0, "per-path decision budget")
	maxCex   = flag.Int("maxcex", 3, "counterexamples kept per obligation")
	noEvid   = flag.Bool("noevidence", false, "do not write the evidence file")
)

func goEnv() []string {
	return append(os.Environ(), "GOFLAGS=-mod=mod", "GOPROXY=off", "GOSUMDB=off", "GOTOOLCHAIN=local")
}

func collectHarness() (files []harnessFile, err error) {
	root := filepath.Join(*verifDir, "harness")
	err = filepath.Walk(root, func(p string, info os.FileInfo, err error) error {
		if err != nil || info.IsDir() || !strings.HasSuffix(p, ".go") {
			return err
		}
		rel, _ := filepath.Rel(root, p)
		dir := filepath.Dir(rel)
		base := filepath.Base(rel)
		var pkgDir, name string
		if dir == "verifrt" {
			pkgDir = "internal/verifrt"
			name = base
		} else {
			// harness/<pkg path with __ for />/file.go  e.g. harness/internal__modules__acl/c06.go
			pkgDir = strings.ReplaceAll(dir, "__", "/")
			name = "zz_verif_" + base
		}
		files = append(files, harnessFile{src: p, pkgDir: pkgDir, overlay: filepath.Join(*repoDir, pkgDir, name)})
		return nil
	})
	return
}

type replayRec struct {
	Harness    string            `json:"harness"`
	Package    string            `json:"package"`
	Obligation string            `json:"obligation"`
	Property   string            `json:"property"`
	Values     map[string]string `json:"values"`
	Tier       int               `json:"tier"`
	Known      string            `json:"known,omitempty"`
}

func queryTimeoutMS() int {
	if *tier == "thorough" {
		return 120000
	}
	return 30000
}

func tierNum() int {
	if *tier == "thorough" {
		return 1
	}
	return 0
}

func main() {
	flag.Parse()
	if *jobs <= 0 {
		*jobs = runtime.NumCPU()
		if *jobs > 16 {
			*jobs = 16
		}
	}
	if *replayF != "" {
		os.Exit(replayMain(*replayF))
	}
	if *prop == "" {
		fmt.Fprintln(os.Stderr, "usage: symgo -prop C15 [-tier quick|thorough]")
		os.Exit(2)
	}
	os.Exit(checkMain())
}

func loadProgram(files []harnessFile, pkgDirs []string) (*ssa.Program, []*ssa.Package, error) {
	overlay := map[string][]byte{}
	for _, f := range files {
		b, err := os.ReadFile(f.src)
		if err != nil {
			return nil, nil, err
		}
		overlay[f.overlay] = b
	}
	cfg := &packages.Config{
		Mode:    packages.LoadAllSyntax,
		Dir:     *repoDir,
		Overlay: overlay,
		Env:     goEnv(),
	}
	var pats []string
	for _, d := range pkgDirs {
		pats = append(pats, "./"+d)
	}
	pkgs, err := packages.Load(cfg, pats...)
	if err != nil {
		return nil, nil, err
	}
	if packages.PrintErrors(pkgs) > 0 {
		return nil, nil, fmt.Errorf("package load errors")
	}
	prog, spkgs := ssautil.AllPackages(pkgs, ssa.InstantiateGenerics)
	prog.Build()
	return prog, spkgs, nil
}

type harnessRun struct {
	fn  *ssa.Function
	pkg *ssa.Package
	dir string
	res sym.Result
}

func checkMain() int {
	t0 := time.Now()
	seed := 0
	if s := os.Getenv("VERIF_SEED"); s != "" {
		seed, _ = strconv.Atoi(s)
	}
	files, err := collectHarness()
	if err != nil {
		fmt.Println("BROKEN: cannot collect harness files:", err)
		return 2
	}
	// which package dirs carry harnesses for this property?
	re := regexp.MustCompile(`(?m)^func (Verif_` + regexp.QuoteMeta(*prop) + `_\w+)\(\)`)
	dirSet := map[string]bool{}
	for _, f := range files {
		b, _ := os.ReadFile(f.src)
		if re.Match(b) {
			dirSet[f.pkgDir] = true
		}
	}
	if len(dirSet) == 0 {
		fmt.Println("BROKEN: no harness for property", *prop)
		return 2
	}
	var dirs []string
	for d := range dirSet {
		dirs = append(dirs, d)
	}
	sort.Strings(dirs)
	// only overlay harness files of those dirs (+ runtime)
	var use []harnessFile
	for _, f := range files {
		if dirSet[f.pkgDir] || f.pkgDir == "internal/verifrt" {
			use = append(use, f)
		}
	}
	prog, spkgs, err := loadProgram(use, dirs)
	if err != nil {
		fmt.Println("BROKEN: load:", err)
		return 2
	}
	loadT := time.Since(t0)
	var onlyRe *regexp.Regexp
	if *only != "" {
		onlyRe = regexp.MustCompile(*only)
	}
	var runs []*harnessRun
	for k, sp := range spkgs {
		if sp == nil {
			continue
		}
		var names []string
		for name, m := range sp.Members {
			if _, ok := m.(*ssa.Function); ok && strings.HasPrefix(name, "Verif_"+*prop+"_") {
				if onlyRe != nil && !onlyRe.MatchString(name) {
					continue
				}
				names = append(names, name)
			}
		}
		sort.Strings(names)
		for _, n := range names {
			runs = append(runs, &harnessRun{fn: sp.Func(n), pkg: sp, dir: dirs[min(k, len(dirs)-1)]})
		}
	}
	// map package -> dir properly
	for _, r := range runs {
		p := r.pkg.Pkg.Path()
		r.dir = strings.TrimPrefix(strings.TrimPrefix(p, "github.com/echovault/sugardb"), "/")
	}
	if len(runs) == 0 {
		fmt.Println("BROKEN: no harness functions found for", *prop)
		return 2
	}
	known := loadKnown()
	var kregs []sym.KnownRegion
	for _, k := range known.Findings {
		if k.Property == *prop {
			kregs = append(kregs, sym.KnownRegion{Obligation: k.Obligation, Region: k.Region, What: k.What, Status: k.Status})
		}
	}
	budget := 600 * time.Second // per harness; the quick harnesses finish in well under two minutes each on an idle 16-core machine
	if *tier == "thorough" {
		budget = 1500 * time.Second
	}
	if *budgetS > 0 {
		budget = time.Duration(*budgetS) * time.Second
	}
	var wg sync.WaitGroup
	sem := make(chan struct{}, *jobs)
	for _, r := range runs {
		wg.Add(1)
		go func(r *harnessRun) {
			defer wg.Done()
			sem <- struct{}{}
			defer func() { <-sem }()
			opt := sym.Options{SolverBin: *solver, SolverArgs: []string{"-in", fmt.Sprintf("-t:%d", queryTimeoutMS())}, Budget: budget, Known: kregs, MaxDec: *maxDec, Tier: tierNum(), MaxCex: *maxCex}
			if strings.Contains(*solver, "cvc5") {
				opt.SolverArgs = []string{"--incremental", "--lang=smt2"}
			}
			if *logSMT != "" {
				opt.LogSMT = *logSMT
			}
			r.res = sym.Explore(prog, r.fn, opt)
			if *verbose {
				fmt.Fprintf(os.Stderr, "  %s: paths=%d queries=%d viol=%d aborts=%d panics=%d wall=%s\n", r.fn.Name(), r.res.Stats.Paths, r.res.Stats.Queries, len(r.res.Violations), len(r.res.Aborts), len(r.res.Panics), r.res.Wall.Round(time.Millisecond))
			}
		}(r)
	}
	wg.Wait()
	exploreT := time.Since(t0) - loadT

	// ---- triage ----
	broken := 0
	var brokenMsgs []string
	violations := 0
	knownHits := map[string]bool{}
	unconfirmed := 0
	confirmed := 0
	replayed := 0
	var vioLines []string
	funcs := map[string]bool{}
	assumptions := map[string]bool{}
	totalPaths, totalQueries, totalAsserts, nontrivial := 0, 0, 0, 0
	var solverNS int64
	obligations := map[string]int{}
	obligFailed := map[string]bool{}
	var samples []interface{}
	reachEnd := 0

	// group violations by package for replay
	type pending struct {
		run *harnessRun
		v   sym.Violation
		rec replayRec
		fn  string
	}
	var pend []pending
	for _, r := range runs {
		res := r.res
		totalPaths += res.Stats.Paths
		totalQueries += res.Stats.Queries
		totalAsserts += res.Stats.Asserts
		solverNS += res.Stats.SolverNS
		for f := range res.Functions {
			funcs[f] = true
		}
		for a := range res.Stats.Assumptions {
			assumptions[a] = true
		}
		for o, n := range res.Stats.AssertSites {
			obligations[o] += n
		}
		for _, n := range res.Stats.NontrivialAsserts {
			nontrivial += n
		}
		if res.Stats.Reached["end"] > 0 {
			reachEnd++
		} else if len(res.Violations) == 0 {
			broken++
			brokenMsgs = append(brokenMsgs, fmt.Sprintf("%s: vacuous - no feasible path reached the end of the harness", r.fn.Name()))
		}
		if res.TimedOut {
			broken++
			brokenMsgs = append(brokenMsgs, fmt.Sprintf("%s: wall-clock budget exhausted after %d paths (bound not covered)", r.fn.Name(), res.Stats.Paths))
		}
		if res.PathLimit {
			broken++
			brokenMsgs = append(brokenMsgs, fmt.Sprintf("%s: path limit reached", r.fn.Name()))
		}
		for k, a := range res.Aborts {
			if k < 5 {
				brokenMsgs = append(brokenMsgs, fmt.Sprintf("%s: %s: %s [%s]", r.fn.Name(), a.Kind, a.Why, lastFrames(a.Stack, 4)))
			}
			broken++
		}
		for k, a := range res.Panics {
			if *verbose && k < 2 {
				fmt.Fprintln(os.Stderr, "PANIC STACK:", strings.SplitN(a.Stack, "\n", 2)[0], "\n...", tail(a.Stack, 1500))
			}
			if k < 5 {
				brokenMsgs = append(brokenMsgs, fmt.Sprintf("%s: %s: %s [%s]", r.fn.Name(), a.Kind, a.Why, lastFrames(a.Stack, 6)))
			}
			broken++
		}
		for k, s := range res.Samples {
			if k < 1 && len(samples) < 12 {
				samples = append(samples, map[string]interface{}{"harness": r.fn.Name(), "a_completed_path_model": s, "paths": res.Stats.Paths, "queries": res.Stats.Queries})
			}
		}
		for _, v := range res.Violations {
			rec := replayRec{Harness: r.fn.Name(), Package: r.pkg.Pkg.Path(), Obligation: v.Obligation, Property: *prop, Values: v.Model, Tier: tierNum(), Known: v.Known}
			pend = append(pend, pending{run: r, v: v, rec: rec})
		}
	}
	// write replay files and replay natively
	if len(pend) > 0 {
		rdir := filepath.Join(*verifDir, "replays", *prop)
		os.MkdirAll(rdir, 0o755)
		counter := map[string]int{}
		for i := range pend {
			p := &pend[i]
			key := sanitize(p.v.Obligation)
			counter[key]++
			p.fn = filepath.Join(rdir, fmt.Sprintf("%s-%d.json", key, counter[key]))
			b, _ := json.MarshalIndent(p.rec, "", " ")
			os.WriteFile(p.fn, b, 0o644)
		}
		byPkg := map[string][]int{}
		for i, p := range pend {
			byPkg[p.run.dir] = append(byPkg[p.run.dir], i)
		}
		for dir, idxs := range byPkg {
			var outcome []string
			if *noReplay {
				for range idxs {
					outcome = append(outcome, "confirmed")
				}
			} else {
				var fns []string
				for _, i := range idxs {
					fns = append(fns, pend[i].fn)
				}
				outcome = nativeReplay(use, dir, fns)
			}
			for k, i := range idxs {
				p := pend[i]
				replayed++
				switch {
				case outcome[k] == "confirmed":
					confirmed++
					if p.v.Known != "" {
						knownHits[p.v.Known] = true
					} else {
						violations++
						obligFailed[p.v.Obligation] = true
						vioLines = append(vioLines, fmt.Sprintf("VIOLATION property=%s replay=%s", *prop, p.fn))
						if len(samples) < 20 {
							samples = append(samples, map[string]interface{}{"harness": p.rec.Harness, "obligation": p.v.Obligation, "verdict": "violated (replayed natively)", "model": p.v.Model})
						}
					}
				default:
					unconfirmed++
					brokenMsgs = append(brokenMsgs, fmt.Sprintf("%s: counterexample for %s did not reproduce natively (%s): %s", p.rec.Harness, p.v.Obligation, outcome[k], p.fn))
				}
			}
		}
	}
	for _, l := range vioLines {
		fmt.Println(l)
	}
	var knownList []string
	for k := range knownHits {
		knownList = append(knownList, k)
	}
	sort.Strings(knownList)
	for _, k := range knownList {
		fmt.Printf("KNOWN-FINDING: property=%s %s\n", *prop, k)
	}
	for _, m := range brokenMsgs {
		fmt.Println("INCONCLUSIVE:", m)
	}
	discharged := 0
	for o := range obligations {
		if !obligFailed[o] {
			discharged++
		}
	}
	wall := time.Since(t0)
	if len(samples) == 0 {
		samples = append(samples, map[string]interface{}{"note": "no symbolic inputs on any completed path"})
	}
	var harnessNames []string
	perHarness := map[string]interface{}{}
	for _, r := range runs {
		harnessNames = append(harnessNames, r.fn.Name())
		perHarness[r.fn.Name()] = map[string]interface{}{"paths": r.res.Stats.Paths, "queries": r.res.Stats.Queries, "asserts": r.res.Stats.Asserts, "solver_timeouts_retried": r.res.Stats.Retries, "reached": r.res.Stats.Reached, "wall_s": r.res.Wall.Seconds(), "aborts": len(r.res.Aborts), "engine_or_target_panics": len(r.res.Panics), "counterexamples": len(r.res.Violations)}
	}
	assumeList := []string{}
	brokenMsgsOut := append([]string{}, brokenMsgs...)
	knownListOut := append([]string{}, knownList...)
	for a := range assumptions {
		assumeList = append(assumeList, a)
	}
	sort.Strings(assumeList)
	assumeList = append(assumeList, boundsNote(*prop)...)
	assumeList = append(assumeList, boundsNote("ALL")...)
	ev := map[string]interface{}{
		"property_id": *prop,
		"tier":        *tier,
		"seed":        seed,
		"level":       "model_checking",
		"wall_s":      wall.Seconds(),
		"violations":  violations,
		"assumptions": assumeList,
		"coverage": map[string]interface{}{
			"states":                        max(totalPaths, 1),
			"transitions":                   max(totalQueries, 1),
			"traces_validated_against_impl": confirmed,
			"samples":                       samples,
			"obligations":                   len(obligations),
			"discharged":                    discharged,
			"exhaustive":                    false,
			"explanation":                   "bounded symbolic execution of the repository's SSA (go/ssa) by symgo; states = feasible paths explored to completion, transitions = SMT queries discharged; every path's assertions are decided by " + *solver + " over all values of the symbolic inputs within the harness bounds",
			"harnesses":                     harnessNames,
			"per_harness":                   perHarness,
			"functions_encoded":             sym.SortedKeys(funcs),
			"assertion_checks":              totalAsserts,
			"nontrivial_assertion_queries":  nontrivial,
			"solver":                        *solver,
			"solver_s":                      float64(solverNS) / 1e9,
			"load_s":                        loadT.Seconds(),
			"explore_s":                     exploreT.Seconds(),
			"counterexamples_replayed":      replayed,
			"counterexamples_confirmed":     confirmed,
			"counterexamples_unconfirmed":   unconfirmed,
			"known_findings_hit":            knownListOut,
			"inconclusive":                  brokenMsgsOut,
			"harnesses_reaching_end":        reachEnd,
		},
	}
	if !*noEvid {
		b, _ := json.MarshalIndent(ev, "", " ")
		os.MkdirAll(filepath.Join(*verifDir, "evidence"), 0o755)
		if err := os.WriteFile(filepath.Join(*verifDir, "evidence", *prop+".json"), b, 0o644); err != nil {
			fmt.Println("BROKEN: cannot write evidence:", err)
			return 2
		}
	}
	fmt.Printf("%s %s: harnesses=%d paths=%d queries=%d asserts=%d obligations=%d violations=%d known=%d unconfirmed=%d inconclusive=%d load=%.1fs explore=%.1fs solver=%.1fs\n",
		*prop, *tier, len(runs), totalPaths, totalQueries, totalAsserts, len(obligations), violations, len(knownList), unconfirmed, broken, loadT.Seconds(), exploreT.Seconds(), float64(solverNS)/1e9)
	if violations > 0 {
		return 1
	}
	if broken > 0 || unconfirmed > 0 {
		return 2
	}
	return 0
}

func lastFrames(stack string, n int) string {
	parts := strings.Split(strings.SplitN(stack, "\n", 2)[0], " > ")
	if len(parts) > n {
		parts = parts[len(parts)-n:]
	}
	return strings.Join(parts, " > ")
}

func sanitize(s string) string {
	return strings.Map(func(r rune) rune {
		if r >= 'a' && r <= 'z' || r >= 'A' && r <= 'Z' || r >= '0' && r <= '9' || r == '_' || r == '.' || r == '-' {
			return r
		}
		return '_'
	}, s)
}

func loadKnown() knownFile {
	var k knownFile
	b, err := os.ReadFile(filepath.Join(*verifDir, "KNOWN_FINDINGS.json"))
	if err != nil {
		return k
	}
	if err := json.Unmarshal(b, &k); err != nil {
		fmt.Println("BROKEN: KNOWN_FINDINGS.json:", err)
		os.Exit(2)
	}
	return k
}

func boundsNote(prop string) []string {
	b, err := os.ReadFile(filepath.Join(*verifDir, "bounds", prop+".txt"))
	if err != nil {
		return nil
	}
	var out []string
	for _, l := range strings.Split(string(b), "\n") {
		if strings.TrimSpace(l) != "" {
			out = append(out, strings.TrimSpace(l))
		}
	}
	return out
}

// nativeReplay compiles the package's test binary with the harness overlay and runs each replay file.
// It returns "confirmed", "not-reproduced", "skipped(assume)" or an error description per file.
func nativeReplay(files []harnessFile, pkgDir string, replayFiles []string) []string {
	out := make([]string, len(replayFiles))
	tmp, err := os.MkdirTemp("", "symgo-replay-")
	if err != nil {
		for i := range out {
			out[i] = "tmpdir: " + err.Error()
		}
		return out
	}
	defer os.RemoveAll(tmp)
	// registry test file
	var names []string
	pkgName := ""
	re := regexp.MustCompile(`(?m)^func (Verif_\w+)\(\)`)
	rePkg := regexp.MustCompile(`(?m)^package (\w+)`)
	for _, f := range files {
		if f.pkgDir != pkgDir {
			continue
		}
		b, _ := os.ReadFile(f.src)
		for _, m := range re.FindAllSubmatch(b, -1) {
			names = append(names, string(m[1]))
		}
		if m := rePkg.FindSubmatch(b); m != nil {
			pkgName = string(m[1])
		}
	}
	var sb strings.Builder
	fmt.Fprintf(&sb, "package %s\n\nimport (\n\t\"fmt\"\n\t\"testing\"\n\t\"github.com/echovault/sugardb/internal/verifrt\"\n)\n\n", pkgName)
	sb.WriteString("func TestVerifReplay(t *testing.T) {\n\tfailed, skipped, panicked := verifrt.RunReplay(map[string]func(){\n")
	for _, n := range names {
		fmt.Fprintf(&sb, "\t\t%q: %s,\n", n, n)
	}
	sb.WriteString("\t})\n\tfmt.Printf(\"VERIF-REPLAY failed=%q skipped=%v panicked=%q\\n\", failed, skipped, panicked)\n}\n")
	testFile := filepath.Join(tmp, "zz_verif_replay_test.go")
	os.WriteFile(testFile, []byte(sb.String()), 0o644)
	ov := map[string]map[string]string{"Replace": {}}
	for _, f := range files {
		ov["Replace"][f.overlay] = f.src
	}
	ov["Replace"][filepath.Join(*repoDir, pkgDir, "zz_verif_replay_test.go")] = testFile
	// packages that call package os directly are compiled for replay against the counting shim
	for _, d := range osShimDirs {
		shimOS(filepath.Join(*repoDir, d), tmp, ov["Replace"])
	}
	ob, _ := json.Marshal(ov)
	ovFile := filepath.Join(tmp, "overlay.json")
	os.WriteFile(ovFile, ob, 0o644)
	bin := filepath.Join(tmp, "replay.test")
	cmd := exec.Command("go", "test", "-c", "-vet=off", "-overlay", ovFile, "-o", bin, "./"+pkgDir)
	cmd.Dir = *repoDir
	cmd.Env = goEnv()
	if b, err := cmd.CombinedOutput(); err != nil {
		for i := range out {
			out[i] = "build failed: " + strings.TrimSpace(string(b))
		}
		return out
	}
	for i, rf := range replayFiles {
		var rec replayRec
		b, _ := os.ReadFile(rf)
		json.Unmarshal(b, &rec)
		var ob []byte
		var s string
		// nondeterminism without a program seam (map iteration order, math/rand) is replayed by
		// bounded retry: the replay confirms as soon as one native run exhibits the violation
		attempts := 40
		if strings.Contains(rec.Obligation, "nodeadlock") {
			attempts = 4 // each attempt is a free-running stress of many rounds
		}
		for attempt := 0; attempt < attempts; attempt++ {
			tmo := "120s"
			if strings.Contains(rec.Obligation, "nodeadlock") {
				tmo = "60s"
			}
			run := exec.Command(bin, "-test.run", "^TestVerifReplay$", "-test.timeout", tmo, "-test.v")
			run.Dir = tmp
			run.Env = append(os.Environ(), "VERIF_REPLAY="+rf)
			ob, _ = run.CombinedOutput()
			s = string(ob)
			if strings.Contains(s, "VERIF-ASSERT-FAIL "+rec.Obligation+"\n") || !strings.Contains(s, "VERIF-REPLAY") || strings.Contains(s, "skipped=true") {
				break
			}
		}
		switch {
		case strings.Contains(s, "VERIF-ASSERT-FAIL "+rec.Obligation+"\n"):
			out[i] = "confirmed"
		case strings.Contains(rec.Obligation, "nodeadlock") && (strings.Contains(s, "test timed out") || strings.Contains(s, "all goroutines are asleep")):
			// the native process hung: the deadlock is real
			out[i] = "confirmed"
		case strings.Contains(rec.Obligation, "noexit") && !strings.Contains(s, "VERIF-REPLAY") && !strings.Contains(s, "panic:") && !strings.Contains(s, "test timed out") && strings.Contains(s, "=== RUN"):
			// the native process ended without finishing the test and without a panic: log.Fatal / os.Exit in the code under test
			out[i] = "confirmed"
		case strings.Contains(rec.Obligation, "nopanic") && strings.Contains(s, "panic:") && strings.Contains(s, "goroutine "):
			// the native process itself died from a panic (e.g. in a goroutine the server spawned)
			out[i] = "confirmed"
		case strings.Contains(s, "skipped=true"):
			out[i] = "skipped(assume)"
		case strings.Contains(s, "VERIF-REPLAY"):
			out[i] = "not-reproduced"
		default:
			out[i] = "replay crashed: " + tail(s, 300)
		}
		os.WriteFile(strings.TrimSuffix(rf, ".json")+".log", ob, 0o644)
	}
	return out
}

func tail(s string, n int) string {
	if len(s) > n {
		return s[len(s)-n:]
	}
	return s
}

// replayMain re-runs one counterexample file natively: exit 1 + VIOLATION line if it reproduces.
func replayMain(path string) int {
	var rec replayRec
	b, err := os.ReadFile(path)
	if err != nil {
		fmt.Println("cannot read", path, err)
		return 2
	}
	if err := json.Unmarshal(b, &rec); err != nil {
		fmt.Println("bad replay file:", err)
		return 2
	}
	files, err := collectHarness()
	if err != nil {
		fmt.Println(err)
		return 2
	}
	dir := strings.TrimPrefix(strings.TrimPrefix(rec.Package, "github.com/echovault/sugardb"), "/")
	var use []harnessFile
	for _, f := range files {
		if f.pkgDir == dir || f.pkgDir == "internal/verifrt" {
			use = append(use, f)
		}
	}
	abs, _ := filepath.Abs(path)
	out := nativeReplay(use, dir, []string{abs})
	fmt.Println("replay:", out[0])
	if out[0] == "confirmed" {
		fmt.Printf("VIOLATION property=%s replay=%s\n", rec.Property, path)
		return 1
	}
	return 0
}

// osShimDirs: repository packages whose direct use of package os is redirected, for native replay
// only, to the counting shim in verifrt (vos.go). The rewrite is regenerated from the current
// source on every replay build: every selector os.X becomes vos.X.
var osShimDirs = []string{"internal/snapshot"}

func shimOS(dir, tmp string, replace map[string]string) {
	ents, err := os.ReadDir(dir)
	if err != nil {
		return
	}
	for _, en := range ents {
		if en.IsDir() || !strings.HasSuffix(en.Name(), ".go") || strings.HasSuffix(en.Name(), "_test.go") || strings.HasPrefix(en.Name(), "zz_verif_") {
			continue
		}
		p := filepath.Join(dir, en.Name())
		fset := token.NewFileSet()
		f, err := parser.ParseFile(fset, p, nil, parser.ParseComments)
		if err != nil {
			continue
		}
		uses := false
		for _, im := range f.Imports {
			if im.Path.Value == `"os"` && im.Name == nil {
				im.Path.Value = `"github.com/echovault/sugardb/internal/verifrt"`
				im.Name = ast.NewIdent("vos")
				uses = true
			}
		}
		if !uses {
			continue
		}
		ast.Inspect(f, func(n ast.Node) bool {
			if se, ok := n.(*ast.SelectorExpr); ok {
				if id, ok := se.X.(*ast.Ident); ok && id.Name == "os" && id.Obj == nil {
					id.Name = "vos"
				}
			}
			return true
		})
		var buf bytes.Buffer
		if err := printer.Fprint(&buf, fset, f); err != nil {
			continue
		}
		out := filepath.Join(tmp, "shim_"+strings.ReplaceAll(strings.TrimPrefix(p, "/"), "/", "_"))
		os.WriteFile(out, buf.Bytes(), 0o644)
		replace[p] = out
	}
}
