#!/bin/bash
# usage: tools/verifyseed.sh <PROP> <A|B>   (uses the clean scratch worktree /tmp/wt/<PROP>)
# Confirms: patch applies; demo passes on clean tree; with the patch the touched packages' existing tests
# and ./sugardb still pass (TestSugarDB_Plugins / MODULE_* excepted: missing .so fixtures fail on the clean tree too)
# and the demo fails. On success stores the seed under /verif/seeded/<PROP>-<A|B>/.
export GOFLAGS=-mod=mod GOPROXY=off GOSUMDB=off GOTOOLCHAIN=local
P=$1; V=$2; WT=/tmp/wt/$P; S=$WT/SEED/$V
cd $WT || exit 2
git checkout -q -- . ; 
DIR=$(grep -m1 -o 'place in: *[^ ]*' $S/demo_test.go | sed 's/place in: *//; s#/$##')
[ -z "$DIR" ] && DIR=sugardb
DEMO=$DIR/zz_seed_demo_test.go
cp $S/demo_test.go $DEMO
TESTS=$(grep -o '^func Test[A-Za-z0-9_]*' $S/demo_test.go | sed 's/func //' | paste -sd'|')
echo "[$P-$V] demo dir=$DIR tests=$TESTS"
go test -vet=off -count=1 -run "^($TESTS)\$" ./$DIR/ > /tmp/vs_$P$V.clean 2>&1; c=$?
git apply $S/patch.diff || { echo "[$P-$V] PATCH DOES NOT APPLY"; rm -f $DEMO; exit 1; }
go test -vet=off -count=1 -run "^($TESTS)\$" ./$DIR/ > /tmp/vs_$P$V.mut 2>&1; m=$?
rm -f $DEMO
PKGS=$(git diff --name-only | xargs -n1 dirname | sort -u | sed 's#^#./#' | tr '\n' ' ')
go test -vet=off -count=1 $PKGS ./sugardb/ > /tmp/vs_$P$V.suite 2>&1
FAILS=$(grep -E '^--- FAIL|^\s+--- FAIL' /tmp/vs_$P$V.suite | grep -v 'Plugins\|MODULE\|Test_AdminCommands$' | head -5)
git checkout -q -- .
rm -rf sugardb/aof sugardb/testdata 2>/dev/null
echo "[$P-$V] demo clean exit=$c (want 0)  demo mutated exit=$m (want !=0)  unexpected suite failures: ${FAILS:-none}"
if [ $c -eq 0 ] && [ $m -ne 0 ] && [ -z "$FAILS" ]; then
  D=/verif/seeded/$P-$V; mkdir -p $D
  cp $S/patch.diff $D/patch.diff; cp $S/demo_test.go $D/demo_test.go
  python3 - "$S/meta.json" "$D/meta.json" "$P" "$DIR" "$PKGS" <<'PY'
import json,sys
src,dst,prop,d,pk=sys.argv[1:6]
try: m=json.load(open(src))
except Exception: m={}
m["property"]=prop
m["demo_dir"]=d
m["confirmed_by_framework_author"]={"ran":["git apply patch.diff (clean scratch worktree)","go test -run <demo> ./%s/ on clean tree: PASS"%d,"go test -run <demo> with patch: FAIL","go test %s ./sugardb/ with patch: PASS (TestSugarDB_Plugins / MODULE_* excepted: missing .so fixtures, fail on the clean tree too)"%pk]}
json.dump(m,open(dst,'w'),indent=1)
PY
  echo "[$P-$V] STORED"
else
  echo "[$P-$V] NOT CONFIRMED"; tail -5 /tmp/vs_$P$V.clean | cut -c1-200
fi
