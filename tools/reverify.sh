#!/bin/bash
# usage: tools/reverify.sh <PROP>-<A|B>  — re-confirm a stored seed against the current /repo HEAD in a scratch worktree:
# the demo passes on the clean tree and fails with the patch. The worktree is removed afterwards.
export GOFLAGS=-mod=mod GOPROXY=off GOSUMDB=off GOTOOLCHAIN=local
ID=$1; D=/verif/seeded/$ID; WT=/tmp/wt-reverify-$ID
git -C /repo worktree remove --force $WT 2>/dev/null; rm -rf $WT
git -C /repo worktree add -q --detach $WT HEAD || exit 2
cd $WT
DIR=$(python3 -c "import json;print(json.load(open('$D/meta.json')).get('demo_dir','sugardb'))")
cp $D/demo_test.go $DIR/zz_seed_demo_test.go
TESTS=$(grep -o '^func Test[A-Za-z0-9_]*' $D/demo_test.go | sed 's/func //' | paste -sd'|')
timeout 600 go test -vet=off -count=1 -run "^($TESTS)\$" ./$DIR/ > /tmp/rv_$ID.clean 2>&1; c=$?
if git apply $D/patch.diff 2>/dev/null; then
  timeout 600 go test -vet=off -count=1 -run "^($TESTS)\$" ./$DIR/ > /tmp/rv_$ID.mut 2>&1; m=$?
  echo "$ID applies=yes demo_clean_exit=$c demo_mutated_exit=$m"
else
  echo "$ID applies=NO demo_clean_exit=$c"
fi
cd /; git -C /repo worktree remove --force $WT; rm -rf $WT
