#!/bin/bash
# usage: tools/tryseedwt.sh <seed-id> <prop> [harness-regexp] [tier] — apply a stored seed in a scratch worktree of /repo HEAD
# (not in /repo itself), run the check of <prop> (optionally only some harnesses) against it with -repo, remove the worktree.
export GOFLAGS=-mod=mod GOPROXY=off GOSUMDB=off GOTOOLCHAIN=local
ID=$1; P=$2; ONLY=${3:-.}; T=${4:-quick}; WT=/tmp/mx/try-$ID-$$
mkdir -p /tmp/mx
git -C /repo worktree add -q --detach $WT HEAD || exit 2
git -C $WT apply /verif/seeded/$ID/patch.diff || { echo "patch does not apply"; git -C /repo worktree remove --force $WT; exit 2; }
(cd /verif && bin/symgo -repo $WT -prop $P -tier $T -only "$ONLY" -noevidence -j ${J:-8} > /tmp/mx/try-$ID.out 2>&1); rc=$?
git -C /repo worktree remove --force $WT; rm -rf $WT
grep -E "^(VIOLATION|KNOWN|INCONCLUSIVE)" /tmp/mx/try-$ID.out | cut -c1-200 | head -8
tail -1 /tmp/mx/try-$ID.out | cut -c1-250
echo "exit=$rc"
