#!/bin/bash
# usage: tools/collectseed.sh <ID> [srcdir]   — take a sub-agent's deliverables (default /tmp/seedw/<ID>/_seed: patch.diff,
# seed_*_demo_test.go, meta.json), confirm them in a fresh scratch worktree of /repo HEAD (patch applies; demo passes on the
# clean tree and fails with the patch; with the patch the touched packages' existing tests and ./sugardb/ still pass,
# TestSugarDB_Plugins / MODULE_* excepted) and, if confirmed, store the seed under /verif/seeded/<ID>/.
export GOFLAGS=-mod=mod GOPROXY=off GOSUMDB=off GOTOOLCHAIN=local
# leaves <file>: the failing leaf tests (a parent fails whenever a child does), without the known offline/flaky ones
leaves() { grep -E '^\s*--- FAIL' $1 | sed 's/^\s*--- FAIL: //; s/ (.*//' | sort -u | python3 -c "
import sys
n=[l.strip() for l in sys.stdin if l.strip()]
for x in n:
    if any(y.startswith(x+'/') for y in n): continue
    if any(k in x for k in ('Plugins','MODULE','Module','Test_SnapshotRestore')): continue
    print(x)
" | head -5; }
ID=$1; SRC=${2:-/tmp/seedw/$ID/_seed}; WT=/tmp/wt-collect-$ID
[ -f $SRC/patch.diff ] || { echo "$ID: no patch.diff in $SRC"; exit 2; }
DEMO=$(ls $SRC/*_test.go 2>/dev/null | head -1)
[ -n "$DEMO" ] || { echo "$ID: no demo test in $SRC"; exit 2; }
git -C /repo worktree remove --force $WT 2>/dev/null; rm -rf $WT
git -C /repo worktree add -q --detach $WT HEAD || exit 2
cd $WT
DIR=$(python3 -c "import json;print(json.load(open('$SRC/meta.json')).get('demo_dir','sugardb').strip('./') or 'sugardb')" 2>/dev/null)
[ -d "$DIR" ] || DIR=sugardb
cp $DEMO $DIR/zz_seed_demo_test.go
TESTS=$(grep -o '^func Test[A-Za-z0-9_]*' $DEMO | sed 's/func //' | paste -sd'|')
timeout 900 go test -vet=off -count=1 -run "^($TESTS)\$" ./$DIR/ > /tmp/cs_$ID.clean 2>&1; c=$?
if ! git apply $SRC/patch.diff 2>/tmp/cs_$ID.apply; then
  echo "$ID: PATCH DOES NOT APPLY"; cd /; git -C /repo worktree remove --force $WT; rm -rf $WT; exit 1
fi
timeout 900 go test -vet=off -count=1 -run "^($TESTS)\$" ./$DIR/ > /tmp/cs_$ID.mut 2>&1; m=$?
rm -f $DIR/zz_seed_demo_test.go
PKGS=$(git diff --name-only | xargs -n1 dirname | sort -u | grep -v '^sugardb$' | sed 's#^#./#' | tr '\n' ' ')
go build ./sugardb/ $PKGS > /tmp/cs_$ID.build 2>&1; b=$?
timeout 1500 go test -vet=off -count=1 $PKGS ./sugardb/ > /tmp/cs_$ID.suite 2>&1
FAILS=$(leaves /tmp/cs_$ID.suite)
if [ -n "$FAILS" ]; then
  # Test_Standalone/Test_SnapshotRestore waits a fixed 20 ms for a snapshot and fails about every second run on the clean tree too: excluded above. Other timing flakes on a loaded machine (Test_AppendStore): run the failing package once more
  timeout 1500 go test -vet=off -count=1 $PKGS ./sugardb/ > /tmp/cs_$ID.suite2 2>&1
  FAILS2=$(leaves /tmp/cs_$ID.suite2)
  # only failures that repeat count
  FAILS=$(comm -12 <(echo "$FAILS" | sort -u) <(echo "$FAILS2" | sort -u))
fi
cd /; git -C /repo worktree remove --force $WT; rm -rf $WT
echo "$ID: demo clean exit=$c (want 0) mutated exit=$m (want !=0) build=$b suite failures: ${FAILS:-none}"
if [ $c -eq 0 ] && [ $m -ne 0 ] && [ $b -eq 0 ] && [ -z "$FAILS" ]; then
  D=/verif/seeded/$ID; mkdir -p $D
  cp $SRC/patch.diff $D/patch.diff; cp $DEMO $D/demo_test.go
  python3 - "$SRC/meta.json" "$D/meta.json" "${ID%-*}" "$DIR" "$PKGS" "$(git -C /repo log --format=%h -1)" <<'PY'
import json,sys
src,dst,prop,d,pk,head=sys.argv[1:7]
try: m=json.load(open(src))
except Exception: m={}
m["property"]=prop
m["demo_dir"]=d
import os; m["round"]="%s seeding round (on /repo %s)"%(os.environ.get("ROUND","seventh"),head)
m["confirmed_by_framework_author"]={"ran":["tools/collectseed.sh: fresh scratch worktree of /repo HEAD","git apply patch.diff: applies","go test -run <demo> ./%s/ on the clean tree: PASS"%d,"go test -run <demo> with the patch: FAIL","go build + go test %s ./sugardb/ with the patch: PASS (TestSugarDB_Plugins / MODULE_* excepted: the .so fixtures cannot be built offline and fail on the clean tree too; a failure that does not repeat in a second run is a timing flake)"%pk]}
json.dump(m,open(dst,'w'),indent=1)
PY
  echo "$ID: STORED"
else
  echo "$ID: NOT CONFIRMED"; tail -5 /tmp/cs_$ID.clean | cut -c1-200
fi
