#!/bin/bash
# usage: tools/benign.sh <BEN-id> <prop>...  — apply a stored behaviour-preserving change (benign/<id>/patch.diff) in a scratch
# worktree of /repo HEAD and run the quick checks of the given properties against it: every one must exit 0 (no false alarm).
export GOFLAGS=-mod=mod GOPROXY=off GOSUMDB=off GOTOOLCHAIN=local
ID=$1; shift; WT=/tmp/mx/ben-$ID-$$
mkdir -p /tmp/mx
git -C /repo worktree add -q --detach $WT HEAD || exit 2
git -C $WT apply /verif/benign/$ID/patch.diff || { echo "$ID: patch does not apply"; git -C /repo worktree remove --force $WT; exit 2; }
for P in "$@"; do
  (cd /verif && bin/symgo -repo $WT -prop $P -tier quick -noevidence -j ${J:-8} > /tmp/mx/ben-$ID.$P.out 2>&1); rc=$?
  echo "$ID $P exit=$rc $(grep -E '^(VIOLATION|INCONCLUSIVE)' /tmp/mx/ben-$ID.$P.out | head -2 | cut -c1-160 | tr '\n' ' ')"
done
git -C /repo worktree remove --force $WT; rm -rf $WT
