#!/bin/bash
# usage: tools/runall.sh <quick|thorough> [ids...] — run every claimed check once, sequentially; summary on stdout.
T=${1:-quick}; shift
IDS="$@"; [ -z "$IDS" ] && IDS=$(python3 -c "import json;print(' '.join(c['property_id'] for c in json.load(open('/verif/MANIFEST.json'))['checks']))")
for id in $IDS; do
  s=$(date +%s)
  (cd /verif && ./check $id $T > /tmp/runall_$T.$id.log 2>&1); rc=$?
  e=$(( $(date +%s) - s ))
  echo "$id $T exit=$rc ${e}s $(tail -1 /tmp/runall_$T.$id.log | cut -c1-180)"
done
