# Edited as checks are built. claim(id, text, note, design_ref) / na(id, reason)
claim("C15",
      "Every list command is executed symbolically through the real dispatcher (handleCommand -> handler -> keyspace) from an arbitrary stored list (length 0..3, arbitrary elements) with arbitrary 64-bit indices/counts; reply and post-state are compared with a reference sequence model; the SMT solver decides every path, so within the bound all inputs are covered, not sampled.",
      "Bounds: list length <= 3 (4 thorough), one command per step (induction over the stored value), elements are opaque strings compared by equality; stubs listed in the evidence; tidwall/resp modelled by a strict RESP parser.",
      "DESIGN.md C15")
claim("C01",
      "SET (NX/XX/GET), GET, MSET, MGET, DEL, INCR/DECR/INCRBY/DECRBY (incl. int64 overflow), RENAME (incl. onto itself), GETDEL, TYPE, FLUSHDB, STRLEN and APPEND are executed symbolically through the real dispatcher from an arbitrary pre-state of the keys they name and compared, reply and post-state, with a reference typed map; failed commands must leave the pre-state untouched; replies are decoded by a strict RESP parser so that CR/LF in stored values is covered; integers wider than a double's 53 significant bits written by SET/MSET are stored exactly (concrete wide literals).",
      "Bounds: 1..2 stored keys + 1 fresh key, values are opaque strings / 64-bit integers / one-element lists, one command per step (inductive over the dataset). Known findings (KNOWN_FINDINGS.json): numeric-looking strings are re-typed by AdaptType; GET on a list does not fail.",
      "DESIGN.md C01")
claim("C14",
      "HSET, HSETNX, HGET, HMGET, HLEN, HEXISTS, HSTRLEN, HGETALL, HKEYS, HVALS, HDEL, HINCRBY, HINCRBYFLOAT and HRANDFIELD are executed symbolically through the real dispatcher from an arbitrary stored hash (or absent / wrong-typed key) and compared, reply and post-state, with a reference field map; integer arithmetic is decided over 64-bit bit-vectors (overflow included), float arithmetic in the SMT FloatingPoint theory, random draws are symbolic.",
      "Bounds: hashes of <= 2 fields (3 thorough), one command per step; replies compared as multisets where map order is unspecified. See evidence assumptions.",
      "DESIGN.md C14-C17")

claim("C16",
      "All 16 set commands are executed symbolically through the real dispatcher from arbitrary operand sets (or absent / wrong-typed keys) and compared with reference finite sets: membership changes and their counts, algebra over two operands including destination == source and over three operands with members shared between any of them (stored cardinality compared), operand purity, no sharing of the stored set object between destination and source, sizes/subset/distinctness of random selections with symbolic random draws; replies are decoded strictly (an unterminated empty array is a violation).",
      "Bounds: sets of <= 2 members (3 thorough), two or three operand keys, one command per step. See evidence assumptions.",
      "DESIGN.md C14-C17")

claim("C17",
      "All 25 sorted-set commands are executed symbolically through the real dispatcher from arbitrary sorted sets (scores are symbolic IEEE doubles incl. infinities and ties) and compared, reply and post-state, with a reference map member -> score ordered by (score, member): ZADD (every NX/XX/GT/LT/CH combination, two pairs, INCR), ZINCRBY, ZCARD, ZSCORE, ZMSCORE, ZREM, ZCOUNT, ZLEXCOUNT, ZRANK/ZREVRANK, ZPOPMIN/ZPOPMAX, ZMPOP, ZREMRANGEBYSCORE/BYRANK/BYLEX, ZRANGE and ZRANGESTORE (BYSCORE, BYLEX, REV, LIMIT, WITHSCORES), ZUNION/ZINTER/ZDIFF and their STORE forms with WEIGHTS and AGGREGATE (operands untouched, destination replaced and never sharing a source's object), ZRANDMEMBER; the algebra also over one and over three operands; a refused score update (infinite, non-numeric operands) leaves the set unchanged and never stores NaN; a wrong-typed key must make the command fail and stay unchanged.",
      "Bounds: sorted sets of <= 2 members (3 thorough), two operand keys, bounds/weights/limits from small menus, one command per step; conventions the repository documents and pins (LIMIT window over the whole set, plain BYLEX bounds) are taken as given. Known finding: ZADD without CH counts changed members (pinned by the repository's tests). Outside the claim: see bounds/C17.txt.",
      "DESIGN.md C14-C17")

claim("C04",
      "Server clock and deadlines are symbolic instants: for every observer (GET MGET TYPE TTL PTTL EXPIRETIME PEXPIRETIME STRLEN GETDEL LLEN HLEN SCARD ZCARD, SET NX/XX, LPUSHX) a key is served unchanged up to its deadline and reads as absent after it with no background expiry having run; a value written after expiry does not inherit the deadline; the EXPIRE family option table, PERSIST, and the rules by which SET/MSET/APPEND/RENAME/GETEX move a live deadline are checked against the documented semantics; one run of the background expiry cycle with symbolic random draws removes only expired keys, terminates, and keeps the volatile-key index consistent; the expired-key filter applied by snapshots, the log preamble and raft snapshots removes exactly the entries whose own deadline has passed, database by database.",
      "Bounds and the time model (nanosecond count with exact ms/s factorisation, range 2001..2096) are listed in the evidence assumptions; the real clock.Clock seam is implemented by the harness.",
      "DESIGN.md C04")

claim("C19",
      "Inductive, differential: from a state with memUsed == f(dataset), one keyspace mutator or mutating command is executed symbolically (key/value lengths symbolic) and memUsed is compared with the figure of a fresh server loaded with the resulting dataset by the same real accounting code; Flush must return the figure to 0. Because memUsed is one integer, preservation of the invariant for every step is the whole property.",
      "Known findings: in-place mutation of stored collections (SADD SREM ZADD ZREM LSET HDEL) is not accounted. See evidence assumptions for bounds.",
      "DESIGN.md C19")

claim("C13",
      "The command list is read from the real command table: every data command is run symbolically with generic argument shapes on two keys of arbitrary type; for every read-only command, and for every invocation that returns an error, both keys must be deep-equal to their pre-state and no key may appear or disappear; STORE commands are checked for object identity with their sources and by a follow-up write to the destination; refused numeric and score updates (counters, hash fields, sorted-set scores incl. infinities) and a refused MSET change nothing.",
      "Bounds in the evidence assumptions. Known finding: ZUNIONSTORE with a destination spelled like the command word panics (argument removal hack pinned by the repository's tests).",
      "DESIGN.md C13")

claim("C20",
      "Database indices are symbolic: every data command run with database i selected must leave the same-named keys, deadlines and volatile index of any other database j untouched; FLUSHDB empties only i, FLUSHALL all; SELECT moves only the issuing TCP connection (and its next write lands in the selected database); SWAPDB exchanges the two databases for every TCP connection and leaves bystanders, the embedded caller and the data alone. TCP commands go through the real dispatcher including the ACL gate.",
      "Bounds in the evidence assumptions; persistence of database placement is covered by the persistence properties.",
      "DESIGN.md C20")

claim("C08",
      "Heap steps (Update/Delete/Pop) from an arbitrary well-formed LFU/LRU heap keep the heap invariant, index fields and key set consistent and pop the policy's extreme element; under noeviction a write is refused exactly at or above the limit and changes nothing; one run of the real eviction loop under each evicting policy removes keys only at or above the limit, only from the candidate set, in LFU order, until usage is under the limit or no candidate is left, removes evicted keys from store, volatile index and both caches, never touches another database, never panics and terminates; the bookkeeping filter admits exactly the policy's candidates.",
      "Known finding: the LRU heap pops the most recently used entry (pinned by Test_CacheLRU). Bounds in the evidence assumptions.",
      "DESIGN.md C08")

claim("C06",
      "The real AuthorizeConnection is executed symbolically for arbitrary rule lists and command shapes and must agree with the declarative policy of the property (all categories, the command, every channel, every read key, every write key); glob matching is an uninterpreted predicate, so the result holds for every pattern semantics. Key-extraction completeness is checked for every data command by recording wrappers around the keyspace callbacks. The dispatcher gate is checked for every registered command and subcommand with a deny-all user.",
      "Bounds in the evidence assumptions; gobwas/glob itself is outside the claim.",
      "DESIGN.md C06")

claim("C11",
      "The real AuthenticateConnection is executed symbolically against an arbitrary user table and must succeed exactly when the named user exists, is enabled and is password-less or holds the supplied password in plaintext or as its SHA-256; a failed attempt must leave the connection's user and authenticated flag as they were and never touches other connections; new connections start as the default user; SETUSER / DELUSER edits are followed by AUTH probes; User.Replace/Merge (ACL LOAD) must carry flags and credentials over; ACL SAVE to a JSON file followed by a restart (NewACL) or by ACL LOAD REPLACE into an edited table reproduces the same users and rules (modelled file system and encoding/json).",
      "SHA-256 is modelled as an injective uninterpreted function (collision freedom assumed). YAML config files are not covered. Bounds in the evidence assumptions.",
      "DESIGN.md C11")

claim("C12",
      "Every data command is run symbolically on argument vectors of every small arity with arbitrary (not CR/LF-free) strings: it must not panic and a non-error reply must parse as exactly one strict RESP value; stored arbitrary bytes must come back equal through the readers; the real connection loop (handleConnection -> ReadMessage -> handleCommand -> chunked write) is executed on a fake net.Conn with a reply whose length covers every alignment of the 1 KB chunking arithmetic, and with commands delivered in one or several reads.",
      "Known findings: pipelined commands in one read and commands split across reads (framing by short read). Bounds in the evidence assumptions.",
      "DESIGN.md C12")

claim("C18",
      "The real PubSub/Channel code is executed symbolically with fake connections: subscribe/unsubscribe confirmations (one per channel, running count) and the resulting table, the introspection replies, the delivery set of one PUBLISH (exactly the by-name and by-pattern subscribers, exactly once each), and the order of two messages under every interleaving of the delivery goroutines (the engine's cooperative scheduler forks at every scheduling decision).",
      "tidwall/resp Conn/Writer is modelled by a RESP encoder writing to the fake connection; glob matching is uninterpreted. Bounds in the evidence assumptions.",
      "DESIGN.md C18")

claim("C02",
      "The real log store (Write/Sync/Restore/Truncate) runs over an in-memory file with a durability watermark implementing the repository's ReadWriter seam: round trip of arbitrary commands in arbitrary databases, durability under always, restore of the image obtained by cutting the file at every byte offset (prefix property), and recover-then-durable after a torn record; at server level the real dispatcher must log exactly the successful write commands under the database they ran in (TCP and embedded), and a fresh server restoring the log through the real engine serves the same keys in the same databases.",
      "The preamble (JSON dump) path and real files are not covered here. tidwall/resp is modelled by a strict RESP parser. Bounds in the evidence assumptions.",
      "DESIGN.md C02")

claim("C05",
      "Two real commands run as two threads of a cooperative scheduler through the whole of handleCommand; every interleaving of their keyspace calls (scheduling point in front of each keysExist/getValues/getExpiry/setValues/setExpiry/deleteKey, schedule choices are solver-named inputs) must give replies and a final dataset equal to one of the two serial orders, which the same real code computes on fresh servers. Covers symbolic-operand pairs (INCR, APPEND, LPUSH/RPUSH, SET NX, SADD/SREM, HSET/HDEL, GETDEL/SET), a pair matrix over the string/list/hash/set/sorted-set families plus the generic commands, all-or-nothing MSET under a symbolic memory limit in every write order, a reader meeting an expired uncollected entry while another client rewrites the key (the goroutines the reader starts are threads of the schedule), the background expiry pass against a write, two TCP clients on different databases, and lock-order freedom: 12 entry points that take several of the server's locks, pairwise, pre-empted at mutex acquisitions with real mutex/RWMutex exclusion modelled, deadlock and busy-wait livelock reported.",
      "Two threads; data races inside one keyspace call and below (map/slice races under the race detector) are outside the model; pre-emption at locks is context-bounded; native confirmation of a deadlock is a free-running stress (timeout = hang). Bounds in the evidence assumptions.",
      "DESIGN.md C05")

claim("C09",
      "The real server, AOF engine, preamble store and log store run over in-memory files with os.File semantics (offset, append mode, holes, durability watermark). For every value family (string, integer, list, set, sorted set, hash, volatile key, and a dataset encoding/json refuses) with and without an earlier rewrite, REWRITEAOF is crashed before each of its file operations (the unsynced tail of a file survives as a solver-chosen prefix) or runs to completion; a fresh server restores the image through the real engine and must serve exactly the acknowledged dataset. A writer racing with the rewrite is explored with pre-emption at every lock. The expired-key filter the rewrite applies is checked per database for arbitrary deadlines. encoding/json is modelled (typing rules of interface{} targets, key order, escaping of concrete strings, RFC3339 instants, struct tags) and the model is validated against bytes recorded from the real library.",
      "Known findings (printed, exit 0): values other than strings and string hashes are re-typed or lost by the JSON preamble; a crash between truncating and syncing the preamble loses it. Metadata operations (truncate) are taken as durable at once; real files and directory entries are not modelled. Bounds in the evidence assumptions.",
      "DESIGN.md C09")

claim("C07",
      "Real servers built in cluster mode by the real constructor: RaftInit, the FSM, raftApplyCommand and handleCommand's routing run as they are, hashicorp/raft is replaced by an ideal replicated log (the leader's Apply runs the entry through every node's FSM in log order). For every replicated write of a menu of 28 commands over 7 typed pre-states and 3 logical databases, issued on the leader by a client that selected the database: the reply and the leader's dataset equal those of a standalone server (the acknowledged write is visible in the selected database), and the replica - which has its own, solver-chosen clock - holds the same dataset in every database. A write arriving at a follower is rejected (or handed over when forwarding is on) and never applied locally. Routing: any command whose handler changes the dataset for some input must be a replicated (Sync) write command. Counterexamples are replayed on a real local raft cluster over loopback.",
      "Elections, leadership transfer, node restart from a raft snapshot, the gossip hand-over of forwarded writes, more than one replica and concurrent application on replicas are outside the model. Known finding: relative expirations are applied with each node's own clock. Bounds in the evidence assumptions.",
      "DESIGN.md C07")

claim("C03",
      "The real snapshot engine runs over a modelled file system (package os intercepted; encoding/json and md5 modelled/computed) and the real server over the same: for every value type, three databases and deadlines before the snapshot / between snapshot and restart / after the restart, what TakeSnapshot writes Restore gives back (keys, types, values, deadlines) minus expired keys, LASTSAVE follows the snapshot taken and restored; histories of snapshots with and without new data keep the in-progress flag balanced and restart on the last snapshot; at server level SAVE, restart through the real constructor, LASTSAVE and the automatic snapshot (threshold 3, 0..6 writes, ticker fired by the harness) are checked; the expired-key filter is checked per database for arbitrary instants and map orders.",
      "Known finding: integers, lists, sets and sorted sets are re-typed or emptied by the JSON snapshot. Datasets are concrete (md5 of symbolic content is not modelled); snapshots taken while writers are active are covered only through C05's lock-order check of getState. Bounds in the evidence assumptions.",
      "DESIGN.md C03")

claim("C10",
      "The real TakeSnapshot is crashed before each of its mutating file operations (directory creation, state file create/write/sync, manifest create/write/sync/rename) after 0, 1 or 2 complete snapshots; after the reboot - unsynced bytes survive as a solver-chosen prefix - a fresh engine must restore the complete previous or the complete new snapshot without failing, LASTSAVE must match, and the next snapshot on the same directory must succeed and be restorable. Attempts that find nothing new or fail (snapshot directory or temporary manifest name occupied) must leave the previous snapshot, LASTSAVE and the in-progress flag untouched. Counterexamples are replayed against the real code compiled against a counting shim of package os over a real temporary directory.",
      "Metadata operations (create, mkdir, rename, truncate) are taken as durable at once; directory fsync and fsync lies are outside the model. Datasets are concrete. Bounds in the evidence assumptions.",
      "DESIGN.md C10")

# every property without a claim is listed as not applicable (yet) with its reason
NA_REASONS = {}
for n in range(1, 21):
    p = "C%02d" % n
    if p not in CLAIMS:
        na(p, NA_REASONS.get(p, "not built yet: engine and first checks exist (see DESIGN.md section 8); this entry is replaced when the property's harnesses run clean"))
