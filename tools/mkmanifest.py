#!/usr/bin/env python3
"""Regenerates /verif/MANIFEST.json from the table below (kept next to the checks so that the
claimed levels and the not_applicable list stay current)."""
import json, os
ROOT = os.path.dirname(os.path.dirname(os.path.abspath(__file__)))
BASELINE = json.load(open('/root/.vp/BASELINE.json'))['cmd'] if os.path.exists('/root/.vp/BASELINE.json') else ""

# id -> (claimed?, level text, level note, design ref)
CLAIMS = {}
NA = {}

def claim(pid, text, note, ref):
    CLAIMS[pid] = (text, note, ref)

def na(pid, reason):
    NA[pid] = reason

exec(open(os.path.join(ROOT, 'tools', 'claims.py')).read())

checks = []
for pid in sorted(CLAIMS):
    text, note, ref = CLAIMS[pid]
    checks.append({
        "property_id": pid,
        "quick_cmd": f"./check {pid} quick",
        "thorough_cmd": f"./check {pid} thorough",
        "evidence_file": f"/verif/evidence/{pid}.json",
        "replay_cmd_template": "./check --replay {path}",
        "engine": "symgo",
        "level_claimed": {"category": "model_checking", "text": text, "design_ref": ref},
        "level_note": note,
        "technique": "bounded symbolic execution of the repository's Go SSA (own executor symgo) with SMT (z3 5.1.0) deciding every branch and assertion; counterexamples replayed natively",
    })
m = {
    "version": 1,
    "setup_cmd": "cd engine && GOFLAGS=-mod=mod GOPROXY=off GOSUMDB=off GOTOOLCHAIN=local go build -o ../bin/symgo ./cmd/symgo",
    "hooks": {
        "guard": "verif",
        "enable": "none needed: harnesses and the verifrt runtime package are injected with go/packages Overlay (symbolic run) and `go test -overlay` (native replay); nothing is written into /repo",
        "baseline_off_cmd": BASELINE,
        "source_commits": [],
        "add_only": True,
    },
    "engines": [{
        "name": "symgo",
        "path": "engine",
        "serves_properties": sorted(CLAIMS),
        "kind_free_text": "symbolic executor for Go SSA (x/tools v0.29.0 go/ssa; derived from go/ssa/interp) with sized bit-vectors, IEEE doubles, rope strings over an uninterpreted string sort, symbolic-key maps, decision-vector DFS; z3 5.1.0 over a pipe; native replay with go test -overlay",
    }],
    "checks": checks,
    "not_applicable": [{"property_id": p, "reason": NA[p]} for p in sorted(NA)],
    "notes": "exit 0 = held within the stated bounds; exit 1 = VIOLATION (replayed natively); exit 2 = inconclusive/broken run (solver unknown, unsupported construct, budget exhausted, vacuous harness, unconfirmed counterexample) - never counted as a pass. Bounds per property: DESIGN.md and evidence 'assumptions'.",
}
json.dump(m, open(os.path.join(ROOT, 'MANIFEST.json'), 'w'), indent=1)
print("claims:", sorted(CLAIMS), "n/a:", sorted(NA))
