#!/usr/bin/env python3
"""kf.py add <property> <obligation> <status> <commit-or--> <region-or--> <what...>  — append to KNOWN_FINDINGS.json"""
import json, sys, os
p = os.path.join(os.path.dirname(os.path.dirname(os.path.abspath(__file__))), 'KNOWN_FINDINGS.json')
d = json.load(open(p))
_, cmd, prop, ob, status, commit, region, *what = sys.argv
what = ' '.join(what)
e = {"property": prop, "obligation": ob, "region": "" if region == '-' else region, "status": status}
if commit != '-':
    e["commit"] = commit
    what = f"fixed: property={prop} {commit} {what}"
e["what"] = what
d["findings"].append(e)
out = json.dumps(d, indent=1, ensure_ascii=False) + '\n'
open(p, 'w').write(out)
