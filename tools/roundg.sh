#!/bin/bash
# usage: tools/roundg.sh <seed-id>...  — confirm and store a sub-agent's seed (collectseed.sh), remove its scratch worktree and
# run the seed's own property's quick check against it (matrixwt.sh) — the first-sight result, before any change to the checks.
for id in "$@"; do
  case $id in *-G) R=seventh;; *-H) R=eighth;; *) R=${ROUND:-later};; esac
  ROUND=$R /verif/tools/collectseed.sh $id > /root/collect_$id.out 2>&1
  tail -2 /root/collect_$id.out
  if [ -d /verif/seeded/$id ]; then git -C /repo worktree remove --force /tmp/seedw/$id 2>/dev/null; MATRIX_J=${MATRIX_J:-6} /verif/tools/matrixwt.sh quick $id 2>&1 | tail -2; fi
done
