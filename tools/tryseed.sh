#!/bin/sh
# usage: tools/tryseed.sh <patch.diff> <prop> [tier]  — apply a seeded change to /repo, run the check, undo.
P="$1"; ID="$2"; T="${3:-quick}"
cd /repo || exit 2
git diff --quiet || { echo "repo dirty"; exit 2; }
git apply "$P" || { echo "patch does not apply"; exit 2; }
cd /verif && ./check "$ID" "$T" > /tmp/tryseed.out 2>&1; rc=$?
git -C /repo checkout -- .
grep -E "^(VIOLATION|KNOWN|INCONCLUSIVE)" /tmp/tryseed.out | cut -c1-220 | head -8
tail -1 /tmp/tryseed.out
echo "exit=$rc"
